"""Structural name resolution (DESIGN P2, rename robustness).

Nothing in the rules refers to a workspace type, storage item, constant or helper function by its
Rust name.  Every such entity is *discovered* from what a rename cannot change:

  types      by their wire shape (serde field / variant names, payload types), or from the signature
             of a wasm entry point (`execute`'s last parameter is the contract's ExecuteMsg, ...)
  items      by the crate they live in and their storage type (Map<_, PairInfoRaw>, Item<Decimal256>, ...)
  functions  by their full signature over the discovered types, and where a signature is shared, by the
             role of the caller (the pricing function is the (U,U,U,D)->(U,U,U) callee of the swap handler)

Resolution is exact: zero or several candidates raise AnchorMissing (fail closed, reported as
`anchor-missing`), never a guess."""
import re
from .roles import AnchorMissing, CRATES
from . import common
from .mir import generic_path

WS = ("bignumber::", "haloswap::", "halo_factory::", "halo_pair::", "halo_router::")
STD = "cosmwasm_std::StdError"
QW = "&cosmwasm_std::QuerierWrapper"
API = "&dyn cosmwasm_std::Api"
U128 = "cosmwasm_std::Uint128"
ADDR = "cosmwasm_std::Addr"


def _split_top(s, sep=","):
    out, depth, cur = [], 0, ""
    for ch in s:
        if ch in "<([":
            depth += 1
        elif ch in ">)]":
            depth -= 1
        if ch == sep and depth == 0:
            out.append(cur.strip())
            cur = ""
        else:
            cur += ch
    if cur.strip():
        out.append(cur.strip())
    return out


def norm_ty(t):
    """A type string without lifetimes and without the `(dyn T + 'a)` decoration."""
    t = re.sub(r"<'\w+, ", "<", t)
    t = re.sub(r"<'\w+>", "", t)
    t = re.sub(r"'\w+\b ?", "", t)
    t = re.sub(r"\(dyn ([^()]+?) \+ \)", r"dyn \1", t)
    t = re.sub(r"\(dyn ([^()]+?)\)", r"dyn \1", t)
    t = t.replace("->", "\x00")
    t = re.sub(r"<>", "", t)
    t = t.replace("\x00", "->")
    return t.strip()


def norm_sig(sig):
    """(param types, return type) of a `fn(..) -> ..` signature string, lifetimes erased."""
    if not sig:
        return None
    s = re.sub(r"^for<[^>]*> ", "", sig)
    m = re.match(r"^(?:unsafe )?fn\((.*)\)(?: -> (.*))?$", s)
    if not m:
        return None
    # the parameter list ends at the matching parenthesis
    depth, end = 0, None
    body = s[s.index("fn(") + 3:]
    for i, ch in enumerate(body):
        if ch in "<([":
            depth += 1
        elif ch in ">)]":
            if depth == 0 and ch == ")":
                end = i
                break
            depth -= 1
    if end is None:
        return None
    params = [norm_ty(x) for x in _split_top(body[:end])]
    rest = body[end + 1:].strip()
    ret = norm_ty(rest[3:]) if rest.startswith("->") else "()"
    return params, ret


def _has_addr_field(fs):
    """the contract's config record names its factory: it has an address-typed field (a migration stamp or a counter has none)"""
    return any(re.search(r"^cosmwasm_std::(\S*::)?(Addr|CanonicalAddr)$", t) for t in fs.values())


def res(ok, err=STD):
    return "std::result::Result<%s, %s>" % (ok, err)


class Names:
    def __init__(self, P):
        self.P = P
        self._memo = {}
        self._sigs = None

    # ------------------------------------------------------------------ helpers
    def _once(self, key, fn):
        if key not in self._memo:
            try:
                self._memo[key] = ("ok", fn())
            except AnchorMissing as e:
                self._memo[key] = ("err", e)
        k, v = self._memo[key]
        if k == "err":
            raise v
        return v

    def _adts(self):
        return [a for a in self.P.adts.values() if a["path"].startswith(WS) and "::_::" not in a["path"] and "!x" not in a.get("span", "")
                and "::tests::" not in a["path"] and "mock_querier" not in a["path"] and "testing" not in a["path"]]

    def _one(self, what, hits):
        hits = list(hits)
        if len(hits) != 1:
            raise AnchorMissing("%s: %d candidates%s" % (what, len(hits), (" (%s)" % ", ".join(sorted(str(h if isinstance(h, str) else getattr(h, "path", h)) for h in hits))[:200]) if hits else ""))
        return hits[0]

    def enum_by_variants(self, what, variants, pred=None):
        def go():
            hs = []
            for a in self._adts():
                if a["kind"] == "enum" and {v["name"] for v in a["variants"]} == set(variants) and (pred is None or pred(a)):
                    hs.append(a["path"])
            return self._one(what, hs)
        return self._once(("enum", what), go)

    def struct_by_fields(self, what, fields, exact=False):
        """fields: {name: type or None}."""
        def go():
            hs = []
            for a in self._adts():
                if a["kind"] != "struct":
                    continue
                fs = {f["name"]: norm_ty(f["ty"]) for f in a["variants"][0]["fields"]}
                if all(n in fs and (t is None or fs[n] == t) for n, t in fields.items()) and (not exact or set(fs) == set(fields)):
                    hs.append(a["path"])
            if len(hs) > 1:
                # several structs with these fields (a wire response and an internal value struct): the response type is the
                # one that can be (de)serialised
                wire = [h_ for h_ in hs if any(i_.get("self") == h_ and str(i_.get("trait", "")).endswith("Deserialize") for i_ in self.P.impls)]
                if len(wire) == 1:
                    hs = wire
            if exact and not hs:
                # the same record with additional (informational) fields
                for a in self._adts():
                    if a["kind"] == "struct":
                        fs = {f["name"]: norm_ty(f["ty"]) for f in a["variants"][0]["fields"]}
                        if all(n in fs and (t is None or fs[n] == t) for n, t in fields.items()):
                            hs.append(a["path"])
            return self._one(what, hs)
        return self._once(("struct", what), go)

    def field_ty(self, adt, variant, field):
        a = self.P.adts.get(adt)
        if a is None:
            raise AnchorMissing("type %s not found" % adt)
        for v in a["variants"]:
            if variant is None or v["name"] == variant:
                for f in v["fields"]:
                    if f["name"] == field:
                        return norm_ty(f["ty"])
        raise AnchorMissing("%s::%s has no field %s" % (adt, variant, field))

    # ------------------------------------------------------------------ types
    @property
    def AssetInfo(self):
        return self.enum_by_variants("asset-info enum {Token{contract_addr: String}, NativeToken{denom}}", ["Token", "NativeToken"],
                                     lambda a: any(v["name"] == "Token" and [norm_ty(f["ty"]) for f in v["fields"]] == ["std::string::String"] for v in a["variants"]))

    @property
    def AssetInfoRaw(self):
        return self.enum_by_variants("raw asset-info enum {Token{contract_addr: CanonicalAddr}, NativeToken{denom}}", ["Token", "NativeToken"],
                                     lambda a: any(v["name"] == "Token" and [norm_ty(f["ty"]) for f in v["fields"]] == ["cosmwasm_std::CanonicalAddr"] for v in a["variants"]))

    @property
    def Asset(self):
        return self.struct_by_fields("asset struct {info: AssetInfo, amount}", {"info": self.AssetInfo, "amount": U128}, exact=True)

    @property
    def AssetRaw(self):
        return self.struct_by_fields("raw asset struct {info: AssetInfoRaw, amount}", {"info": self.AssetInfoRaw, "amount": U128}, exact=True)

    @property
    def PairInfo(self):
        return self.struct_by_fields("pair record {asset_infos: [AssetInfo; 2], liquidity_token, ..}", {"asset_infos": "[%s; 2]" % self.AssetInfo, "liquidity_token": None, "asset_decimals": None})

    @property
    def PairInfoRaw(self):
        return self.struct_by_fields("raw pair record {asset_infos: [AssetInfoRaw; 2], liquidity_token, ..}", {"asset_infos": "[%s; 2]" % self.AssetInfoRaw, "liquidity_token": None, "asset_decimals": None})

    def entry(self, contract, name):
        from . import roles
        return roles.entry(self.P, contract, name)

    def _entry_param(self, contract, name, idx):
        def go():
            crate = CRATES[contract]
            hits = [f for f in self.P.fns.values() if f.crate == crate and f.kind == "fn" and f.name == name and f.body is not None
                    and "::tests::" not in f.path and re.match(r"^%s::\w+::%s$" % (crate, name), f.path)]
            f = self._one("entry point %s::%s" % (crate, name), hits)
            ps, ret = norm_sig(f.sig)
            return ps[idx]
        return self._once(("entry-param", contract, name, idx), go)

    def exec_enum(self, contract):
        return self._entry_param(contract, "execute", -1)

    def query_enum(self, contract):
        return self._entry_param(contract, "query", -1)

    def inst_msg(self, contract):
        return self._entry_param(contract, "instantiate", -1)

    def hook_enum(self, contract):
        """The enum the Receive handler decodes the cw20 envelope's payload into (generic argument of from_binary)."""
        def go():
            from . import roles
            _, _, _, recv, _ = roles.handler_of(self.P, contract, "Receive")
            hs = set()
            for b, p, fr, t in self.P.calls(recv):
                if p and re.search(r"(^|::)from_binary::<", p):
                    m = re.search(r"from_binary::<(.*)>$", p)
                    if m:
                        hs.add(norm_ty(m.group(1)))
                elif p and re.search(r"(^|::)from_(binary|json|slice)$", generic_path(p)):
                    ty = recv.body.locals[t["dest"]["l"]]["ty"] if t.get("dest") else ""
                    m = re.match(r"^std::result::Result<(.*), cosmwasm_std::StdError>$", norm_ty(ty))
                    if m:
                        hs.add(m.group(1))
            return self._one("cw20 hook enum decoded in %s" % recv.path, hs)
        return self._once(("hook", contract), go)

    @property
    def ContractError(self):
        def go():
            f = self.entry("pair", "execute")
            ps, ret = norm_sig(f.sig)
            m = re.match(r"^std::result::Result<cosmwasm_std::Response, (.*)>$", ret)
            if not m:
                raise AnchorMissing("pair execute does not return Result<Response, E>")
            return m.group(1)
        return self._once("ContractError", go)

    @property
    def SwapOperation(self):
        return self._once("SwapOperation", lambda: self.field_ty(self.exec_enum("router"), "ExecuteSwapOperation", "operation"))

    @property
    def Decimal256(self):
        def go():
            # the type of the commission rate carried by the pair record
            return self.field_ty(self.PairInfoRaw, None, "commission_rate")
        return self._once("Decimal256", go)

    @property
    def SimulationResponse(self):
        return self.struct_by_fields("simulation response {return_amount, spread_amount, commission_amount}", {"return_amount": U128, "spread_amount": U128, "commission_amount": U128}, exact=True)

    @property
    def ReverseSimulationResponse(self):
        return self.struct_by_fields("reverse simulation response {offer_amount, spread_amount, commission_amount}", {"offer_amount": U128, "spread_amount": U128, "commission_amount": U128}, exact=True)

    # ------------------------------------------------------------------ storage items and constants
    def _items(self, crate):
        return [c for c in self.P.consts.values() if c["path"].startswith(crate + "::") and c.get("ty", "").startswith("cw_storage_plus::")
                and "::tests::" not in c["path"]]

    def item(self, contract, ty_pat, what):
        """I:<path> of the storage item of `contract` whose type matches the regex."""
        def go():
            crate = CRATES[contract]
            hs = [c["path"] for c in self._items(crate) if re.search(ty_pat, norm_ty(c["ty"]))]
            return "I:" + self._one("%s storage item (%s)" % (contract, what), hs)
        return self._once(("item", contract, ty_pat), go)

    @property
    def PAIRS(self):
        return self.item("factory", r"^cw_storage_plus::Map<&\[u8\], %s>$" % re.escape(self.PairInfoRaw), "Map<&[u8], PairInfoRaw>: the pair registry")

    @property
    def ALLOW(self):
        return self.item("factory", r"^cw_storage_plus::Map<&\[u8\], u8>$", "Map<&[u8], u8>: native decimals allow-list")

    def _local_struct_item(self, contract, pred, what, local_only=False):
        def go():
            crate = CRATES[contract]
            hs = []
            for c in self._items(crate):
                m = re.match(r"^cw_storage_plus::Item<(.*)>$", norm_ty(c["ty"]))
                if not m:
                    continue
                a = self.P.adts.get(m.group(1))
                if a is None or a["kind"] != "struct":
                    continue
                fs = {f["name"]: norm_ty(f["ty"]) for f in a["variants"][0]["fields"]}
                if pred(fs) and (not local_only or m.group(1).startswith(crate + "::")):
                    hs.append(c["path"])
            return "I:" + self._one("%s storage item (%s)" % (contract, what), hs)
        return self._once(("lsitem", contract, what), go)

    @property
    def FACTORY_CONFIG(self):
        return self._local_struct_item("factory", lambda fs: "owner" in fs and not any("AssetInfoRaw" in t or t == "[%s; 2]" % self.AssetInfoRaw for t in fs.values()), "Item<{owner, code ids}>: factory config")

    @property
    def TMP(self):
        return self._local_struct_item("factory", lambda fs: any(t == "[%s; 2]" % self.AssetInfoRaw for t in fs.values()), "Item<{.., [AssetInfoRaw; 2], ..}>: pending pair")

    @property
    def TMP_KEY_FIELD(self):
        """Name of the pending-pair record's field holding the registry key (its only Vec<u8> field)."""
        def go():
            c = self.P.consts.get(self.TMP[2:])
            m = re.match(r"^cw_storage_plus::Item<(.*)>$", norm_ty(c["ty"]))
            a = self.P.adts.get(m.group(1))
            hs = [f["name"] for f in a["variants"][0]["fields"] if norm_ty(f["ty"]) == "std::vec::Vec<u8>"]
            return self._one("registry-key field (Vec<u8>) of the pending-pair record", hs)
        return self._once("tmp-key-field", go)

    @property
    def PAIR_INFO(self):
        return self.item("pair", r"^cw_storage_plus::Item<%s>$" % re.escape(self.PairInfoRaw), "Item<PairInfoRaw>: the pair's own record")

    @property
    def COMMISSION(self):
        return self.item("pair", r"^cw_storage_plus::Item<%s>$" % re.escape(self.Decimal256), "Item<Decimal256>: commission rate")

    @property
    def PAIR_CONFIG(self):
        return self._local_struct_item("pair", _has_addr_field, "Item<local struct with an address field>: pair config", local_only=True)

    @property
    def ROUTER_CONFIG(self):
        return self._local_struct_item("router", _has_addr_field, "Item<local struct with an address field>: router config", local_only=True)

    # ------------------------------------------------------------------ functions
    def _sig_index(self):
        if self._sigs is None:
            self._sigs = []
            for f in self.P.prod_fns():
                if f.kind in ("fn", "assoc_fn") and not f.derived and f.impl_trait is None and f.sig and f.body is not None:
                    ns = norm_sig(f.sig)
                    if ns:
                        self._sigs.append((f, ns[0], ns[1]))
        return self._sigs

    def by_sig(self, what, params, ret, among=None, optional=False):
        """The unique production function with exactly these (lifetime-erased) parameter and return types."""
        def go():
            hs = [f for f, ps, r in self._sig_index() if ps == list(params) and r == ret and (among is None or f.path in among)]
            if not hs:
                # the same role taking a parameter by reference instead of by value (or the reverse): references are
                # transparent in the value graph, positions and types are what the rules rely on
                def unref(ts):
                    # `impl Into<String>` / `impl AsRef<str>` parameters accept (at least) the plain type they convert to
                    out_ = []
                    for t in ts:
                        t = re.sub(r"^&(mut )?", "", t)
                        m_ = re.match(r"^impl (?:std::convert::|core::convert::)?(?:Into|AsRef)<(.+)>$", t)
                        if m_:
                            t = {"String": "std::string::String", "str": "std::string::String", "&str": "std::string::String"}.get(m_.group(1), m_.group(1))
                        out_.append(t)
                    return out_
                hs = [f for f, ps, r in self._sig_index() if unref(ps) == unref(params) and r == ret and (among is None or f.path in among)]
                if not hs and len(set(unref(params))) == len(params) and len(params) >= 2:
                    # the same role with its (pairwise differently typed) parameters in another order: calls of it are read in the
                    # canonical order (Program.val_call consults _arg_perm), so the rules' positional slots keep their meaning
                    for f, ps, r in self._sig_index():
                        if r == ret and sorted(unref(ps)) == sorted(unref(params)) and (among is None or f.path in among):
                            hs.append(f)
                    if len(hs) == 1:
                        ups = unref([p_ for f_, ps_, r_ in self._sig_index() if f_ is hs[0] for p_ in ps_])
                        perm = [ups.index(t) for t in unref(params)]
                        if not hasattr(self.P, "_arg_perm"):
                            self.P._arg_perm = {}
                        self.P._arg_perm[hs[0].path] = perm
                        self.P._val_memo.clear()
            if optional and not hs:
                return None
            return self._one("%s  fn(%s) -> %s" % (what, ", ".join(params), ret), hs)
        return self._once(("sig", what, tuple(params), ret, None if among is None else tuple(sorted(among)), optional), go)

    def callees(self, fn):
        out = set()
        for b, p, fr, t in self.P.calls(fn):
            if p:
                g = self.P.fn(p) or self.P.fn(generic_path(p))
                if g is not None:
                    out.add(g.path)
        return out

    def callees_deep(self, fn, depth=3):
        seen = set()
        todo = [(fn, 0)]
        while todo:
            f, d = todo.pop()
            for p in self.callees(f):
                if p not in seen:
                    seen.add(p)
                    g = self.P.fn(p)
                    if g is not None and g.body is not None and d + 1 < depth and p.startswith(WS):
                        todo.append((g, d + 1))
        return seen

    # asset helpers
    @property
    def funds_check(self):
        try:
            return self.by_sig("native-funds check", ["&" + self.Asset, "&cosmwasm_std::MessageInfo"], res("()"))
        except AnchorMissing as e0:
            # the check taking just the attached coins (`funds: &[Coin]`) instead of the whole MessageInfo
            for fty in ("&[cosmwasm_std::Coin]", "&std::vec::Vec<cosmwasm_std::Coin>"):
                try:
                    f = self.by_sig("native-funds check", ["&" + self.Asset, fty], res("()"))
                    self.funds_check_takes_funds = True
                    return f
                except AnchorMissing:
                    pass
            raise e0

    @property
    def transfer_ctor(self):
        return self.by_sig("transfer constructor", [self.Asset, ADDR], res("cosmwasm_std::CosmosMsg"))

    def is_native(self, ty):
        return self.by_sig("variant test of %s" % ty, ["&" + ty], "bool", optional=(ty != self.AssetInfo))

    def equal(self, ty):
        return self.by_sig("equality of %s" % ty, ["&" + ty, "&" + ty], "bool", optional=(ty != self.AssetInfo))

    @property
    def info_to_raw(self):
        return self.by_sig("AssetInfo -> AssetInfoRaw", ["&" + self.AssetInfo, API], res(self.AssetInfoRaw))

    @property
    def info_to_normal(self):
        return self.by_sig("AssetInfoRaw -> AssetInfo", ["&" + self.AssetInfoRaw, API], res(self.AssetInfo))

    @property
    def pair_to_normal(self):
        return self.by_sig("PairInfoRaw -> PairInfo", ["&" + self.PairInfoRaw, API], res(self.PairInfo))

    @property
    def asset_to_raw(self):
        return self.by_sig("Asset -> AssetRaw", ["&" + self.Asset, API], res(self.AssetRaw), optional=True)

    @property
    def asset_to_normal(self):
        return self.by_sig("AssetRaw -> Asset", ["&" + self.AssetRaw, API], res(self.Asset), optional=True)

    @property
    def raw_as_bytes(self):
        return self.by_sig("AssetInfoRaw identifier bytes", ["&" + self.AssetInfoRaw], "&[u8]")

    @property
    def query_pools(self):
        return self.by_sig("pool balances of a pair record", ["&" + self.PairInfoRaw, QW, API, ADDR], res("[%s; 2]" % self.Asset))

    @property
    def query_pool(self):
        return self.by_sig("balance of one asset", ["&" + self.AssetInfo, QW, API, ADDR], res(U128))

    @property
    def query_decimals(self):
        return self.by_sig("decimals of one asset", ["&" + self.AssetInfo, ADDR, QW], res("u8"))

    @property
    def native_denom(self):
        return self.by_sig("denom of a native asset", ["&" + self.AssetInfo], res("std::string::String"))

    # queriers
    @property
    def q_token_info(self):
        return self.by_sig("cw20 token info query", [QW, ADDR], res("cw20::TokenInfoResponse"))

    @property
    def q_token_balance(self):
        return self.by_sig("cw20 balance query", [QW, ADDR, ADDR], res(U128))

    @property
    def q_balance(self):
        return self.by_sig("bank balance query", [QW, ADDR, "std::string::String"], res(U128))

    @property
    def q_all_balances(self):
        return self.by_sig("bank all-balances query", [QW, ADDR], res("std::vec::Vec<cosmwasm_std::Coin>"), optional=True)

    @property
    def q_native_decimals(self):
        return self.by_sig("factory native-decimals query", [QW, ADDR, "std::string::String"], res("u8"))

    @property
    def q_pair_info(self):
        return self.by_sig("factory pair lookup query", [QW, ADDR, "&[%s; 2]" % self.AssetInfo], res(self.PairInfo))

    @property
    def q_pair_info_from_pair(self):
        return self.by_sig("pair self-description query", [QW, ADDR], res(self.PairInfo))

    @property
    def q_simulate(self):
        return self.by_sig("pair simulation query", [QW, ADDR, "&" + self.Asset], res(self.SimulationResponse))

    @property
    def q_reverse_simulate(self):
        return self.by_sig("pair reverse-simulation query", [QW, ADDR, "&" + self.Asset], res(self.ReverseSimulationResponse))

    # factory helpers
    @property
    def pair_key(self):
        try:
            return self.by_sig("registry key function", ["&[%s; 2]" % self.AssetInfoRaw], "std::vec::Vec<u8>")
        except AnchorMissing as e0:
            # several functions map an asset pair to bytes (the key, and e.g. `key_after` = key ++ [1] for the cursor): the
            # key function is the one the others are built from — the only candidate that calls none of the others
            def go():
                hs = [f for f, ps, r in self._sig_index() if [re.sub(r"^&(mut )?", "", t) for t in ps] == ["[%s; 2]" % self.AssetInfoRaw] and r == "std::vec::Vec<u8>"]
                paths = {f.path for f in hs}
                base = [f for f in hs if not (self.callees(f) & (paths - {f.path}))]
                callers_ok = all(f in base or (self.callees(f) & {b_.path for b_ in base}) for f in hs)
                if len(base) == 1 and callers_ok:
                    return base[0]
                raise e0
            return self._once(("pair_key_base",), go)

    def role_items(self):
        """Root strings of the storage items the properties speak about (a new item nobody of these is, e.g. a statistics
        counter, carries no property-relevant state)."""
        out = set()
        for a in ("PAIRS", "ALLOW", "FACTORY_CONFIG", "TMP", "PAIR_INFO", "COMMISSION", "PAIR_CONFIG", "ROUTER_CONFIG"):
            try:
                out.add(getattr(self, a))
            except AnchorMissing:
                pass
        return out

    # router helpers
    @property
    def target_asset(self):
        def go():
            what = "ask asset of a hop  fn(&%s) -> %s" % (self.SwapOperation, self.AssetInfo)
            hs = [f for f, ps, r in self._sig_index() if ps == ["&" + self.SwapOperation] and r == self.AssetInfo]
            if len(hs) > 1:
                # several accessors with this signature (offer / ask): the role is the one returning the ask field
                from . import common as _c
                R = _c.Roots(self.P)
                keep = []
                for f in hs:
                    rs = set()
                    for (b, i, cls, v) in _c.exit_sites(self.P, f):
                        rs |= set(R.roots(v))
                    if rs and all(r_.endswith(".ask_asset_info") for r_ in rs):
                        keep.append(f)
                hs = keep
            return self._one(what, hs)
        return self._once(("target_asset",), go)

    # pricing
    def pricing_candidates(self):
        sig = [U128, U128, U128, self.Decimal256]
        ret = "(%s, %s, %s)" % (U128, U128, U128)
        out = [f for f, ps, r in self._sig_index() if ps == sig and r == ret]
        # the same triple as a struct with three named Uint128 fields (`SwapAmounts { return_amount, spread_amount,
        # commission_amount }`): its fields are read by position, like the tuple's components
        for f, ps, r in self._sig_index():
            if ps == sig and r != ret:
                a = self.P.adts.get(r)
                if a is not None and a["kind"] == "struct" and len(a["variants"][0]["fields"]) == 3 and all(norm_ty(x["ty"]) == U128 for x in a["variants"][0]["fields"]):
                    if not hasattr(self.P, "_triple_fields"):
                        self.P._triple_fields = {}
                    self.P._triple_fields[f.path] = [x["name"] for x in a["variants"][0]["fields"]]
                    out.append(f)
        return out

    def pricing(self, caller, what):
        """The (Uint128, Uint128, Uint128, Decimal256) -> (Uint128, Uint128, Uint128) function called (possibly through helpers) by `caller`."""
        def go():
            cands = {f.path: f for f in self.pricing_candidates()}
            cs = self.callees_deep(caller, depth=3)
            return self._one("%s: pricing function (Uint128 x3, Decimal256) -> (Uint128 x3) reached from %s" % (what, caller.path), [cands[p] for p in cands if p in cs])
        return self._once(("pricing", caller.path), go)

    # registry of resolved comparison helpers for common.cmp_kind
    def cmp_aliases(self):
        out = {}
        for ty_name in ("AssetInfo", "AssetInfoRaw", "Asset"):
            try:
                ty = getattr(self, ty_name)
            except AnchorMissing:
                continue
            for kind, getter in (("is_native_token", self.is_native), ("equal", self.equal)):
                if kind == "equal" and ty_name == "Asset":
                    continue
                try:
                    f = getter(ty)
                except AnchorMissing:
                    f = None
                if f is not None:
                    out[f.path] = kind
        return out


def get(P):
    n = getattr(P, "_names", None)
    if n is None:
        n = Names(P)
        P._names = n
        common.CMP_ALIASES.clear()
        common.CMP_ALIASES.update(n.cmp_aliases())
        # functions the rules anchor on by role are never inlined into provenance
        roles_ = set()
        for attr in ("funds_check", "transfer_ctor", "info_to_raw", "info_to_normal", "pair_to_normal", "asset_to_raw", "asset_to_normal", "raw_as_bytes",
                     "query_pools", "query_pool", "query_decimals", "native_denom", "q_token_info", "q_token_balance", "q_balance", "q_all_balances",
                     "q_native_decimals", "q_pair_info", "q_pair_info_from_pair", "q_simulate", "q_reverse_simulate", "pair_key", "target_asset"):
            try:
                v = getattr(n, attr)
                if v is not None:
                    roles_.add(v.path)
            except AnchorMissing:
                pass
        try:
            for f_ in n.pricing_candidates():
                roles_.add(f_.path)
        except AnchorMissing:
            pass
        P._role_fns = roles_
        common._PURE_MEMO.clear()
        common.WS_MSG_ADTS.clear()
        for c in ("pair", "router", "factory"):
            try:
                common.WS_MSG_ADTS.add(n.exec_enum(c))
            except AnchorMissing:
                pass
        for c in ("pair", "router"):
            try:
                common.WS_MSG_ADTS.add(n.hook_enum(c))
            except AnchorMissing:
                pass
    return n


def _fn_path(self, role):
    v = getattr(self, role)
    return v.path if hasattr(v, "path") else v


def _is_fn(self, callee, role):
    """callee (a MIR callee string) is the function resolved for `role`."""
    if not isinstance(callee, str):
        return False
    try:
        v = getattr(self, role)
    except AnchorMissing:
        return False
    if v is None:
        return False
    return callee == v.path or generic_path(callee) == v.path


def _rx(self, attr):
    return re.escape(_fn_path(self, attr))


Names.cpath = _fn_path
Names.is_fn = _is_fn
Names.rx = _rx
