"""C15 — provision succeeds only within the caller's slippage tolerance (DESIGN §5 C15)."""
import re
from .. import common, roles, lemmas, numeric, eround
from ..eround import RF, Translator, Unsupported, D18
from ..roles import P_, param, INFO_TY, ENV_TY, AnchorMissing
from ..mir import generic_path, proj


def slippage_guard(P, pr):
    """Role: callee of the provide handler constructing ContractError::MaxSlippageAssertion."""
    from .. import names
    N = names.get(P)
    f = pr.provide_handler
    out = []
    for b, p, fr, t in P.calls(f):
        if roles.is_workspace_fn(P, p):
            g = P.fn(p) or P.fn(generic_path(p))
            ns = names.norm_sig(g.sig) if g is not None and g.sig else None
            if ns and ns[1] == names.res("()", N.ContractError) and any(x in ns[0] for x in ("&std::option::Option<cosmwasm_std::Decimal>", "std::option::Option<cosmwasm_std::Decimal>")) and any(x in ns[0] for x in ("&[%s; 2]" % N.Asset, "[%s; 2]" % N.Asset)) and (b, g) not in out:
                out.append((b, g))
    if len(out) != 1:
        raise AnchorMissing("slippage guard (callee of the provide handler: fn(&Option<Decimal>, .., &[Asset; 2]) -> Result<(), ContractError>): %d found" % len(out))
    return out[0]


def _run(ctx):
    P = ctx.P
    r1 = ctx.inst("C15.R1", "provide handler calls the guard with (caller's tolerance, declared deposits, reserves net of native deposits), error propagated, before any mint", floor=3)
    r2 = ctx.inst("C15.R2", "a tolerance above 1 is rejected before anything else in the guard", floor=1)
    g1 = ctx.inst("C15.G1", "guard shape: with Some(t): reject iff pd(d0,d1) > pr(r0,r1) or pd(d1,d0) > pr(r1,r0); with None: accept", floor=3)
    n1 = ctx.inst("C15.N1", "soundness: not rejected => (d_i/d_j)(1-t) <= r_i/r_j + 2*10^-18 (both directions; E-ROUND with certificate)", floor=2)
    n2 = ctx.inst("C15.N2", "completeness: (d_i/d_j)(1-t) <= r_i/r_j - 10^-18 => that disjunct does not reject", floor=2)
    try:
        pr = roles.PairRoles(P)
        gb, g = slippage_guard(P, pr)
    except AnchorMissing as e:
        for r in (r1, r2, g1, n1, n2):
            r.fail("%s:anchor" % r.id, "-", "-", "anchor-missing: %s" % e)
        return
    f = pr.provide_handler
    body = f.body
    # ---- R1 wiring -------------------------------------------------------------------------------
    tol_i = common.param_index_of_type(f, r"^std::option::Option<cosmwasm_std::\S*Decimal>$")
    cv = P.val_call(f, body, gb)
    gt_i = common.param_index_of_type(g, r"Option<cosmwasm_std::\S*Decimal>$")
    gd_i = common.param_index_of_type(g, r"\[cosmwasm_std::\S*Uint128; 2\]$")
    gp_i = common.param_index_of_type(g, r"\[%s; 2\]$" % ctx.N.rx("Asset"))
    if None in (tol_i, gt_i, gd_i, gp_i):
        r1.fail("C15.R1:anchor", g.path, g.span, "anchor-missing: guard parameters (Option<Decimal>, [Uint128;2], [Asset;2])")
        return
    if set(ctx.roots(cv[4][gt_i])) != {P_(f, tol_i)}:
        r1.fail("C15.R1:tolerance-origin", f.path, common.span_of_block_term(f, gb), "guard receives tolerance ⊢ %s, expected the caller's slippage_tolerance" % sorted(ctx.roots(cv[4][gt_i])))
    else:
        r1.site("tolerance ⊢ message field")
    # deposits = the same array the share calculator and TransferFrom use; pools = query_pools mutated by the adjust loop
    dr = "|".join(sorted(ctx.roots(cv[4][gd_i])))
    pr_ = set(ctx.roots(cv[4][gp_i]))
    qp = [r for r in pr_ if r.startswith("C:%s@" % ctx.N.cpath("query_pools"))]
    if not dr.startswith("A:array[") or len(qp) != 1:
        r1.fail("C15.R1:args", f.path, common.span_of_block_term(f, gb), "guard receives deposits ⊢ %s, pools ⊢ %s" % (dr[:120], sorted(pr_)))
    else:
        r1.site("deposits ⊢ declared deposits array; pools ⊢ query_pools (after the native adjustment loop: C05.R3)")
    pg = common.propagated(P, f, gb)
    sinks = [b for (b, d) in roles.sink_blocks(P, f) if "Mint" in d]
    if pg is None:
        r1.fail("C15.R1:not-propagated", f.path, common.span_of_block_term(f, gb), "the guard's verdict is ignored")
    else:
        s, cont, brk = pg
        ok, why = common.fail_edge_only_errors(P, f, brk)
        if not ok:
            r1.fail("C15.R1:error-not-returned", f.path, common.span_of_block_term(f, gb), "a rejected provision does not abort: %s" % why)
        mint_blocks = [b for (fn, b, i, adt, var, v, span) in common.message_sites(P) if fn.path == f.path and var == "Mint"]
        for b in mint_blocks + [x[0] for x in common.ok_exit_blocks(P, f)]:
            if not body.edge_dominates(cont, b):
                r1.fail("C15.R1:not-dominating", f.path, common.span_of_block_term(f, b), "a mint / success exit is reachable without the slippage guard having accepted")
        if r1.status == "pass":
            r1.site("guard propagated; dominates %d mint site(s) and the success exit" % len(mint_blocks))

    # ---- guard internals -----------------------------------------------------------------------------------
    gbody = g.body
    TOL = P_(g, gt_i)
    exits = common.exit_sites(P, g)
    oks = [x for x in exits if x[2] == "ok"]
    tab = {b: lemmas.cond_strings(ctx, common.control_conditions(P, g, b)) for (b, i, cls, v) in exits}
    # the Some / None split must be on the caller's option itself
    oe = None
    for s_, blk in enumerate(gbody.blocks):
        if blk["cleanup"] or blk["term"]["k"] != "switch":
            continue
        c = common.switch_cond(P, g, s_)
        if c and c[0] == "discr" and set(ctx.roots(c[1])) == {TOL}:
            ty = common.discr_place_ty(g, s_)
            some = none = None
            for x, tb in blk["term"]["arms"] + [["otherwise", blk["term"]["otherwise"]]]:
                if gbody.blocks[tb]["term"]["k"] == "unreachable":
                    continue
                nm = common.variant_name(P, ty, x) if x != "otherwise" else None
                if nm == "Some":
                    some = (s_, tb)
                elif nm == "None":
                    none = (s_, tb)
                elif x == "otherwise":
                    if some is None:
                        some = (s_, tb)
                    else:
                        none = (s_, tb)
            oe = (some, none)
    if oe is None or None in oe:
        g1.fail("C15.G1:option-test", g.path, g.span, "the guard is not selected by the caller's Option itself (Some => check, None => accept): a given tolerance could be skipped")
        return
    some_e, none_e = oe
    g1.site("Some(t) => checked, None => accepted (tested on the caller's option at %s)" % common.span_of_block_term(g, some_e[0]))
    some_region = common.region_of_edge(gbody, some_e)
    # ---- R2 ---------------------------------------------------------------------------------------------------
    gts = []
    over = None
    for gg in common.bool_guards(P, g):
        c = gg.cond
        if gg.b in some_region and c[0] == "cmp" and c[1] in ("gt", "lt", "ge", "le") and len(c[2]) == 2:
            a, b_ = c[2]
            kind = c[1]
            if kind in ("lt", "le"):
                a, b_ = b_, a
                kind = {"lt": "gt", "le": "ge"}[kind]
            ra, rb = set(ctx.roots(a)), set(ctx.roots(b_))
            if ra == {TOL} and len(rb) == 1 and re.match(r"^C:bignumber::(\w+::)*Decimal256::one@", list(rb)[0]):
                over = (gg, kind)
            else:
                gts.append((gg, kind, a, b_))
    if over is None:
        r2.fail("C15.R2:no-guard", g.path, g.span, "a tolerance above 100% is not rejected")
    else:
        gg, kind = over
        if kind != "gt":
            r2.fail("C15.R2:boundary", g.path, common.span_of_block_term(g, gg.b), "a tolerance of exactly 1 is rejected (>=)")
        ok, why = common.fail_edge_only_errors(P, g, gg.edge(True))
        if not ok:
            r2.fail("C15.R2:fail-edge", g.path, common.span_of_block_term(g, gg.b), "tolerance > 1 does not abort: %s" % why)
        for (gg2, k2, a2, b2) in gts:
            if not gbody.edge_dominates(gg.edge(False), gg2.b):
                r2.fail("C15.R2:order", g.path, common.span_of_block_term(g, gg2.b), "the ratio comparison runs before the tolerance bound check (1 - t could abort or wrap)")
        if r2.status == "pass":
            r2.site("t > 1 => Err at %s, before the ratio comparisons" % common.span_of_block_term(g, gg.b))
    # ---- G1 / N1 / N2 --------------------------------------------------------------------------------------------
    # Decided on the decision table of the guard, whatever its syntax (two `if`s, `a || b`, `ensure(!(a || b), Err)?`,
    # a flag): with a tolerance given, the call is rejected exactly when one of the two ratio comparisons holds.
    def shape(v):
        if isinstance(v, tuple):
            if v and v[0] == "call":
                return ("call", v[3], tuple(shape(x) for x in v[4]))
            return tuple(shape(x) for x in v)
        return v

    def ratio_literal(c):
        """(key, a, b, truth, strict) for a control condition that is an order comparison other than the tolerance bound."""
        cd = c["cond"]
        if cd[0] != "cmp" or cd[1] not in ("gt", "lt", "ge", "le") or len(cd[2]) != 2 or len(c["allowed"]) != 1:
            return None
        a, b_ = cd[2]
        kind = cd[1]
        truth = c["allowed"][0]
        if kind in ("lt", "le"):
            a, b_ = b_, a
            kind = {"lt": "gt", "le": "ge"}[kind]
        # now: a > b (gt) or a >= b (ge)
        ra, rb = set(ctx.roots(a)), set(ctx.roots(b_))
        if (ra == {TOL} or rb == {TOL}) and any(len(x) == 1 and re.match(r"^C:bignumber::(\w+::)*Decimal256::one@", list(x)[0]) for x in (ra, rb)):
            return None
        return (shape((a, b_)), a, b_, truth, kind == "gt", c["sw"])

    rej_exits = [(b, v) for (b, i, cls, v) in common.exit_sites(P, g) if cls == "err" and b in gbody.reachable_from(some_e[1]) and
                 ((v[0] == "agg" and any(x[0] == "agg" and x[2] != ctx.N.ContractError + "::Std" and str(x[2]).startswith(ctx.N.ContractError) for x in common.walk(v))) or common.rejects_via_check_helper(P, v))]
    lits = {}
    rej_rows, ok_rows = [], []
    for b, v in rej_exits:
        for conj in (common.path_conjunctions(P, g, b) or common.control_conditions_dnf(P, g, b)):
            row = {}
            tol_bound = False
            for c in conj:
                rl = ratio_literal(c)
                if rl is None:
                    cd = c["cond"]
                    if cd[0] == "cmp" and cd[1] in ("gt", "lt", "ge", "le") and over is not None and c["sw"] == over[0].b and c["allowed"] in ([True], [False]):
                        # is this the tolerance > 1 rejection itself?
                        pass
                    continue
                lits[rl[0]] = rl
                row[rl[0]] = rl[3]
            rej_rows.append((b, row))
    for (b, i, cls, v) in oks:
        if b not in gbody.reachable_from(some_e[1]):
            continue
        for conj in (common.path_conjunctions(P, g, b) or common.control_conditions_dnf(P, g, b)):
            if not any(c["sw"] == some_e[0] and "Some" in [str(x) for x in c["allowed"]] for c in conj):
                continue        # a path on which no tolerance was given
            row = {}
            for c in conj:
                rl = ratio_literal(c)
                if rl is not None:
                    lits[rl[0]] = rl
                    row[rl[0]] = rl[3]
            ok_rows.append((b, row))
    keys = sorted(lits, key=str)
    if len(keys) != 2:
        g1.fail("C15.G1:comparisons", g.path, g.span, "expected two ratio comparisons in the guard, found %d: unrecognised-idiom" % len(keys))
        return
    for k_ in keys:
        if not lits[k_][4]:
            g1.fail("C15.G1:non-strict", g.path, common.span_of_block_term(g, lits[k_][5]), "ratio comparison is `>=`: a provision exactly at the tolerance is rejected")

    def covers(row, asg):
        return all(asg[k_] == t_v for k_, t_v in row.items())
    # rows of the tolerance-bound rejection carry no ratio literal and are decided by R2; drop rows without any literal from the rejections
    rej_lit_rows = [(b, row) for b, row in rej_rows if row]
    for asg_v in ((True, True), (True, False), (False, True)):
        asg = dict(zip(keys, asg_v))
        if not any(covers(row, asg) for b, row in rej_lit_rows):
            g1.fail("C15.G1:reject-edge", g.path, g.span, "a provision for which a ratio comparison holds (%s) is not rejected on every path" % (asg_v,))
        for b, row in ok_rows:
            if covers(row, asg):
                g1.fail("C15.G1:ok-bypass", g.path, common.span_of_block_term(g, b), "with a tolerance given, success is reachable although a ratio comparison holds")
                break
    asg0 = dict(zip(keys, (False, False)))
    if any(covers(row, asg0) for b, row in rej_lit_rows):
        g1.fail("C15.G1:over-reject", g.path, g.span, "a provision is rejected although neither ratio comparison holds")

    class _G:       # the translation below only needs a location per comparison
        def __init__(self, b):
            self.b = b
    gts = [(_G(lits[k_][5]), "gt", lits[k_][1], lits[k_][2]) for k_ in keys]
    # translate both comparisons
    T = Translator(P)
    d = [T.var("d0"), T.var("d1")]
    r = [T.var("r0"), T.var("r1")]
    t_ = T.var("t")
    env = {}
    for k in (0, 1):
        env[proj(common.param_value(g, gd_i), ("i", k))] = d[k]
        env[proj(proj(common.param_value(g, gp_i), ("i", k)), ("f", "amount"))] = r[k]
    env[proj(proj(common.param_value(g, gt_i), ("v", "Some")), ("f", 0))] = t_
    seen_dirs = set()
    for (gg, kind, a, b_) in gts:
        where = common.span_of_block_term(g, gg.b)
        try:
            pd = T.tr(a, env)
            prr = T.tr(b_, env)
        except Unsupported as e:
            g1.fail("C15.G1:untranslatable", g.path, where, "cannot interpret a ratio comparison (%s): unrecognised-idiom" % e)
            continue
        # which direction is this? compare against the reference shapes
        direction = None
        for i in (0, 1):
            j = 1 - i
            ref_pr = T.floors.floor(r[i] * RF(D18) / r[j], "ref")
            if prr.equals(ref_pr):
                direction = i
        if direction is None:
            g1.fail("C15.G1:reserve-ratio", g.path, where, "right-hand side is %s, expected floor(r_i * 10^18 / r_j)" % prr.show())
            continue
        i, j = direction, 1 - direction
        seen_dirs.add(i)
        g1.site("reject if %s > floor(r%d*D/r%d) at %s" % (pd.show(), i, j, where))
        beta = RF.var("beta")    # 1 - t/D in [0,1]
        s = RF.var("s")
        e3 = RF.var("e9")
        usub = ("t", RF(D18) * (RF(1) - beta))
        u_rate = beta            # (D - t)/D
        # N1 soundness: hypothesis pr_i >= pd_i  i.e. floor(r_i D / r_j) = pd + s  =>  r_i = r_j (pd + s + e3)/D
        cert1 = [("r%d" % i, r[j] * (pd + s + e3) / RF(D18)), usub]
        target1 = r[i] / r[j] + RF(2) / RF(D18) - (d[i] / d[j]) * u_rate
        numeric.run_obligation(n1, "C15.N1", g, T, target1, "direction %d/%d: r_i/r_j + 2/D - (d_i/d_j)(1-t) >= 0 given the comparison passed" % (i, j), box=("beta", "e9"), subst=cert1)
        # N2 completeness: hypothesis r_i/r_j = (d_i/d_j)(1-t) + 1/D + s  =>  pr - pd >= 0
        cert2 = [("r%d" % i, r[j] * ((d[i] / d[j]) * u_rate + RF(1) / RF(D18) + s)), usub]
        numeric.run_obligation(n2, "C15.N2", g, T, prr - pd, "direction %d/%d: pr - pd >= 0 given (d_i/d_j)(1-t) <= r_i/r_j - 1/D" % (i, j), box=("beta",), subst=cert2)
    if seen_dirs != {0, 1} and g1.status == "pass":
        g1.fail("C15.G1:directions", g.path, g.span, "the two comparisons cover directions %s, expected both 0/1 and 1/0" % sorted(seen_dirs))
    ctx.extra.setdefault("terms", {})["slippage"] = ["%s = floor(%s)  <- %s" % (a, b.show(), o) for a, b, o in T.floors.items]
    ctx.assumptions.append("strict sides of the statement follow from eps < 1 (DESIGN §7.3); tolerance has at most 18 fractional digits (cosmwasm Decimal)")


def run(ctx):
    from .. import numeric
    _run(ctx)
    numeric.arith_base(ctx, "C15.B1")
    from .. import compose
    from . import c05
    P = ctx.P
    r3 = ctx.inst("C15.R3", "the guard sees what the statement talks about: the handler's tolerance is the message's slippage_tolerance unchanged at every entry, deposits are paired with pools by asset equality and every native pool is net of the caller's deposit (shared with C05.R3/R4)", floor=3)
    try:
        pr = roles.PairRoles(P)
        f = pr.provide_handler
        pa = common.param_access(P, f, r"^std::option::Option<cosmwasm_std::\S*Decimal>$")
        if pa is None:
            raise AnchorMissing("provide handler's Option<Decimal> parameter")
        ex_enum = ctx.N.exec_enum("pair")
        n = 0
        for c, cb in P.callers(f.path):
            if "::tests::" in c.path:
                continue
            n += 1
            mi = common.param_index_of_type(c, "^%s$" % re.escape(ex_enum))
            got = pa.arg_roots(ctx.R, P.val_call(c, c.body, cb))
            want = {P_(c, mi, "~ProvideLiquidity.slippage_tolerance")} if mi is not None else None
            if want is None or got != want:
                r3.fail("C15.R3:tolerance-forwarding:%s" % c.path, c.path, common.span_of_block_term(c, cb),
                        "the provide handler receives tolerance ⊢ %s, expected exactly the message's slippage_tolerance: a given tolerance (0 included) must reach the guard unchanged" % sorted(got))
            else:
                r3.site("%s forwards the message's slippage_tolerance unchanged" % c.path)
        if n == 0:
            r3.fail("C15.R3:anchor", f.path, f.span, "anchor-missing: no caller of the provide handler")
    except AnchorMissing as e:
        r3.fail("C15.R3:anchor", "-", "-", "anchor-missing: %s" % e)
    compose.pull(ctx, r3, c05, {"C05.R3", "C05.R4"}, "C15.R3")
