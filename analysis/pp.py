"""Pretty printer for the JSON MIR facts (debugging aid and report text)."""
import json, sys

def pl(p):
    s = "_%d" % p["l"]
    for e in p["p"]:
        k = e["k"]
        if k == "deref": s = "(*%s)" % s
        elif k == "field": s = "%s.%s" % (s, e.get("name", e["i"]))
        elif k == "index": s = "%s[_%d]" % (s, e["local"])
        elif k == "cindex": s = "%s[%s%d]" % (s, "-" if e["from_end"] else "", e["i"])
        elif k == "downcast": s = "(%s as %s)" % (s, e["variant"])
        else: s = "%s.<%s>" % (s, k)
    return s

def op(o):
    k = o["k"]
    if k in ("copy", "move"): return ("" if k == "copy" else "move ") + pl(o["place"])
    if k == "const":
        if "fn" in o: return "fn:" + fnname(o["fn"])
        if "promoted" in o: return "promoted[%d]" % o["promoted"]
        if "uneval" in o: return "const:" + o["uneval"] + ("=" + o["int"] if "int" in o else "")
        if "int" in o: return "%s_%s" % (o["int"], o["ty"])
        if "str" in o: return json.dumps(o["str"])
        return o["s"]
    return o.get("s", "?")

def fnname(f):
    r = f.get("rpath") or f["path"]
    return r

def rv(r):
    k = r["k"]
    if k == "use": return op(r["op"])
    if k == "ref": return ("&mut " if r["mut"] else "&") + pl(r["place"])
    if k == "rawptr": return "&raw " + pl(r["place"])
    if k == "cast": return "%s as %s (%s)" % (op(r["op"]), r["ty"], r["kind"])
    if k == "binop": return "%s(%s, %s)" % (r["op"], op(r["a"]), op(r["b"]))
    if k == "unop": return "%s(%s)" % (r["op"], op(r["a"]))
    if k == "discr": return "discriminant(%s)" % pl(r["place"])
    if k == "agg":
        a = r["agg"]
        if a == "adt":
            nm = r["adt"] + ("::" + r["variant"] if r["is_enum"] else "")
            fs = ", ".join("%s: %s" % (n, op(o)) for n, o in zip(r["fields"], r["ops"]))
            return "%s { %s }" % (nm, fs)
        if a == "closure": return "closure %s [%s]" % (r["closure"], ", ".join(op(o) for o in r["ops"]))
        return "%s(%s)" % (a, ", ".join(op(o) for o in r["ops"]))
    if k == "repeat": return "[%s; %s]" % (op(r["op"]), r["n"])
    return r.get("s", "?")

def term(t):
    k = t["k"]
    if k == "goto": return "goto bb%d" % t["target"]
    if k == "switch":
        return "switch %s [%s, otherwise: bb%d]" % (op(t["discr"]), ", ".join("%s: bb%d" % (v, b) for v, b in t["arms"]), t["otherwise"])
    if k == "call":
        f = t["func"]
        name = fnname(f["fn"]) if "fn" in f else op(f)
        tgt = "bb%d" % t["target"] if t["target"] is not None else "!"
        return "%s = %s(%s) -> %s" % (pl(t["dest"]), name, ", ".join(op(a) for a in t["args"]), tgt)
    if k == "drop": return "drop(%s) -> bb%d" % (pl(t["place"]), t["target"])
    if k == "assert": return "assert(%s == %s, %s) -> bb%d" % (op(t["cond"]), t["expected"], t["msg"], t["target"])
    return k

def body(b, out=sys.stdout, cleanup=False):
    names = {}
    for d in b["debug"]:
        if "place" in d and not d["place"]["p"]:
            names[d["place"]["l"]] = d["name"]
    for i, l in enumerate(b["locals"]):
        out.write("    let _%d: %s;%s\n" % (i, l["ty"], "  // " + names[i] if i in names else ""))
    for i, bb in enumerate(b["blocks"]):
        if bb["cleanup"] and not cleanup: continue
        out.write("  bb%d:%s\n" % (i, " (cleanup)" if bb["cleanup"] else ""))
        for st in bb["stmts"]:
            if st["k"] == "assign":
                out.write("    %s = %s;   // %s\n" % (pl(st["place"]), rv(st["rv"]), st["span"].split("/")[-1]))
            elif st["k"] == "setdiscr":
                out.write("    discriminant(%s) = %d;\n" % (pl(st["place"]), st["vi"]))
        out.write("    %s;   // %s\n" % (term(bb["term"]), bb["term"]["span"].split("/")[-1]))

if __name__ == "__main__":
    facts = json.load(open(sys.argv[1]))
    pat = sys.argv[2] if len(sys.argv) > 2 else None
    for f in facts["fns"]:
        if pat is None:
            print(f["kind"], f["path"], "derived" if f["derived"] else "", f["span"]); continue
        if pat in f["path"] and "body" in f:
            print("fn", f["path"], f.get("sig", ""), f["span"])
            body(f["body"])
            for i, p in enumerate(f.get("promoted", [])):
                print(" promoted[%d]:" % i); body(p)
