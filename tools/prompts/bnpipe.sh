#!/bin/bash
# usage: bnpipe.sh BNnn LANE
BN=$1; LANE=$2
cd /verif
CONFIRM_DIR=BENIGN python3 tools/confirm_refactors.py $BN > /tmp/wt/$BN.confirm.log 2>&1
[ -d /tmp/wt/$LANE ] || git -C /repo worktree add --detach /tmp/wt/$LANE HEAD -q
HALO_REPO=/tmp/wt/$LANE HALO_CACHE=/verif/.cache-mut-$LANE python3 tools/harvest_benign.py $BN > /tmp/wt/$BN.harvest.log 2>&1
