#!/usr/bin/env python3
"""Apply each seeded change to /repo, run the registered quick checks, undo it, and record which checks fire.
usage: run_seeded.py [ids...]  (default: all under /verif/seeded)"""
import json, os, subprocess, sys
V = os.path.dirname(os.path.dirname(os.path.abspath(__file__)))
ids = sys.argv[1:] or sorted(os.listdir(os.path.join(V, "seeded")))
man = json.load(open(os.path.join(V, "MANIFEST.json")))
checks = [c["property_id"] for c in man["checks"]]
st = subprocess.run("git -C /repo status --porcelain --untracked-files=no", shell=True, stdout=subprocess.PIPE, text=True).stdout.strip()
if st:
    raise SystemExit("/repo has local modifications; refusing:\n" + st)
summary = {}
for sid in ids:
    d = os.path.join(V, "seeded", sid)
    patch = os.path.join(d, "patch.diff")
    if not os.path.exists(patch):
        continue
    meta = json.load(open(os.path.join(d, "meta.json")))
    rc = subprocess.run("git -C /repo apply %s" % patch, shell=True).returncode
    if rc != 0:
        print(sid, "PATCH DOES NOT APPLY"); continue
    fired = {}
    try:
        for c in checks:
            p = subprocess.run([os.path.join(V, "check"), c], cwd=V, stdout=subprocess.PIPE, stderr=subprocess.STDOUT, text=True,
                               env=dict(os.environ, HALO_NO_EVIDENCE="1"))
            if p.returncode == 1:
                fired[c] = [l.strip() for l in p.stdout.splitlines() if l.startswith("  rule ") or l.startswith("  at ")][:6]
            elif p.returncode != 0:
                fired[c] = ["exit %d: %s" % (p.returncode, p.stdout[-300:])]
    finally:
        subprocess.run("git -C /repo checkout -- .", shell=True)
    meta["detected_by"] = sorted(fired)
    meta["detection_detail"] = fired
    json.dump(meta, open(os.path.join(d, "meta.json"), "w"), indent=1)
    own = meta["property"] in fired
    summary[sid] = (own, sorted(fired))
    print("%-10s own-property(%s) %s   fired: %s" % (sid, meta["property"], "DETECTED" if own else ("missed" if meta["property"] in checks else "n/a-yet"), sorted(fired)))
