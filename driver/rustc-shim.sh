#!/bin/sh
# Forwards to the nightly rustc but hides the "-nightly" channel suffix from
# version probes: the locked proc-macro2 1.0.47 / ahash 0.7.6 build scripts
# sniff it and switch on feature gates that no longer exist.
REAL="${HALO_REAL_RUSTC:-rustc}"
for a in "$@"; do
  case "$a" in
    -vV|--version|-V)
      "$REAL" "$@" | sed -e 's/-nightly//g'
      exit $?
      ;;
  esac
done
exec "$REAL" "$@"
