"""Per-property MANIFEST texts (level claimed, trusted base, technique)."""
PENDING = "not yet decided by this framework (rule module not built yet); no static verdict is claimed"
NOTES = ("Static analysis only: every verdict is computed from the MIR of /repo's current working tree (no contract code is run). "
         "Each check lists its rule instances in evidence/<id>.json; DESIGN.md §5 says which clauses of each property are decided and which are not.")
BASE_NOTE = ("Trusted: rustc's MIR for the analysed build (dev profile, mir-opt-level 0), the fact extractor in driver/, the axioms on external crates "
             "(bigint, cosmwasm-std, cw-storage-plus, cw20; versions printed in the evidence) and the chain's atomic revert of failed executions.")
TEXTS = {
 "C14": {
  "level": "Decides, for all callers / message contents / histories at once, that every path to an effect (storage write, message) or success exit of each privileged "
           "handler passes the pass-edge of the caller check (owner / factory / LP token / self), that the failing edge only errs, that CONFIG owner is written only as "
           "canonicalize(new owner) or at instantiation, that every storage write site is privileged and that handlers are reachable only from their dispatch arm. "
           "Universally quantified CFG facts, not sampled executions.",
  "note": BASE_NOTE + " 'A rejected call changes no balance' relies on platform revert.",
  "technique": "MIR dispatch-table + edge-dominance of guard pass-edges over effect sites, provenance of compared operands",
  "engine": "E-STRUCT"},
 "C09": {
  "level": "Decides for all declared amounts x attached funds at once: the decision table of the native-funds check (Ok only in the regions cw20 / coin found and "
           "amounts equal / no coin and amount zero; the search runs over exactly info.funds with predicate coin.denom == asset.denom), that the provide handler applies "
           "it to every declared asset (loop without adaptors or both indices) and the swap handler to the named offer asset, with the transaction's own MessageInfo, "
           "error propagated, and that the successful check dominates every effect, every effectful workspace call and every success exit.",
  "note": BASE_NOTE + " The bank module crediting attached funds before execution is platform semantics.",
  "technique": "MIR control-region decision table + must-pass-through (edge dominance) + argument provenance",
  "engine": "E-STRUCT"},
 "C02": {
  "level": "Decides for every combination of (asset delivered) x (asset named) x (amount named) x (funds) at once: on the cw20 hook path the swap handler is reachable only "
           "through the pass-edges of amount == cw20 amount, caller-is-a-pool-token and named-asset == Token{caller}; the direct path only for a native offer; the native-funds "
           "check precedes pricing; exactly one payout is built (skipped only for an empty return), with asset = a pool's info, amount = component .0 of the pricing result, recipient = to or the trader, "
           "and the reported attributes flow from the same values; the trader/recipient arguments originate from info.sender / the cw20 envelope / the message's `to` only. "
           "Supporting lemmas on AssetInfo::equal, is_native_token and the transfer constructor are re-derived from their MIR on every run.",
  "note": BASE_NOTE + " That the cw20 contract really moved `amount` before calling the hook is cw20-base semantics.",
  "technique": "MIR edge-dominance of hook/direct guards over the handler call + identity-flow provenance of payout, attributes and handler arguments",
  "engine": "E-STRUCT"},
 "C07": {
  "level": "Decides over all production code: the complete inventory of message constructions (aggregates and any call producing a message-typed value) contains only the "
           "allowed kinds; every Wasm::Execute matches an allowed (target, payload, funds) template; Mint/Burn only in provide/withdraw to the LP token; the single TransferFrom "
           "has owner = transaction sender and recipient = the pair; router hops spend exactly the router's own queried balance; every payout goes through the transfer "
           "constructor (re-verified) with recipient from to/receiver/sender. This rules out third-party debits for every bystander and allowance at once.",
  "note": BASE_NOTE + " Conservation inside the bank module / cw20-base is trusted.",
  "technique": "whole-program message-site inventory over MIR + identity-flow provenance of each field",
  "engine": "E-STRUCT"},
 "C11": {
  "level": "Decides for all routes, minimums and recipients: with minimum_receive given exactly one AssertMinimumReceive self-message is pushed after the complete hop list on "
           "every success path; its fields originate from (last hop's ask asset, recipient's balance sampled in this call, the parameter, the hops' recipient); dispatch wires "
           "the two same-typed amounts into the right roles; the assertion is `balance - prev (aborting) < minimum => Err` strictly; the router attaches no reply-carrying "
           "sub-message; both entry points forward minimum/to/sender unchanged.",
  "note": BASE_NOTE + " Atomic revert of the transaction on a failing message is platform semantics.",
  "technique": "MIR push-order / must-pass-through analysis of the message list + provenance of assertion fields + guard normalisation",
  "engine": "E-STRUCT"},
 "C13": {
  "level": "Decides the structural clauses: each hop offers the router's entire queried balance; the recipient is attached exactly when a counter (0, +1 per hop before the test) "
           "equals operations.len() over the unadapted route; pairs pay `to` or else the swap sender; empty routes and routes with != 1 dangling output are rejected before any "
           "message is built (validator loop: remove(offer) then insert(ask) per operation, exit test len != 1); hook Swap and execute Swap are wire-compatible. "
           "'Exactly the quoted amount' is NOT decided (equality of two runtime computations); it follows on paper from these clauses plus C12.",
  "note": BASE_NOTE,
  "technique": "closure/upvar counter discipline and loop-shape analysis on MIR, guard dominance, enum shape comparison",
  "engine": "E-STRUCT"},
 "C16": {
  "level": "Decides: every PAIRS access is keyed by the registry key function over [to_raw(a0), to_raw(a1)] (to_raw re-verified to preserve identity) or by TMP.pair_key written from it; "
           "the key is symmetric (both assets sorted by a total order on (bytes, kind)) and injective (kind tags with a verified two-valued tag function, length-prefixed first identifier; "
           "every component taken from the sorted copy); same-asset and already-registered guards make creation fail; decimals are queried per asset (native: factory allow-list, "
           "cw20: TokenInfo) with failure => Err and flow unchanged into TMP and the pair's InstantiateMsg; the reply registers (key, assets, decimals) from TMP and "
           "(LP token, requirements, commission) from the self-description queried at the reply address; commission_rate > 1 is rejected.",
  "note": BASE_NOTE + " addr_canonicalize injective; identifiers < 2^32 bytes.",
  "technique": "component-wise encoding analysis of the key function on MIR (fixed/variable width, length-prefix rule) + provenance of registry records",
  "engine": "E-STRUCT"},
 "C17": {
  "level": "Decides for any number of pairs: the decimals handler's loop iterates a collection that originates (through helpers) from an unbounded, unfiltered PAIRS scan; "
           "the page-limited reader is reachable only from the Pairs query; inside the loop the record/message for position i are produced exactly under "
           "`asset_infos[i] is native and its denom == denom` (any extra condition is reported), carry [i: new, 1-i: stored], go to that record's contract; the allow-list entry is "
           "written under the key the denom query reads on every success path; the pair applies the array exactly when one of its native denoms matches and preserves the rest.",
  "note": BASE_NOTE + " 'Never diverge over any history' additionally rests on C16.R5/R6, C14.R6 and atomic message delivery (paper induction).",
  "technique": "iterator-chain / helper-summary analysis for loop bounds + control-region comparison of update sites on MIR",
  "engine": "E-STRUCT"},
 "C19": {
  "level": "Decides: the page is range(start, None, Ascending) -> take(n) -> map -> collect with n = min(limit.unwrap_or(10), 30) (constants evaluated by the compiler); "
           "the cursor is the registry key function applied to the cursor's assets plus a constant suffix, mapped through an exclusive (or inclusive-with-suffix) raw bound; "
           "the query forwards start_after (element-wise to_raw) and limit unchanged. Together with C16's injective, order-independent key this gives a duplicate-free, "
           "complete walk for any page size; the corner of keys extending a cursor key by 0x00/0x01 bytes is an explicit assumption.",
  "note": BASE_NOTE + " cw-storage-plus range/bound semantics.",
  "technique": "iterator-chain shape + provenance of clamp and cursor on MIR, compiler-evaluated constants",
  "engine": "E-STRUCT"},
 "C08": {
  "level": "Decides what the repository owns of this property: each of the 21 Uint256/Decimal256 operators' MIR bodies is interpreted over axiomatised aborting U256 primitives into an exact "
           "rational term with floor atoms and must EQUAL the reference (single rounding of the ideal result) on every path, including the zero-operand shortcuts (checked under "
           "the path's is_zero facts); explicit aborts must be exactly the allowed ones (zero divisor, negative difference) and must not be missing on any returning path; no "
           "wrapping/overflowing/saturating/truncating call or narrowing cast outside split_u128; comparisons are the derived ones; width conversions are guarded by both upper limbs "
           "and agree on limb order. For all 256-bit operands at once (symbolic), not sampled.",
  "note": BASE_NOTE + " Multi-limb carries and products near 2^256 inside bigint::U256 are NOT analysed (external crate, axiomatised).",
  "technique": "abstract interpretation of MIR into rational terms with hash-consed floor atoms; term equality against reference summaries; abort-site classification",
  "engine": "E-ROUND + E-STRUCT"},
 "C01": {
  "level": "Function level (all 128-bit inputs, all rates in [0,1]): the pricing function's MIR is interpreted into an exact term with one floor atom per truncation and the obligation "
           "gross <= ask*offer/(offer_reserve+offer) is decided by vertex enumeration + coefficient signs; net = gross - floor(rate*gross) by aborting subtraction. System level (structure): "
           "the swap handler prices on (balance_offer - offer [aborting], balance_ask, offer, stored rate) read in the same call, offer/ask chosen per branch by the verified equal(); unknown assets err; "
           "delivery is bound to the named asset (C02). On the pinned tree N1 FAILS by exactly 10^-18 at the from_ratio truncation: a genuine defect kept as known finding KF1 (a pinned test asserts the defective value).",
  "note": BASE_NOTE + " Paper step: n <= y*a/(x+a) => product non-decreasing and n < y for x >= 1.",
  "technique": "abstract interpretation of MIR into rational terms with floor atoms; vertex/coefficient-sign decision; per-branch provenance of pricing arguments",
  "engine": "E-ROUND + E-STRUCT"},
 "C03": {
  "level": "A history property: static analysis decides only the per-operation lemmas the (paper) induction needs — swap does not lower the product (C01), mint <= d_i*S/r_i (C05.N1), refund <= r_i*a/S and "
           "exactly a burned (C04), Mint/Burn discipline (C07.R2, C05.R6/R7), delivery bound to pricing (C02.R1-R5). The interleaving quantifier itself is not explored. Inherits KF1 through L1.",
  "note": BASE_NOTE + " The induction over histories is written in DESIGN.md §5 C03 and is not mechanised.",
  "technique": "composition of E-ROUND one-sided bounds and E-STRUCT supply-discipline rules (per-operation lemmas of an invariant)",
  "engine": "E-ROUND + E-STRUCT"},
 "C04": {
  "level": "For all reserves, supplies and burn amounts: the refund term extracted from the withdraw handler's MIR (closure over pools) satisfies x <= r*a/S and x >= r*a/S - r/10^18 - 1; "
           "r, S, a originate from the pair's balances / LP TokenInfo / the cw20 envelope; exactly one Burn of the hook amount to the LP token on every success path; both refunds go to the holder "
           "through the (re-verified) plain-transfer constructor; handler reachable only behind the LP-token guard.",
  "note": BASE_NOTE + " cw20-base debiting exactly `a` is trusted.",
  "technique": "E-ROUND two-sided bound on the refund term + provenance / message inventory on MIR",
  "engine": "E-ROUND + E-STRUCT"},
 "C05": {
  "level": "For all deposits/reserves/supplies: each min() argument is floor(d_i*S/r_i) of its OWN reserve (index pairing checked) with d*S/r - 1 <= m_i <= d*S/r; first provision = isqrt(d0*d1) under "
           "overflow-checked multiplication, gated exactly by whitelist and both minimums (decision table); zero share rejected before any mint; per pool asset exactly TransferFrom(deposits[i]) or an aborting "
           "reserve adjustment by deposits[i] of the same loop iteration; deposits[i] = declared amount of the asset equal to pools[i]; reserved unit minted to the LP token address and subtracted; mint recipient/amount provenance.",
  "note": BASE_NOTE + " 'An address equal to the LP token can never spend' is cw20-base semantics.",
  "technique": "E-ROUND bounds per min-argument, decision-table extraction, enumerate-index correlation and provenance on MIR",
  "engine": "E-ROUND + E-STRUCT"},
 "C06": {
  "level": "For all 128-bit inputs and rates: g(1-c) - 1 <= n <= g(1-c) + 1 (noise intervals refined to [0, 1-1/q] for constant denominators), commission = floor(c*(n+commission)) and "
           "n + commission + spread = floor(a*y/x) as TERM IDENTITIES (hash-consed floor atoms incl. the nested-floor rewrite), monotonicity of n in the offer by structural typing. All hold on the pinned tree: "
           "KF1's 10^-18 excess is absorbed by this property's one-unit slack.",
  "note": BASE_NOTE + " Strictness of the bounds is the paper step of DESIGN §7.3.",
  "technique": "E-ROUND obligations + term identity + monotonicity typing over the pricing function's MIR",
  "engine": "E-ROUND"},
 "C10": {
  "level": "Wiring (guard passed before payout; belief/max_spread/offer/return/spread/decimals arguments in the right roles per selection branch), dimension analysis of the three normalisation branches "
           "(equal decimal exponent of offer', return', spread'), guard shape by term equality with the reference (E = floor(O'D/p), ratios), and the soundness/completeness obligations N1-N4 with recorded certificates.",
  "note": BASE_NOTE + " N1/N2 under the statement's binding conditions (offer/p >= 1, s <= 1 - 10^-18).",
  "technique": "unit (exponent) analysis + E-ROUND guard obligations with substitution certificates on MIR terms",
  "engine": "E-ROUND + E-STRUCT"},
 "C12": {
  "level": "Sibling agreement: the Simulation query and the swap handler call the same pricing function on corresponding arguments per branch (reserve selection, amount, the same rate item, response mapping); "
           "rate items written only at instantiation from one field; reverse quote <= closed form and >= closed form with the denominator perturbed by its two inner truncations (E-ROUND with certificate); "
           "reverse wiring; router forward / reverse folds are exactly the hop-by-hop composition (order, pair lookup, queried asset, running amount, result).",
  "note": BASE_NOTE + " 'Its rounding bound' is read as stated in C12.N2; a query and the next swap see the same state by the statement's premise.",
  "technique": "sibling cross-check by provenance + E-ROUND bounds on the reverse formula + loop-carried accumulator analysis",
  "engine": "E-ROUND + E-STRUCT"},
 "C15": {
  "level": "Wiring (guard with the caller's tolerance, declared deposits, adjusted reserves; propagated; before mints), t > 1 rejected first, guard selected by the caller's Option itself, "
           "two strict ratio comparisons covering both directions, and soundness (2*10^-18) / completeness (10^-18) obligations for all deposits, reserves and tolerances via certificates.",
  "note": BASE_NOTE,
  "technique": "decision-table extraction + E-ROUND guard obligations with substitution certificates",
  "engine": "E-ROUND + E-STRUCT"},
 "C18": {
  "level": "Decides only necessary conditions: renderer and parser agree on scale (pad width = max digits = log10 of the constant = 18), radix, separator, pad/trim character and use / % * of the same constant; "
           "serde writers emit to_string() and visitors accept exactly what the direct parsers accept (decision table, no extra condition); width conversions guarded with agreeing limb order; "
           "Decimal<->Decimal256 via to_string/from_str. parse(render(v)) == v itself is NOT decided.",
  "note": BASE_NOTE + " bigint Display / from_dec_str being radix-10 inverses and cosmwasm Decimal's 18 places are trusted.",
  "technique": "writer/reader table agreement extracted from MIR constants and call structure",
  "engine": "E-STRUCT + E-TYPE"},
 "C20": {
  "level": "Abort-site closure of the withdraw path (Receive arm, handler, transfer constructor and their helpers): every fallible site is in an allowed category; every numeric abort condition collected "
           "by E-ROUND is discharged under 1 <= a <= S (zero divisor only S; products bounded by a 128-bit input or 10^18; 256-bit width bound); the path reads only PAIR_INFO and no block data; "
           "x >= 1 under the entitlement precondition. Any new fallible operation on the path is reported.",
  "note": BASE_NOTE + " Behaviour of bank / cw20 on the resulting messages is trusted.",
  "technique": "abort-site enumeration over MIR + E-ROUND discharge of abort conditions",
  "engine": "E-ROUND + E-STRUCT"},
}
