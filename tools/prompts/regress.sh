#!/bin/bash
# usage: regress.sh LANE NLANES  -> lane's share of all three corpora with HALO_CHECKS, from the /verif snapshot
L=$1; N=$2
W=/tmp/wt/R$L
[ -d $W ] || git -C /repo worktree add --detach $W HEAD -q
cd /tmp/wt/VSNAP
export HALO_REPO=$W HALO_CACHE=/verif/.cache-mut-R$L HALO_CHECKS=${CHECKS:-C07,C08,C09,C10,C15}
pick() { ls $1 | awk -v l=$L -v n=$N 'NR%n==l%n' ; }
python3 tools/run_seeded.py $(pick seeded) > /tmp/wt/reg.seeded.$L.log 2>&1
python3 tools/harvest_refactors.py $(pick refactors) > /tmp/wt/reg.refactors.$L.log 2>&1
python3 tools/harvest_benign.py $(pick benign) > /tmp/wt/reg.benign.$L.log 2>&1
echo done > /tmp/wt/reg.done.$L
