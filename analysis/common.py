"""Shared rule primitives (DESIGN §2.1 P1-P9) on top of mir.Program."""
import re
from .mir import generic_path, callee_of, phi, proj, walk, show, short_path

# ---------------------------------------------------------------------------------------
# callee classification

_TRANSPARENT_LAST = {
    # name of last path segment -> index of the argument that flows through (identity)
    "clone": 0, "to_string": 0, "to_owned": 0, "into": 0, "from": 0, "as_str": 0, "as_ref": 0,
    "deref": 0, "deref_mut": 0, "borrow": 0, "as_slice": 0, "as_bytes": 0, "to_vec": 0, "into_string": 0,
    "unchecked": 0, "u128": 0, "new": 0, "unwrap": 0, "expect": 0, "must_use": 0, "into_iter": 0,
    "iter": 0, "iter_mut": 0, "as_mut": 0, "cloned": 0, "copied": 0, "into_boxed_slice": 0, "into_vec": 0,
    "as_mut_slice": 0, "map_err": 0, "ok_or": 0, "ok_or_else": 0, "each_ref": 0, "each_mut": 0,
    # Response builder steps that add no message: the response (and its message list) flows through
    "add_attribute": 0, "add_attributes": 0, "add_event": 0, "add_events": 0, "set_data": 0,
}
# `new` is transparent only for these single-field wrappers
_NEW_OK = re.compile(r"(cosmwasm_std::\S*Uint128|cosmwasm_std::\S*Addr|alloc::boxed::Box|std::boxed::Box)")
_FROM_OK = re.compile(
    r"^<(cosmwasm_std::\S*(Uint128|Addr|Binary|CanonicalAddr|CosmosMsg\S*|SubMsg\S*)|alloc::string::String|std::string::String|"
    r"bignumber::math::Uint256|bigint::\S*U256|u128|u64|usize|haloswap::error::ContractError|cosmwasm_std::\S*StdError|T|alloc::vec::Vec<\S+>|std::vec::Vec<\S+>)"
    r" as (core|std)::convert::(From|Into)(<.*>)?>::(from|into)$")


def last_seg(path):
    p = generic_path(path)
    return p.rsplit("::", 1)[-1]


def is_try_branch(callee):
    return isinstance(callee, str) and generic_path(callee).endswith("::Try>::branch")


def is_from_residual(callee):
    return isinstance(callee, str) and "FromResidual" in callee and callee.endswith("::from_residual")


def transparent_arg(callee):
    """Index of the argument whose value flows unchanged through `callee`, or None."""
    if not isinstance(callee, str):
        return None
    g = generic_path(callee)
    name = g.rsplit("::", 1)[-1]
    if name not in _TRANSPARENT_LAST:
        return None
    if name == "new":
        return 0 if _NEW_OK.search(g) else None
    if name in ("from", "into"):
        # conversions between wrapper types of the same value
        if "convert::From" in g or "convert::Into" in g:
            return 0
        return None
    if name in ("unwrap", "expect"):
        if re.search(r"(option::Option|result::Result)", g):
            return 0
        return None
    if name in ("map_err", "ok_or", "ok_or_else"):
        return 0 if re.search(r"(option::Option|result::Result)", g) else None
    if name == "unchecked":
        return 0 if "Addr" in g else None
    if name == "u128":
        return 0 if "Uint128" in g else None
    if name in ("add_attribute", "add_attributes", "add_event", "add_events", "set_data"):
        return 0 if re.search(r"cosmwasm_std::\S*Response", g) else None
    if name in ("each_ref", "each_mut"):
        return 0 if re.search(r"array::(<impl \[T; N\]>::)?each_(ref|mut)$", g) else None        # [T; N] -> [&T; N]: the same elements
    return _TRANSPARENT_LAST[name]


_WRAPPER_VARIANTS = {"Some", "Ok", "Continue"}


def _strip_wrapper(path):
    """Remove a leading (as Some|Ok|Continue).0 from a pending projection path."""
    while len(path) >= 1 and path[0][0] == "v" and path[0][1] in _WRAPPER_VARIANTS:
        path = path[1:]
        if path and path[0] == ("f", 0):
            path = path[1:]
        elif path and path[0][0] == "f" and str(path[0][1]) == "0":
            path = path[1:]
    return path


def path_str(path):
    s = ""
    for e in path:
        if e[0] == "f":
            s += ".%s" % (e[1],)
        elif e[0] == "i":
            s += "[%s]" % (e[1],)
        elif e[0] == "ix":
            s += "[*]"
        elif e[0] == "v":
            s += "~%s" % e[1]
        else:
            s += ".<%s>" % e[0]
    return s


# callees whose result is reported as label(roots(arg)) instead of an opaque call root
WRAPPERS = [
    (re.compile(r"cosmwasm_std::\S*Api::addr_canonicalize$"), "canon", 1),
    (re.compile(r"cosmwasm_std::\S*Api::addr_humanize$"), "human", 1),
    (re.compile(r"cosmwasm_std::\S*Api::addr_validate$"), "valid", 1),
    (re.compile(r"cw_storage_plus::(item::)?Item::(load|may_load)$"), "load", 0),
    (re.compile(r"cosmwasm_std::(\S*::)?to_binary$"), "bin", 0),
]


_CTX_MEMO = {}


def _is_stored_record_type(P, ty):
    """ty is the value type of a storage Item of one of the contracts (`Item<PairInfoRaw>`, `Item<Config>`)."""
    idx = getattr(P, "_stored_types", None)
    if idx is None:
        idx = set()
        for c in P.consts.values():
            m = re.match(r"^cw_storage_plus::(?:item::)?Item<(?:'\w+, )?(.*)>$", c.get("ty", ""))
            if m and c["path"].startswith(("halo_pair::", "halo_factory::", "halo_router::")) and "::tests::" not in c["path"]:
                idx.add(m.group(1))
        P._stored_types = idx
    return ty in idx


def context_param_args(P, fn, i):
    """Parameter i of workspace function fn has a struct type defined in one of the contract crates (a context / bundle
    object such as `QueryCtx { deps, config }` or the stored `Config` handed down by reference) and fn is only called from
    production code that we see: the argument values at all its production call sites, else None.  Such a parameter has no
    identity of its own — it is whatever its callers built."""
    key = (id(P), fn.path, i)
    if key in _CTX_MEMO:
        return _CTX_MEMO[key]
    _CTX_MEMO[key] = None
    res = None
    if fn.body is not None and fn.kind in ("fn", "assoc_fn") and i < fn.body.arg_count and "::tests::" not in fn.path:
        ty = strip_ty(fn.body.locals[i + 1]["ty"])
        a = P.adts.get(ty) or P.adts.get(re.sub(r"<.*$", "", ty))
        # a *context* bundle carries a piece of the execution environment (deps / env / info / querier / storage); a bundle of
        # message fields (`SwapOptions { belief_price, max_spread, to }`) differs per call site and keeps its own identity
        is_ctx = a is not None and a["kind"] == "struct" and a["path"].startswith(("halo_pair::", "halo_factory::", "halo_router::")) and \
            any(re.search(r"cosmwasm_std::(\S*::)?(Deps|DepsMut|Env|MessageInfo|QuerierWrapper)\b|dyn cosmwasm_std::(\S*::)?(Storage|Api)", f_["ty"]) for f_ in a["variants"][0]["fields"])
        # a stored record handed down by reference (`withdraw_liquidity(.., pair_info: &PairInfoRaw)`, loaded by the single
        # caller): a free function with exactly one production call site, not a role function the rules anchor on
        is_rec = (not is_ctx and a is not None and a["kind"] == "struct" and fn.kind == "fn" and fn.path not in getattr(P, "_role_fns", set()) and
                  fn.crate in ("halo_pair", "halo_factory", "halo_router") and
                  fn.body.locals[i + 1]["ty"].startswith("&") and _is_stored_record_type(P, a["path"]))
        if is_ctx or is_rec:
            sites = [(c, cb) for c, cb in P.callers(fn.path) if "::tests::" not in c.path and c.body is not None and c.path != fn.path]
            if 1 <= len(sites) <= (6 if is_ctx else 1):
                vals = []
                for c, cb in sites:
                    cv = P.val_call(c, c.body, cb)
                    if i < len(cv[4]):
                        vals.append(cv[4][i])
                if len(vals) == len(sites):
                    res = vals
    _CTX_MEMO[key] = res
    return res


class Roots:
    """Identity-flow roots of a value (DESIGN P5).  Each root is a string:
       P:<fn>#<i><path>   parameter          C:<callee>@<fn>:bb<k><path>   call result
       K:<const>          constant           I:<item path><path>          const/static item
       A:<name><path>     aggregate          X:<op>                        computed (derived) value
       M:<fn>:bb<k>:<i>   possibly mutated through that &mut borrow
       Y:<local>          loop-carried       U:<why>                       unknown"""

    def __init__(self, P, follow_closure_env=True, extra_transparent=None):
        self.P = P
        self.extra = extra_transparent or (lambda callee: None)
        self.memo = {}
        self.agg_fields = True

    def roots(self, v, path=()):
        key = (v, path)
        r = self.memo.get(key)
        if r is not None:
            return r
        self.memo[key] = frozenset()
        r = frozenset(self._roots(v, path))
        self.memo[key] = r
        return r

    def simple_inline(self, v):
        """Workspace constructor-like functions (single block, no calls, returns an aggregate of its parameters): substitute."""
        callee = v[3]
        f = self.P.fn(callee) or self.P.fn(generic_path(callee))
        if f is None or f.body is None or f.derived or f.kind not in ("fn", "assoc_fn"):
            return None
        key = ("simple", f.path)
        info = self.memo.get(key)
        if info is None:
            ok = f.body.arg_count >= 1 and all(blk["term"]["k"] in ("return", "goto", "drop") for blk in f.body.blocks if not blk["cleanup"])
            ret = None
            if ok:
                ex = exit_sites(self.P, f)
                if len(ex) == 1 and ex[0][3][0] == "agg":
                    ret = ex[0][3]
            info = (ret,)
            self.memo[key] = info
        if info[0] is None:
            return None
        mapping = {("param", f.path, i): a for i, a in enumerate(v[4])}
        return subst_params(info[0], mapping)

    def helper_inline(self, v):
        """Private, effect-free, loop-free workspace helper: its (non-error) return value with parameters substituted."""
        return inline_call(self.P, v)

    def with_params(self, fn_path, args):
        """A Roots view in which the parameters of `fn_path` are the given argument values of one call site (a helper
        analysed in its caller's context)."""
        r = Roots(self.P)
        r.capture_override = dict(getattr(self, "capture_override", {}))
        r.param_override = dict(getattr(self, "param_override", {}))
        for i, a in enumerate(args):
            r.param_override[(fn_path, i)] = (self, a)
        return r

    def with_captures(self, cv):
        """A Roots view in which the upvars of closure value `cv` are its own (possibly substituted) capture operands."""
        r = Roots(self.P)
        r.capture_override = dict(getattr(self, "capture_override", {}))
        r.param_override = dict(getattr(self, "param_override", {}))
        r.capture_override[cv[2]] = {i: x for i, x in cv[3]}
        return r

    def closure_return_roots(self, cv):
        """Roots of the value returned by a closure aggregate value (all exits)."""
        if cv[0] != "agg" or cv[1] != "closure":
            return None
        cf = self.P.fn(cv[2])
        if cf is None or cf.body is None:
            return None
        out = set()
        R2 = self.with_captures(cv)
        for (b, i, cls, v) in exit_sites(self.P, cf):
            out |= R2.roots(v)
        return out

    def _roots(self, v, path):
        k = v[0]
        out = set()
        if k == "phi":
            for x in v[1]:
                out |= self.roots(x, path)
            return out
        if k == "proj":
            return self.roots(v[1], (v[2],) + path)
        if k == "param":
            po = getattr(self, "param_override", None)
            if po and (v[1], v[2]) in po:
                outer, av = po[(v[1], v[2])]
                return outer.roots(av, path)
            gpo = getattr(self.P, "_param_overrides", None)
            if gpo and v[1] in gpo and v[2] < len(gpo[v[1]]):
                return self.roots(gpo[v[1]][v[2]], path)        # a thin per-variant handler: its parameter is the dispatcher's argument
            fn = self.P.fn(v[1])
            if fn is not None and fn.body is not None and isinstance(v[2], int) and v[2] >= fn.body.arg_count:
                for (i_, k_, nm_, t_) in self.P.bundle_layout(fn):
                    if i_ == v[2]:
                        return self.roots(proj(("param", v[1], k_), ("f", nm_)), path)      # synthetic parameter = field of the struct parameter
            cs_args = context_param_args(self.P, fn, v[2]) if fn is not None else None
            if cs_args:
                # a parameter of a contract-local bundle type (`ctx: &QueryCtx`, `cfg: &Config`): what its call sites pass
                out_ = set()
                for av in cs_args:
                    out_ |= self.roots(av, path)
                return out_
            path = _strip_wrapper(path)
            if fn is not None and fn.kind == "closure" and v[2] == 0 and path and path[0][0] == "f" and isinstance(path[0][1], int):
                ov = getattr(self, "capture_override", {}).get(fn.path)
                if ov is not None and path[0][1] in ov:
                    return self.roots(ov[path[0][1]], path[1:])
                site = self.P.closure_site(fn.path)
                if site is not None:
                    pf, b, i, rv = site
                    ops = rv["ops"]
                    if path[0][1] < len(ops):
                        cv = self.P.val_operand(pf, (b, i), ops[path[0][1]], pf.body)
                        return self.roots(cv, path[1:])
            return {"P:%s#%d%s" % (v[1], v[2], path_str(path))}
        if k == "const":
            if v[1] == "item":
                return {"I:%s%s" % (v[2], path_str(path))}
            return {"K:%s" % (v[2],)}
        if k == "call":
            callee = v[3]
            if is_try_branch(callee):
                return self.roots(v[4][0], path)
            ti = transparent_arg(callee)
            if ti is not None and isinstance(callee, str) and last_seg(callee) == "from":
                # a conversion that lands in a workspace impl building its target field by field
                # (`impl From<(Uint128, Uint128, Uint128)> for SimulationResponse`) is that constructor, not a re-wrapping
                cf_ = self.P.fn(callee)
                if cf_ is not None and cf_.body is not None and _plain_constructor(self.P, cf_):
                    hv = inline_call(self.P, v)
                    if hv is not None:
                        return self.roots(hv, path)
            if ti is None:
                ti = self.extra(callee)
            if ti is not None and ti < len(v[4]):
                if isinstance(callee, str) and last_seg(callee) in ("unwrap", "expect") and ti == 0:
                    return self.roots(v[4][0], (("v", "Ok"), ("f", 0)) + tuple(path))
                return self.roots(v[4][ti], path)
            cs = generic_path(callee) if isinstance(callee, str) else "dyn"
            sv = self.simple_inline(v)
            if sv is not None:
                return self.roots(sv, path)
            hv = self.helper_inline(v)
            if hv is not None:
                return self.roots(hv, path)
            if cs.endswith("option::Option::map") and len(v[4]) == 2 and v[4][1][0] == "agg" and v[4][1][1] == "closure":
                # opt.map(f)  ==  match opt { None => None, Some(x) => Some(f(x)) }
                cf = self.P.fn(v[4][1][2])
                if cf is not None and cf.body is not None:
                    ex = [x for x in exit_sites(self.P, cf) if x[2] != "err"]     # `?` inside the closure: errors leave through transpose()?
                    if len(ex) == 1:
                        payload = proj(proj(v[4][0], ("v", "Some")), ("f", 0))
                        rv = subst_params(ex[0][3], {("param", cf.path, 1): payload})
                        some = ("agg", "adt", "std::option::Option::Some", ((0, rv),))
                        none = ("agg", "adt", "std::option::Option::None", ())
                        return self.with_captures(v[4][1]).roots(phi([none, some]), path) if True else set()
            if cs.endswith("option::Option::transpose") and len(v[4]) == 1:
                inner = v[4][0]
                if inner[0] == "call" and isinstance(inner[3], str) and generic_path(inner[3]).endswith("option::Option::map") and len(inner[4]) == 2 \
                        and inner[4][1][0] == "agg" and inner[4][1][1] == "closure":
                    # opt.map(|x| -> Result<..> { Ok(f(x)) }).transpose()  ==  Ok(match opt { None => None, Some(x) => Some(f(x)) })
                    cf = self.P.fn(inner[4][1][2])
                    ex = [x for x in exit_sites(self.P, cf) if x[2] != "err"] if cf is not None and cf.body is not None else []
                    if len(ex) == 1 and ex[0][3][0] == "agg" and str(ex[0][3][2]).endswith("Result::Ok"):
                        payload = proj(proj(inner[4][0], ("v", "Some")), ("f", 0))
                        rv = subst_params(ex[0][3][3][0][1], {("param", cf.path, 1): payload})
                        some = ("agg", "adt", "std::option::Option::Some", ((0, rv),))
                        none = ("agg", "adt", "std::option::Option::None", ())
                        okv = ("agg", "adt", "std::result::Result::Ok", ((0, phi([none, some])),))
                        return self.with_captures(inner[4][1]).roots(okv, path)
                return self.roots(v[4][0], path)
            if re.search(r"(core|std)::bool::(<impl bool>::)?then(_some)?$", cs) and len(v[4]) == 2:
                # cond.then(|| x) / cond.then_some(x)  ==  if cond { Some(x) } else { None }
                none = ("agg", "adt", "std::option::Option::None", ())
                if cs.endswith("then_some"):
                    return self.roots(phi([none, ("agg", "adt", "std::option::Option::Some", ((0, v[4][1]),))]), path)
                if v[4][1][0] == "agg" and v[4][1][1] == "closure":
                    cf = self.P.fn(v[4][1][2])
                    ex = [x for x in exit_sites(self.P, cf)] if cf is not None and cf.body is not None else []
                    if len(ex) == 1:
                        some = ("agg", "adt", "std::option::Option::Some", ((0, ex[0][3]),))
                        return self.with_captures(v[4][1]).roots(phi([none, some]), path)
            if re.search(r"option::Option(::<[^>]*>)?::map_or(_else)?$", cs) and len(v[4]) == 3 and v[4][2][0] == "const" and v[4][2][1] == "fn":
                # opt.map_or_else(|| d, Addr::unchecked): the mapping function given by name
                payload = proj(proj(v[4][0], ("v", "Some")), ("f", 0))
                some_r = self.roots(("call", v[1], v[2], v[4][2][2], (payload,)), ())
                dflt = v[4][1]
                if cs.endswith("map_or_else"):
                    d_r = {"C:%s@%s:bb%d" % (generic_path(dflt[2]), v[1], v[2])} if (dflt[0] == "const" and dflt[1] == "fn") else self.closure_return_roots(dflt)
                else:
                    d_r = self.roots(dflt)
                if d_r is not None:
                    return {"or(%s;%s)%s" % ("|".join(sorted(some_r)), "|".join(sorted(d_r)), path_str(path))}
            if re.search(r"option::Option(::<[^>]*>)?::map_or(_else)?$", cs) and len(v[4]) == 3 and v[4][2][0] == "agg" and v[4][2][1] == "closure":
                # opt.map_or(d, f) / opt.map_or_else(|| d, f)  ==  match opt { Some(x) => f(x), None => d }
                cf = self.P.fn(v[4][2][2])
                ex = [x for x in exit_sites(self.P, cf)] if cf is not None and cf.body is not None else []
                if len(ex) == 1:
                    payload = proj(proj(v[4][0], ("v", "Some")), ("f", 0))
                    rv = subst_params(ex[0][3], {("param", cf.path, 1): payload})
                    some_r = self.with_captures(v[4][2]).roots(rv, ())
                    dflt = v[4][1]
                    if cs.endswith("map_or_else"):
                        if dflt[0] == "const" and dflt[1] == "fn":
                            d_r = {"C:%s@%s:bb%d" % (generic_path(dflt[2]), v[1], v[2])}
                        else:
                            d_r = self.closure_return_roots(dflt)
                    else:
                        d_r = self.roots(dflt)
                    if d_r is not None:
                        return {"or(%s;%s)%s" % ("|".join(sorted(some_r)), "|".join(sorted(d_r)), path_str(path))}
            if re.search(r"result::Result(::<[^>]*>)?::map$", cs) and len(v[4]) == 2:
                # res.map(f)  ==  match res { Ok(x) => Ok(f(x)), Err(e) => Err(e) }   (the error side is dropped: it propagates)
                fv = v[4][1]
                payload = proj(proj(v[4][0], ("v", "Ok")), ("f", 0))
                if fv[0] == "agg" and fv[1] == "closure":
                    cf = self.P.fn(fv[2])
                    ex = [x for x in exit_sites(self.P, cf)] if cf is not None and cf.body is not None else []
                    if len(ex) == 1:
                        rv = subst_params(ex[0][3], {("param", cf.path, 1): payload})
                        okv = ("agg", "adt", "std::result::Result::Ok", ((0, rv),))
                        return self.with_captures(fv).roots(okv, path)
            if cs.endswith("option::Option::unwrap_or") and len(v[4]) == 2:
                return {"or(%s;%s)%s" % ("|".join(sorted(self.roots(v[4][0], (("v", "Some"), ("f", 0))))),
                                          "|".join(sorted(self.roots(v[4][1]))), path_str(path))}
            if cs.endswith("option::Option::unwrap_or_default") and len(v[4]) == 1:
                return {"or(%s;K:default)%s" % ("|".join(sorted(self.roots(v[4][0], (("v", "Some"), ("f", 0))))), path_str(path))}
            if cs.endswith("option::Option::unwrap_or_else") and len(v[4]) == 2:
                alt = self.closure_return_roots(v[4][1])
                if alt is None and v[4][1][0] == "const" and v[4][1][1] == "fn":
                    # a plain function used as the fallback (e.g. `unwrap_or_else(Uint128::zero)`): its call result
                    alt = {"C:%s@%s:bb%d" % (generic_path(v[4][1][2]), v[1], v[2])}
                if alt is not None:
                    return {"or(%s;%s)%s" % ("|".join(sorted(self.roots(v[4][0], (("v", "Some"), ("f", 0))))),
                                              "|".join(sorted(alt)), path_str(path))}
            if re.search(r"cw_storage_plus::(map::)?Map::(load|may_load)$", cs) and len(v[4]) == 3:
                return {"mload(%s)[%s]%s" % ("|".join(sorted(self.roots(v[4][0]))), "|".join(sorted(self.roots(v[4][2]))), path_str(_strip_wrapper(path)))}
            for rx, label, ai in WRAPPERS:
                if rx.search(cs) and ai < len(v[4]):
                    pp = path_str(_strip_wrapper(path))
                    return {"%s(%s)%s" % (label, r, pp) for r in self.roots(v[4][ai])}
            tf = getattr(self.P, "_triple_fields", None)
            if tf and cs in tf and path and path[0][0] == "f" and path[0][1] in tf[cs]:
                path = (("f", tf[cs].index(path[0][1])),) + tuple(path[1:])      # named triple of the pricing function: by position
            return {"C:%s@%s:bb%d%s" % (cs, v[1], v[2], path_str(_strip_wrapper(path)))}
        if k == "agg":
            p2 = path
            if p2 and p2[0][0] == "f" and v[1] == "adt" and str(v[2]).endswith("option::Option::None") and not v[3]:
                return set()          # a field of `None`: the payload of the Some alternative, which this alternative does not have
            if p2 and p2[0][0] == "v" and p2[0][1] in _WRAPPER_VARIANTS and v[1] == "adt":
                nm = str(v[2])
                compatible = (nm.endswith("result::Result::Ok") and p2[0][1] in ("Ok", "Continue")) or \
                             (nm.endswith("option::Option::Some") and p2[0][1] == "Some") or \
                             (nm.endswith("ops::ControlFlow::Continue") and p2[0][1] == "Continue")
                rest = p2[1:]
                if rest and rest[0][0] == "f" and str(rest[0][1]) == "0":
                    rest = rest[1:]
                if compatible and len(v[3]) == 1:
                    return self.roots(v[3][0][1], rest)
                if nm.endswith("option::Option::None") and p2[0][1] == "Some":
                    return set()      # the payload of a None does not exist
                if re.search(r"option::Option::(Some|None)$", nm) and p2[0][1] in ("Ok", "Continue"):
                    # a transposed Option<Result<..>>: the Result layer is peeled, the Option stays
                    return self.roots(v, rest)
            if p2 and p2[0][0] == "v":
                # downcast to the aggregate's own variant is a no-op
                if str(v[2]).endswith("::" + p2[0][1]):
                    p2 = p2[1:]
            if p2 and p2[0][0] in ("f", "i"):
                for name, fv in v[3]:
                    if name == p2[0][1] or str(name) == str(p2[0][1]):
                        return self.roots(fv, p2[1:])
            if p2 and p2[0][0] == "ix" and v[1] == "array":
                # variable index into an array literal: keep the elements and the index origin
                elems = ";".join("|".join(sorted(self.roots(fv, p2[1:]))) for _, fv in v[3])
                return {"A:array[%s][@%s]" % (elems, "|".join(sorted(self.roots(p2[0][1]))))}
            if not p2 and v[1] == "tuple" and self.agg_fields and v[3]:
                return {"A:tuple(%s)" % ";".join("|".join(sorted(self.roots(fv))) for _, fv in v[3])}
            if not p2 and v[1] == "array" and self.agg_fields:
                return {"A:%s[%s]" % (v[2], ";".join("|".join(sorted(self.roots(fv))) for _, fv in v[3]))}
            if not p2 and v[1] == "adt" and self.agg_fields:
                fs = ",".join("%s=%s" % (n, "|".join(sorted(self.roots(fv)))) for n, fv in v[3])
                return {"A:%s{%s}" % (v[2], fs)}
            return {"A:%s%s" % (v[2], path_str(p2))}
        if k == "upd":
            prev, elems, newv = v[1], v[2], v[3]
            p2 = path
            # walk elems against path
            i = 0
            while i < len(elems) and i < len(p2) and elems[i] == p2[i]:
                i += 1
            if i == len(elems):
                return self.roots(newv, p2[i:])
            if i < len(p2) and i < len(elems) and elems[i][0] == p2[i][0] and elems[i][0] in ("f", "i") and elems[i][1] != p2[i][1]:
                return self.roots(prev, p2)
            if i == len(p2) and len(elems) == i + 1 and elems[i][0] == "ix":
                # whole array read after `a[i] = x` with a variable index: keep which index was written
                return {"X:upd(%s;[@%s];%s)" % ("|".join(sorted(self.roots(prev, p2))), "|".join(sorted(self.roots(elems[i][1]))), "|".join(sorted(self.roots(newv, ()))))}
            # overlapping / unknown index: both
            return self.roots(prev, p2) | self.roots(newv, ()) | {"X:partial-update"}
        if k == "mut":
            return self.roots(v[1], path) | {"M:%s:bb%d:%d" % (v[2], v[3], v[4])}
        if k == "cast":
            if v[1] in ("IntToInt",):
                return {"X:cast(%s)" % "|".join(sorted(self.roots(v[2], path)))}
            return self.roots(v[2], path)
        if k == "binop":
            return {"X:%s(%s;%s)" % (v[1], "|".join(sorted(self.roots(v[2]))), "|".join(sorted(self.roots(v[3]))))}
        if k == "unop":
            return {"X:%s(%s)" % (v[1], "|".join(sorted(self.roots(v[2]))))}
        if k == "discr":
            return {"X:discr(%s)" % "|".join(sorted(self.roots(v[1])))}
        if k == "cycle":
            # reference to a definition site's value: resolve it (least fixpoint: a re-entered query contributes nothing)
            self.cycle_depth = getattr(self, "cycle_depth", 0) + 1
            try:
                if self.cycle_depth > 40 or len(v) < 7:
                    return set()
                f = self.P.fn(v[1])
                if f is None or f.body is None:
                    return set()
                body = f.body
                if v[3]:
                    body = next((pb for pb in f.promoted if pb.tag == v[3]), f.body)
                dv = self.P.val_def(f, body, (v[4], v[5], v[6]), v[2])
                if dv[0] == "cycle":
                    return set()
                return self.roots(dv, path)
            finally:
                self.cycle_depth -= 1
        if k == "uninit":
            return set()
        return {"U:%s" % (v[1] if len(v) > 1 else k)}


# ---------------------------------------------------------------------------------------
# exits

def classify_ret_value(v):
    """'ok' | 'err' | ('forward', callee) | 'other' for a value assigned to _0."""
    k = v[0]
    if k == "agg" and v[1] == "adt":
        if v[2].endswith("result::Result::Ok"):
            return "ok"
        if v[2].endswith("result::Result::Err"):
            return "err"
        return "other"
    if k == "call":
        if is_from_residual(v[3]):
            return "err"
        return ("forward", v[3] if isinstance(v[3], str) else "dyn")
    return "other"


def exit_sites(P, fn):
    """[(bb, idx, class, value)] for every definition of the return place."""
    body = fn.body
    res = []
    for (b, i, kind) in body.defs().get(0, []):
        if kind in ("mutborrow",):
            continue
        v = P.val_def(fn, body, (b, i, kind), 0)
        if kind == "partial":
            cls = "other"
        else:
            cls = classify_ret_value(v)
        res.append((b, i, cls, v))
    return res


def ok_exit_blocks(P, fn):
    """Blocks holding a definition of _0 that may be a success value (Ok / forwarded / plain value)."""
    return [(b, i, cls, v) for (b, i, cls, v) in exit_sites(P, fn) if cls != "err"]


# ---------------------------------------------------------------------------------------
# guards

_CMP_NAMES = {"eq", "ne", "lt", "le", "gt", "ge", "cmp", "is_zero",
              "contains", "is_some", "is_none", "is_empty", "any", "all", "is_ok", "is_err"}
# workspace predicates resolved structurally by names.py: {function path: "equal" | "is_native_token"}
CMP_ALIASES = {}


def cmp_kind(callee):
    if not isinstance(callee, str):
        return None
    if callee in CMP_ALIASES:
        return CMP_ALIASES[callee]
    g = generic_path(callee)
    if g in CMP_ALIASES:
        return CMP_ALIASES[g]
    if g.startswith(("haloswap::", "halo_pair::", "halo_factory::", "halo_router::")):
        return None
    n = last_seg(callee)
    return n if n in _CMP_NAMES else None


def bool_edges(body, b):
    """(true_target, false_target) of a switch on a bool at the end of block b, else None."""
    t = body.blocks[b]["term"]
    if t["k"] != "switch":
        return None
    arms = t["arms"]
    if len(arms) == 1 and arms[0][0] == "0":
        return (t["otherwise"], arms[0][1])
    return None


def switch_cond(P, fn, b):
    """Normalised condition of the switch ending block b:
       ('cmp', kind, args(tuple of values), negated, callsite_bb) | ('discr', value) | ('flag', value) | ('val', value)"""
    body = fn.body
    t = body.blocks[b]["term"]
    if t["k"] != "switch":
        return None
    v = P.val_operand(fn, (b, len(body.blocks[b]["stmts"])), t["discr"], body)
    # a bool-returning storage accessor (`fn pair_exists(storage, key) -> bool { PAIRS.load(storage, key).is_ok() }`): the
    # condition is the accessor's own (single, straight-line) test with the call's arguments substituted
    core, negs = v, 0
    while core[0] == "unop" and core[1] == "Not":
        core, negs = core[2], negs + 1
    if core[0] == "call" and isinstance(core[3], str) and not cmp_kind(core[3]):
        g_ = P.fn(core[3]) or P.fn(generic_path(core[3]))
        if g_ is not None and g_.body is not None and g_.kind in ("fn", "assoc_fn") and \
                (storage_accessor(P, g_) or ((g_.sig or "").endswith("-> bool") and pure_helper(P, g_) and len(exit_sites(P, g_)) == 1)):
            iv = inline_call(P, core)
            if iv is not None and iv[0] in ("call", "binop", "unop"):
                for _ in range(negs):
                    iv = ("unop", "Not", iv)
                return cond_of_value(iv, b)
    return cond_of_value(v, b)


def cond_of_value(v, b):
    """Normalised condition of a (bool or discriminant) value; `b` is the block recorded for primitive comparisons."""
    neg = False
    while v[0] == "unop" and v[1] == "Not":
        v = v[2]
        neg = not neg
    if v[0] == "call":
        ck = cmp_kind(v[3])
        if ck:
            return ("cmp", ck, v[4], neg, v[2], v[3])
        return ("val", v, neg)
    if v[0] == "binop" and v[1] in ("Eq", "Ne", "Lt", "Le", "Gt", "Ge"):
        return ("cmp", v[1].lower(), (v[2], v[3]), neg, b, "prim")
    if v[0] == "discr":
        return ("discr", v[1])
    if v[0] == "phi":
        return ("flag", v, neg)
    return ("val", v, neg)


def _cond_negated(c):
    return c[3] if c[0] == "cmp" else (c[2] if len(c) > 2 else False)


class Guard:
    """A bool-switch guard with its pass / fail edges w.r.t. a wanted truth value."""

    def __init__(self, fn, b, cond, true_t, false_t):
        self.fn, self.b, self.cond, self.true_t, self.false_t = fn, b, cond, true_t, false_t

    def edge(self, truth):
        return (self.b, self.true_t if truth else self.false_t)


def bool_guards(P, fn, helpers=True):
    """All bool-switch guards of fn as Guard objects (cond already normalised; `negated` folded into targets)."""
    body = fn.body
    out = []
    for b, blk in enumerate(body.blocks):
        if blk["cleanup"]:
            continue
        e = bool_edges(body, b)
        if e is None:
            continue
        c = switch_cond(P, fn, b)
        if c is None:
            continue
        tt, ft = e
        neg = c[3] if c[0] == "cmp" else (c[2] if len(c) > 2 else False)
        if neg:
            tt, ft = ft, tt
        out.append(Guard(fn, b, c, tt, ft))
    if helpers:
        out += helper_guards(P, fn)
    return out


_CHECK_MEMO = {}


def check_helper(P, g):
    """g is a *check helper*: a loop-free, effect-free workspace function returning Result<(), E> with exactly one bool
    guard, one of whose edges only errs while the other only succeeds.  Returns (cond, errs_when_true) or None."""
    key = (id(P), g.path)
    if key in _CHECK_MEMO:
        return _CHECK_MEMO[key]
    _CHECK_MEMO[key] = None
    if g.body is None or g.derived or g.kind not in ("fn", "assoc_fn") or g.impl_trait is not None or len(g.body.blocks) > 40:
        return None
    if not re.search(r"-> std::result::Result<\(\), [^>]+>$", g.sig or ""):
        return None
    if g.body.back_edges() or not _effect_free(P, g, 0):
        return None
    def drop_flag(x):
        # compiler-generated drop flags: a switch on a phi of constants (moved-or-not), never a source-level condition
        return x.cond[0] == "flag" and x.cond[1][0] == "phi" and all(y[0] == "const" for y in x.cond[1][1])
    allg = bool_guards(P, g, helpers=False)
    flags = {x.b for x in allg if drop_flag(x)}
    gs = [x for x in allg if not drop_flag(x)]
    if 2 <= len(gs) <= 4:
        _CHECK_MULTI[key] = _check_helper_multi(P, g, gs, flags)
    if len(gs) != 1:
        return None
    # no other branching (besides the one guard)
    for b, blk in enumerate(g.body.blocks):
        if not blk["cleanup"] and blk["term"]["k"] == "switch" and b != gs[0].b and b not in flags:
            return None
    gd = gs[0]
    exits = exit_sites(P, g)
    res = None
    cond_ = gd.cond
    if cond_[0] == "val" and cond_[1][0] == "param" and cond_[1][1] == g.path:
        cond_ = ("boolparam", cond_[1][2])      # `fn ensure(cond: bool, err) -> Result<(), E>`: the condition is the caller's argument
        gd = Guard(g, gd.b, cond_, gd.true_t, gd.false_t)
    for truth in (True, False):
        reach_f = g.body.reachable_from(gd.edge(truth)[1])
        reach_p = g.body.reachable_from(gd.edge(not truth)[1])
        f_cls = {cls for (b, i, cls, v) in exits if b in reach_f}
        p_cls = {cls for (b, i, cls, v) in exits if b in reach_p}
        if f_cls == {"err"} and p_cls == {"ok"}:
            res = (gd.cond, truth)
    _CHECK_MEMO[key] = res
    return res


_CHECK_MULTI = {}


def _check_helper_multi(P, g, gs, flags):
    """Several early-return guards in sequence (`if a { return Err } if b { return Err } Ok(())`): every guard has one edge
    that only errs, and every success exit lies behind the passing edge of every guard.  [(cond, errs_when_true)] or None."""
    for b, blk in enumerate(g.body.blocks):
        if not blk["cleanup"] and blk["term"]["k"] == "switch" and b not in flags and b not in {x.b for x in gs}:
            return None
    exits = exit_sites(P, g)
    oks = [b for (b, i, cls, v) in exits if cls == "ok"]
    if not oks or any(cls not in ("ok", "err") for (b, i, cls, v) in exits):
        return None
    res = []
    for gd in gs:
        if gd.cond[0] != "cmp":
            return None
        hit = None
        for truth in (True, False):
            reach_f = g.body.reachable_from(gd.edge(truth)[1])
            f_cls = {cls for (b, i, cls, v) in exits if b in reach_f}
            if f_cls == {"err"} and all(g.body.edge_dominates(gd.edge(not truth), ob) for ob in oks):
                hit = (gd.cond, truth)
        if hit is None:
            return None
        res.append(hit)
    return res


def check_helper_multi(P, g):
    """[(cond, errs_when_true)] for a check helper with one or several sequential conditions, else None."""
    one = check_helper(P, g)
    if one is not None:
        return [one]
    return _CHECK_MULTI.get((id(P), g.path))


def forwarded_check_conditions(P, fn, b, v):
    """A success exit that forwards a check helper's result (`ensure(cond, err)` as the tail expression): the exit is Ok
    exactly when the helper's condition(s) pass.  Returns them as control-condition dicts attached to block b (else [])."""
    if v[0] != "call" or not isinstance(v[3], str):
        return []
    g = P.fn(v[3]) or P.fn(generic_path(v[3]))
    if g is None or g.body is None:
        return []
    chs = check_helper_multi(P, g)
    if not chs:
        return []
    mapping = {("param", g.path, i): a for i, a in enumerate(v[4])}
    out = []
    for cond, errs_when_true in chs:
        if cond[0] == "boolparam":
            c2 = cond_of_value(v[4][cond[1]], b)
            neg = _cond_negated(c2)
            out.append({"sw": b, "cond": c2, "allowed": [(not errs_when_true) != neg], "ty": None})
        elif cond[0] == "cmp":
            c2 = ("cmp", cond[1], tuple(subst_params(a, mapping) for a in cond[2]), False, b, cond[5] if len(cond) > 5 else None)
            out.append({"sw": b, "cond": c2, "allowed": [(not errs_when_true) != bool(cond[3])], "ty": None})
    return out


def rejects_via_check_helper(P, v):
    """v (an error exit value) is the error propagated out of a one-condition check helper (`ensure(cond, err)?`)."""
    for x in walk(v):
        if x[0] == "call" and isinstance(x[3], str):
            g = P.fn(x[3]) or P.fn(generic_path(x[3]))
            if g is not None and g.body is not None and check_helper(P, g) is not None:
                return True
    return False


def helper_guards(P, fn):
    """Guards expressed as `check(args)?`: the helper's single condition, with its parameters replaced by the call's
    arguments, attached to the propagation switch of the call (Err edge = the helper rejects)."""
    out = []
    for b, p, fr, t in P.calls(fn):
        if not p:
            continue
        g = P.fn(p) or P.fn(generic_path(p))
        if g is None or g.path == fn.path or not g.path.startswith(("halo_pair::", "halo_factory::", "halo_router::", "haloswap::")):
            continue
        chs = check_helper_multi(P, g)
        if chs is None:
            continue
        pg = propagated(P, fn, b)
        if pg is None:
            continue
        s_, cont, brk = pg
        cv = P.val_call(fn, fn.body, b)
        if len(chs) > 1:
            # several conditions behind one `?`: Continue needs every one of them to pass, each one alone rejects
            mapping = {("param", g.path, i): a for i, a in enumerate(cv[4])}
            for cond, errs_when_true in chs:
                tt, ft = (brk[1], cont[1]) if errs_when_true else (cont[1], brk[1])
                cond2 = ("cmp", cond[1], tuple(subst_params(a, mapping) for a in cond[2]), False, b, cond[5] if len(cond) > 5 else None)
                g_ = Guard(fn, s_, cond2, tt, ft)
                g_.multi = len(chs)
                out.append(g_)
            continue
        cond, errs_when_true = chs[0]
        mapping = {("param", g.path, i): a for i, a in enumerate(cv[4])}
        tt, ft = (brk[1], cont[1]) if errs_when_true else (cont[1], brk[1])
        if cond[0] == "cmp":
            cond2 = ("cmp", cond[1], tuple(subst_params(a, mapping) for a in cond[2]), False, b, cond[5] if len(cond) > 5 else None)
        elif cond[0] == "boolparam" and cond[1] < len(cv[4]):
            cond2 = cond_of_value(cv[4][cond[1]], b)
            was_neg = bool(_cond_negated(cond2))
            if was_neg:
                tt, ft = ft, tt
                cond2 = (cond2[:3] + (False,) + cond2[4:]) if cond2[0] == "cmp" else (cond2[:2] + (False,))
            g_ = Guard(fn, s_, cond2, tt, ft)
            # where the bool argument lives, so that a compound condition (`a && b`, `!(a || b)`) can be expanded per path
            aop = fn.body.blocks[b]["term"]["args"][cond[1]]
            if aop["k"] in ("copy", "move") and not aop["place"]["p"]:
                g_.flag_at = ((b, len(fn.body.blocks[b]["stmts"])), aop["place"]["l"], was_neg)     # the local holds the (possibly negated) argument
            out.append(g_)
            continue
        else:
            continue
        out.append(Guard(fn, s_, cond2, tt, ft))
    # `cond.then_some(()).ok_or(err)?` / `cond.then(|| ..).ok_or_else(..)?`: Continue exactly when cond holds
    for b, p, fr, t in P.calls(fn):
        if not p or last_seg(p) not in ("ok_or", "ok_or_else") or "option::Option" not in p:
            continue
        cv = P.val_call(fn, fn.body, b)
        inner = cv[4][0] if cv[0] == "call" and cv[4] else None
        if not (inner is not None and inner[0] == "call" and isinstance(inner[3], str) and re.search(r"(core|std)::bool::(<impl bool>::)?then(_some)?$", generic_path(inner[3]))):
            continue
        pg = propagated(P, fn, b)
        if pg is None:
            continue
        s_, cont, brk = pg
        cond2 = cond_of_value(inner[4][0], inner[2])
        tt, ft = cont[1], brk[1]
        if _cond_negated(cond2):
            tt, ft = ft, tt
            cond2 = (cond2[:3] + (False,) + cond2[4:]) if cond2[0] == "cmp" else (cond2[:2] + (False,))
        out.append(Guard(fn, s_, cond2, tt, ft))
    return out


def fail_edge_only_errors(P, fn, edge, sinks=()):
    """From edge=(b, t): every reachable definition of _0 is an error value and no sink block is reachable.
    Returns (ok, reason)."""
    body = fn.body
    reach = body.reachable_cp(edge[1])
    for (b, i, cls, v) in exit_sites(P, fn):
        if b in reach and cls != "err":
            return False, "success value %s assigned at bb%d reachable from the failing edge" % (cls if isinstance(cls, str) else cls[0], b)
    for s in sinks:
        if s in reach:
            return False, "sink at bb%d reachable from the failing edge" % s
    # there must be an error exit at all (otherwise the edge just falls through)
    if not any(b in reach and cls == "err" for (b, i, cls, v) in exit_sites(P, fn)):
        # diverging (panic) is also fine: no return block reachable
        if any(rb in reach for rb in body.return_blocks()):
            return False, "failing edge reaches a return without assigning an error"
    return True, ""


# ---------------------------------------------------------------------------------------
# aggregates / message sites / storage sites

def agg_sites(fn, pred=None):
    """Yield (bb, idx, stmt) of aggregate assignments in non-cleanup blocks."""
    for b, blk in enumerate(fn.body.blocks):
        if blk["cleanup"]:
            continue
        for i, st in enumerate(blk["stmts"]):
            if st["k"] == "assign" and st["rv"]["k"] == "agg" and st["rv"].get("agg") == "adt":
                if pred is None or pred(st["rv"]):
                    yield b, i, st


_STD_MSG_ADT = re.compile(r"^(cosmwasm_std::(\S*::)?(CosmosMsg|WasmMsg|BankMsg|SubMsg|StakingMsg|DistributionMsg|IbcMsg|GovMsg|ReplyOn)|"
                          r"cw20::\S*Cw20ExecuteMsg)$")
# the workspace's own wire message enums (ExecuteMsg / cw20 hook enums), discovered by names.py from the entry points
WS_MSG_ADTS = set()


class _MsgAdt:
    def match(self, path):
        return bool(_STD_MSG_ADT.match(path)) or path in WS_MSG_ADTS


MSG_ADT = _MsgAdt()


def adt_short(path):
    return path.rsplit("::", 1)[-1]


def _modelled_sites(P, fn):
    """Message aggregates that exist only as models of cosmwasm-std constructor calls (mir.model_std_ctor):
    [(bb, adt, variant, value, span)], outermost first."""
    out = []
    for b, p, fr, t in P.calls(fn):
        if not p:
            continue
        v = P.val_call(fn, fn.body, b)
        if v[0] != "agg" or v[1] != "adt":
            continue
        todo = [v]
        while todo:
            x = todo.pop(0)
            nm = str(x[2])
            if nm.endswith("Result::Ok") and len(x[3]) == 1:
                todo.append(x[3][0][1])
                continue
            if MSG_ADT.match(nm) or MSG_ADT.match(nm.rsplit("::", 1)[0]):
                if MSG_ADT.match(nm):
                    adt, var = nm, nm.rsplit("::", 1)[-1]          # a struct (SubMsg)
                else:
                    adt, var = nm.rsplit("::", 1)
                out.append((b, adt, var, x, t["span"]))
                # the wrapper built around a literal argument (`reply_on_success(WasmMsg::Instantiate{..})` -> CosmosMsg::Wasm) is
                # part of the model; the literal itself is a real aggregate statement and is reported by the statement scan
                for _, child in x[3]:
                    if child[0] == "agg" and child[1] == "adt" and str(child[2]).startswith("cosmwasm_std::CosmosMsg::"):
                        out.append((b, "cosmwasm_std::CosmosMsg", str(child[2]).rsplit("::", 1)[-1], child, t["span"]))
    return out


def message_sites(P):
    """[(fn, bb, idx, adt, variant, value, span)] for every message aggregate in production code.  A message built inside a
    straight-line private constructor helper (ctor_helper) is reported once per production call site of the helper, in the
    caller's context (parameters replaced by the call's arguments)."""
    out = []

    def emit(fn, b, i, adt, var, v, span, depth):
        if depth < 3 and fn.kind == "closure" and local_closure_helper(P, fn):
            # a local closure called like a function (`let mint = |to, amount| -> StdResult<CosmosMsg> {..}; mint(a, b)?`):
            # the message is reported at each direct call, with the closure's parameters replaced by the arguments
            cs = [(c, cb) for c, cb in P.callers(fn.path) if "::tests::" not in c.path]
            if cs:
                for c, cb in cs:
                    cv = P.val_call(c, c.body, cb)
                    if len(cv[4]) == 2 and cv[4][1][0] == "agg" and cv[4][1][1] == "tuple":
                        mp = {("param", fn.path, k + 1): a for k, (_, a) in enumerate(cv[4][1][3])}
                        emit(c, cb, -1, adt, var, subst_params(v, mp), c.body.blocks[cb]["term"]["span"], depth + 1)
                return
        if depth < 3 and fn.kind != "closure" and ctor_helper(P, fn):
            cs = [(c, cb) for c, cb in P.callers(fn.path) if "::tests::" not in c.path and "mock_querier" not in c.path]
            for c, cb in cs:
                cv = P.val_call(c, c.body, cb)
                v2 = subst_params(v, {("param", fn.path, k): a for k, a in enumerate(cv[4])})
                emit(c, cb, -1, adt, var, v2, c.body.blocks[cb]["term"]["span"], depth + 1)
            return
        out.append((fn, b, i, adt, var, v, span))
    for fn in P.prod_fns():
        for b, i, st in agg_sites(fn, lambda rv: MSG_ADT.match(rv["adt"])):
            rv = st["rv"]
            if adt_short(rv["adt"]) == "ReplyOn":
                continue
            v = P.val_rvalue(fn, fn.body, (b, i), rv)
            emit(fn, b, i, rv["adt"], rv["variant"], v, st["span"], 0)
        for (b, adt, var, v, span) in _modelled_sites(P, fn):
            if adt_short(adt) != "ReplyOn":
                emit(fn, b, -1, adt, var, v, span, 0)
    return out


def raw_message_sites(P, adt_variant=None):
    """Message aggregates at their real construction sites (no lifting of constructor helpers)."""
    out = []
    for fn in P.prod_fns():
        for b, i, st in agg_sites(fn, lambda rv: MSG_ADT.match(rv["adt"])):
            rv = st["rv"]
            if adt_short(rv["adt"]) == "ReplyOn" or (adt_variant is not None and rv["adt"] + "::" + rv["variant"] != adt_variant):
                continue
            out.append((fn, b, i, rv["adt"], rv["variant"], P.val_rvalue(fn, fn.body, (b, i), rv), st["span"]))
        for (b, adt, var, v, span) in _modelled_sites(P, fn):
            if adt_short(adt) != "ReplyOn" and (adt_variant is None or adt + "::" + var == adt_variant):
                out.append((fn, b, -1, adt, var, v, span))
    return out


_STORE_WRITE = re.compile(r"^cw_storage_plus::(item::Item|map::Map|Item|Map)::(save|update|remove)$")
_STORE_READ = re.compile(r"^cw_storage_plus::(item::Item|map::Map|Item|Map)::(load|may_load|range|keys|prefix|has|range_raw|keys_raw)$")


def storage_accessor(P, f):
    """f is a read accessor of the contract's storage: an inlinable (loop-free, write-free, message-free) workspace function
    that takes the storage by shared reference and reads an item / map entry.  Its reads are attributed to its call sites
    (with the call's arguments substituted), where the rules about keys and guards look for them."""
    return (f.body is not None and f.kind in ("fn", "assoc_fn") and re.search(r"dyn cosmwasm_std::Storage", f.sig or "") is not None and
            _storage_accessor(f) and pure_helper(P, f))


_WACC_MEMO = {}


def storage_write_accessor(P, f):
    """f is a thin write accessor (`fn save_pair_decimals(storage: &mut dyn Storage, key, record, decimals) -> StdResult<()>`):
    a loop-free workspace free function taking the storage mutably whose only effect is ONE storage write; it builds no
    message and calls no other effectful workspace function.  The write is attributed to its call sites."""
    key = (id(P), f.path)
    if key in _WACC_MEMO:
        return _WACC_MEMO[key]
    _WACC_MEMO[key] = False
    ok = (f.body is not None and f.kind == "fn" and not f.derived and "::tests::" not in f.path and len(f.body.blocks) <= 16 and
          f.crate in ("halo_pair", "halo_factory", "halo_router") and
          re.search(r"&(?:'\w+ )?mut (?:\()?dyn cosmwasm_std::Storage", f.sig or "") is not None and not f.body.back_edges())
    n_w = 0
    if ok:
        for b, blk in enumerate(f.body.blocks):
            if blk["cleanup"]:
                continue
            for st in blk["stmts"]:
                if st["k"] == "assign" and st["rv"]["k"] == "agg" and st["rv"].get("agg") == "adt" and MSG_ADT.match(st["rv"]["adt"]):
                    ok = False
            t_ = blk["term"]
            if t_["k"] == "call":
                p, fr = callee_of(t_)
                g = generic_path(p) if p else ""
                if p and _STORE_WRITE.match(g):
                    n_w += 1
                elif p and g.startswith(("halo_pair::", "halo_factory::", "halo_router::", "haloswap::")):
                    h = P.fn(p) or P.fn(g)
                    if h is not None and h.body is not None and not pure_helper(P, h):
                        ok = False
    res = bool(ok and n_w == 1)
    _WACC_MEMO[key] = res
    return res


def storage_sites(P, fn, writes=True, _own=False):
    """[(bb, op, item_path, call value)] ; item_path from the promoted const the method is applied to.
    Reads made through a storage accessor appear at the accessor's call sites, not inside the accessor."""
    out = []
    R = Roots(P)
    if not writes and not _own and storage_accessor(P, fn) and any("::tests::" not in c.path for c, _cb in P.callers(fn.path)):
        return out
    if writes and not _own and storage_write_accessor(P, fn) and any("::tests::" not in c.path for c, _cb in P.callers(fn.path)):
        return out
    for b, p, fr, t in P.calls(fn):
        if p is None:
            continue
        g = generic_path(p)
        if writes:
            af = P.fn(p) or P.fn(g)
            if af is not None and af.path != fn.path and storage_write_accessor(P, af):
                cv_ = P.val_call(fn, fn.body, b)
                mapping = {("param", af.path, i): a for i, a in enumerate(cv_[4])}
                for (gb, op, item, lv) in storage_sites(P, af, writes=True, _own=True):
                    out.append((b, op, item, subst_params(lv, mapping)))
                continue
        if not writes:
            af = P.fn(p) or P.fn(g)
            if af is not None and af.path != fn.path and storage_accessor(P, af):
                cv_ = P.val_call(fn, fn.body, b)
                mapping = {("param", af.path, i): a for i, a in enumerate(cv_[4])}
                for (gb, op, item, lv) in storage_sites(P, af, writes=False, _own=True):
                    out.append((b, op, item, subst_params(lv, mapping)))
                continue
        m = (_STORE_WRITE if writes else _STORE_READ).match(g)
        if m:
            v = P.val_call(fn, fn.body, b)
            item = sorted(R.roots(v[4][0]))
            op = m.group(2)
            if op == "update" and re.search(r"(item::)?Item::update$", g) and len(v[4]) == 3 and v[4][2][0] == "agg" and v[4][2][1] == "closure":
                # ITEM.update(storage, |old| -> Result<T, E> { ..; Ok(new) })  ==  let old = ITEM.load(storage)?; ITEM.save(storage, &new)
                cf = P.fn(v[4][2][2])
                oks = [x for x in exit_sites(P, cf) if x[2] != "err"] if cf is not None and cf.body is not None else []
                if len(oks) == 1 and oks[0][3][0] == "agg" and str(oks[0][3][2]).endswith("Result::Ok"):
                    loadv = ("call", fn.path, b, "cw_storage_plus::Item::load", (v[4][0], v[4][1]))
                    old = proj(proj(loadv, ("v", "Ok")), ("f", 0))
                    newv = subst_params(oks[0][3][3][0][1], {("param", cf.path, 1): old})
                    v = ("call", v[1], v[2], "cw_storage_plus::Item::save", (v[4][0], v[4][1], newv))
                    op = "save"
            out.append((b, op, item[0] if len(item) == 1 else "|".join(item), v))
        elif writes and (g.endswith("cw2::set_contract_version")):
            out.append((b, "set_contract_version", "I:cw2::CONTRACT", P.val_call(fn, fn.body, b)))
        elif writes and re.search(r"(cosmwasm_std::\S*Storage>?::(set|remove)$|cosmwasm_storage::)", g):
            out.append((b, "raw:" + last_seg(g), "RAW", P.val_call(fn, fn.body, b)))
    return out


# ---------------------------------------------------------------------------------------
# dispatch tables

def enum_variants(P, enum_path):
    a = P.adts.get(enum_path)
    return [v["name"] for v in a["variants"]] if a else None


def dispatch(P, fn, enum_path):
    """Find the `match` on a value of type enum_path in fn. Returns {variant: (switch_bb, target_bb)} or None."""
    body = fn.body
    names = enum_variants(P, enum_path)
    if names is None:
        return None
    if len(names) == 1:
        # irrefutable match: the single variant's "arm" is the whole function (edge None)
        return {names[0]: None}
    found = []
    for b, blk in enumerate(body.blocks):
        if blk["cleanup"]:
            continue
        t = blk["term"]
        if t["k"] != "switch":
            continue
        d = t["discr"]
        if d["k"] not in ("copy", "move"):
            continue
        # find the discriminant statement defining the switched local in this block
        for st in reversed(blk["stmts"]):
            if st["k"] == "assign" and st["place"]["l"] == d["place"]["l"] and st["rv"]["k"] == "discr":
                ty = st["rv"]["place"]["ty"]
                if ty.lstrip("&").replace("mut ", "") == enum_path:
                    res = {}
                    seen = set()
                    for val, tgt in t["arms"]:
                        idx = int(val)
                        if idx < len(names):
                            res[names[idx]] = (b, tgt)
                            seen.add(idx)
                    rest = [i for i in range(len(names)) if i not in seen]
                    if len(rest) == 1 and body.blocks[t["otherwise"]]["term"]["k"] != "unreachable":
                        res[names[rest[0]]] = (b, t["otherwise"])
                    found.append(res)
                break
    if not found:
        return None
    # several matches on the message (a classifier `match &msg { A | B => true, _ => false }` ahead of the dispatch): the
    # dispatch is the one that tells the most variants apart; ties keep the first
    found.sort(key=lambda r: -len({e for e in r.values()}))
    return found[0]


def region_of_edge(body, edge):
    """Blocks that are only reachable through `edge` (i.e. dominated by it)."""
    if edge is None:
        return set(body.reachable_from(0))
    through = body.reachable_from(edge[1])
    without = body.reachable_from(0, cut_edges=(edge,))
    return {x for x in through if x not in without}


def calls_in(P, fn, blocks):
    return [(b, p, fr, t) for (b, p, fr, t) in P.calls(fn) if b in blocks]


_VTP_MEMO = {}


def _validated_text_param(fn, ty_pat):
    P = CURRENT_P[0]
    if P is None or fn.body is None:
        return None
    key = (id(P), fn.path, ty_pat)
    if key in _VTP_MEMO:
        return _VTP_MEMO[key]
    _VTP_MEMO[key] = None
    hits = []
    for i in range(1, fn.body.arg_count + 1):
        ty = fn.body.locals[i]["ty"]
        as_addr = ty.replace("std::string::String", "cosmwasm_std::Addr").replace("alloc::string::String", "cosmwasm_std::Addr")
        if as_addr != ty and (re.search(ty_pat, as_addr) or (as_addr.startswith("&") and re.search(ty_pat, strip_ty(as_addr)))):
            hits.append(i - 1)
    res = None
    if len(hits) == 1:
        k = hits[0]
        R = Roots(P)
        pre = "valid(P:%s#%d" % (fn.path, k)
        seen = False
        for b, p, fr, t in P.calls(fn):
            cv = P.val_call(fn, fn.body, b)
            if cv[0] != "call":
                continue
            for a in cv[4]:
                try:
                    if any(r.startswith(pre) or ("=" + pre) in r or ("(" + pre) in r for r in R.roots(a)):
                        seen = True
                        break
                except RecursionError:
                    pass
            if seen:
                break
        if seen:
            res = VParam(k, "validated")
    _VTP_MEMO[key] = res
    return res


def param_index_of_type(fn, ty_pat):
    """0-based index of the unique parameter whose type matches the regex."""
    hits = [i - 1 for i in range(1, fn.body.arg_count + 1) if re.search(ty_pat, fn.body.locals[i]["ty"])]
    if not hits:
        # the same parameter taken by reference (`&Asset`, `&[Uint128; 2]`): references are transparent in the value graph
        hits = [i - 1 for i in range(1, fn.body.arg_count + 1) if fn.body.locals[i]["ty"].startswith("&") and re.search(ty_pat, strip_ty(fn.body.locals[i]["ty"]))]
    if not hits and CURRENT_P[0] is not None:
        # a field of a private parameter struct (`params: SwapParams { sender, offer_asset, .. }`): a synthetic parameter
        lay = CURRENT_P[0].bundle_layout(fn)
        bh = [i_ for (i_, k_, nm_, t_) in lay if re.search(ty_pat, t_) or (t_.startswith("&") and re.search(ty_pat, strip_ty(t_)))]
        if len(bh) == 1:
            return bh[0]
    if not hits and re.search(r"Addr", ty_pat) and not re.search(r"Canonical|MessageInfo|Env", ty_pat):
        # an address taken as text and validated by the function itself (`to: Option<String>` + `addr_validate` as the
        # first thing the handler does) is the same input as a validated `Option<Addr>` parameter
        vp = _validated_text_param(fn, ty_pat)
        if vp is not None:
            return vp
    if len(hits) > 1 and not re.search(r"MessageInfo|Env", ty_pat):
        # parameters that are pieces of the transaction's MessageInfo / Env (`contract_addr: Addr` = env.contract.address)
        # are located through those types, not as parameters of their own
        taken = set()
        for tp in (r"^cosmwasm_std::\S*MessageInfo$", r"^cosmwasm_std::\S*Env$"):
            vp = located_param(fn, tp)
            if isinstance(vp, VParam) and vp.kind == "piece":
                taken |= set(vp.pieces.values())
        hits = [h for h in hits if h not in taken]
    return hits[0] if len(hits) == 1 else None


class ParamAccess:
    """A handler parameter located by its type: either a parameter itself, or one field of a private parameter struct that
    bundles several of them (`struct SwapOptions { belief_price, max_spread, to }`)."""

    def __init__(self, fn, i, field=None):
        self.fn, self.i, self.field = fn, i, field

    def path(self):
        return () if self.field is None else (("f", self.field),)

    def root(self, suffix=""):
        return param_root(self.fn, self.i, ("" if self.field is None else "." + str(self.field)) + suffix)

    def some_root(self):
        """root string of the payload of this Option parameter (`x.unwrap_or(..)`, `if let Some(v) = x`)"""
        return self.root() if self.field is None else self.root("~Some.0")

    def arg_roots(self, R, callvalue, extra=()):
        return set(R.roots(callvalue[4][self.i], self.path() + tuple(extra)))

    def arg_value(self, callvalue):
        v = callvalue[4][self.i]
        return v if self.field is None else proj(v, ("f", self.field))

    def value(self):
        v = ("param", self.fn.path, self.i)
        return v if self.field is None else proj(v, ("f", self.field))


def param_accesses(P, fn, ty_pat):
    """All ParamAccess of fn whose type matches: direct parameters first, else fields of workspace struct parameters."""
    out = [ParamAccess(fn, i - 1) for i in range(1, fn.body.arg_count + 1) if re.search(ty_pat, fn.body.locals[i]["ty"])]
    if out:
        return out
    if re.search(r"Addr", ty_pat) and not re.search(r"Canonical", ty_pat):
        vp = _validated_text_param(fn, ty_pat)
        if vp is not None:
            return [ParamAccess(fn, vp)]
    for i in range(1, fn.body.arg_count + 1):
        a = P.adts.get(strip_ty(fn.body.locals[i]["ty"]))
        if a is None or a["kind"] != "struct" or not a["path"].startswith(("halo_pair::", "halo_factory::", "halo_router::", "haloswap::")):
            continue
        for f in a["variants"][0]["fields"]:
            if re.search(ty_pat, f["ty"]):
                out.append(ParamAccess(fn, i - 1, f["name"]))
    return out


def param_access(P, fn, ty_pat):
    hits = param_accesses(P, fn, ty_pat)
    return hits[0] if len(hits) == 1 else None


def span_of_block_term(fn, b):
    return fn.body.blocks[b]["term"]["span"].replace("!x", "")


# ---------------------------------------------------------------------------------------
# control conditions (decision tables)

_STD_VARIANTS = {"Option": ["None", "Some"], "Result": ["Ok", "Err"], "ControlFlow": ["Continue", "Break"],
                 "Ordering": {"255": "Less", "0": "Equal", "1": "Greater", "18446744073709551615": "Less", "-1": "Less"}}


def strip_ty(ty):
    ty = ty.strip()
    while ty.startswith("&"):
        ty = ty[1:].strip()
        if ty.startswith("mut "):
            ty = ty[4:]
        if ty.startswith("'"):
            ty = ty.split(" ", 1)[1] if " " in ty else ty
    return ty


def base_ty(ty):
    ty = strip_ty(ty)
    depth = 0
    for i, c in enumerate(ty):
        if c == "<":
            return ty[:i]
    return ty


def variant_name(P, ty, val):
    b = base_ty(ty)
    short = b.rsplit("::", 1)[-1]
    if short in _STD_VARIANTS and (b.startswith("std::") or b.startswith("core::")):
        tab = _STD_VARIANTS[short]
        if isinstance(tab, dict):
            return tab.get(str(val), str(val))
        return tab[int(val)] if int(val) < len(tab) else str(val)
    names = enum_variants(P, b)
    if names and int(val) < len(names):
        return names[int(val)]
    return str(val)


def all_variants(P, ty):
    b = base_ty(ty)
    short = b.rsplit("::", 1)[-1]
    if short in _STD_VARIANTS and (b.startswith("std::") or b.startswith("core::")):
        tab = _STD_VARIANTS[short]
        return sorted(set(tab.values())) if isinstance(tab, dict) else list(tab)
    return enum_variants(P, b)


def discr_place_ty(fn, s):
    """Type of the place whose discriminant is switched on at block s (or None)."""
    blk = fn.body.blocks[s]
    t = blk["term"]
    d = t["discr"]
    if d["k"] not in ("copy", "move"):
        return None
    for st in reversed(blk["stmts"]):
        if st["k"] == "assign" and st["place"]["l"] == d["place"]["l"] and not st["place"]["p"]:
            if st["rv"]["k"] == "discr":
                return st["rv"]["place"]["ty"]
            return None
    return None


def control_conditions(P, fn, b, expand_helpers=True, _depth=0):
    """Switches that control block b: [{'sw': s, 'cond': switch_cond, 'allowed': [labels], 'ty': discr type}].
    A label is a variant name (discriminant switches), True/False (bool switches) or the raw value."""
    body = fn.body
    res = []
    for s, blk in enumerate(body.blocks):
        if blk["cleanup"] or blk["term"]["k"] != "switch" or s == b and False:
            continue
        if s not in body.reachable_from(0):
            continue
        t = blk["term"]
        targets = [(v, tb) for v, tb in t["arms"]] + [("otherwise", t["otherwise"])]
        tset = sorted({tb for _, tb in targets})
        if len(tset) < 2:
            continue
        allowed_targets = []
        for tb in tset:
            cut = tuple((s, o) for o in tset if o != tb)
            if b in body.reachable_from(0, cut_edges=cut):
                allowed_targets.append(tb)
        # ignore targets that are plain `unreachable`
        live = [tb for tb in tset if body.blocks[tb]["term"]["k"] != "unreachable"]
        if set(allowed_targets) >= set(live):
            continue
        cond = switch_cond(P, fn, s)
        ty = discr_place_ty(fn, s)
        labels = []
        be = bool_edges(body, s)
        for v, tb in targets:
            if tb not in allowed_targets:
                continue
            if be is not None and ty is None:
                neg = (cond[3] if cond[0] == "cmp" else (cond[2] if len(cond) > 2 else False))
                truth = (v == "otherwise")
                labels.append((not truth) if neg else truth)
            elif ty is not None and v != "otherwise":
                labels.append(variant_name(P, ty, v))
            elif ty is not None and v == "otherwise":
                listed = {variant_name(P, ty, x) for x, _ in t["arms"]}
                allv = all_variants(P, ty) or []
                rest = [x for x in allv if x not in listed]
                labels.extend(rest if rest else ["otherwise"])
            else:
                labels.append(v)
        res.append({"sw": s, "cond": cond, "allowed": labels, "ty": ty})
    # bool flags (`matches!(..)` stored in a local, `a && b`) and bool-returning private helpers: when the wanted truth value
    # arises on exactly one assignment path, state that path's conditions instead of the opaque flag
    if res and expand_helpers and _depth < 3:
        out2 = []
        for r in res:
            rep = None
            cd = r["cond"]
            if len(r["allowed"]) == 1 and r["allowed"][0] in (True, False) and cd[0] in ("flag", "val"):
                t = body.blocks[r["sw"]]["term"]
                want = r["allowed"][0]      # labels are already folded for a negated test: `want` speaks about the un-negated value
                if cd[0] == "flag" and t["discr"]["k"] in ("copy", "move") and not t["discr"]["place"]["p"]:
                    rep = truth_conditions(P, fn, (r["sw"], len(body.blocks[r["sw"]]["stmts"])), t["discr"]["place"]["l"], want, _depth + 1)
                elif cd[0] == "val" and cd[1][0] == "call" and isinstance(cd[1][3], str):
                    g = P.fn(cd[1][3]) or P.fn(generic_path(cd[1][3]))
                    call_args = cd[1][4]
                    is_closure = False
                    if (g is None and re.search(r"ops::function::(Fn|FnMut|FnOnce)(<[^>]*>)?>::(call|call_mut|call_once)$", generic_path(cd[1][3])) and len(call_args) == 2) or \
                            (g is not None and g.kind == "closure" and len(call_args) == 2):
                        # a local predicate closure `let is_x = |a| ..; if is_x(&v)`: its upvars resolve at the capture site
                        cvs = [x for x in walk(call_args[0]) if x[0] == "agg" and x[1] == "closure"]
                        tup = call_args[1]
                        if len(cvs) == 1 and tup[0] == "agg" and tup[1] == "tuple":
                            g = P.fn(cvs[0][2])
                            call_args = (call_args[0],) + tuple(x for _, x in tup[3])
                            is_closure = g is not None and g.body is not None and not g.body.back_edges() and len(g.body.blocks) <= 24
                    if g is not None and g.body is not None and ((is_closure and g.body.locals[0]["ty"] == "bool") or
                                                                  ((pure_helper(P, g) or _bool_predicate(P, g)) and (g.sig or "").endswith("-> bool"))):
                        sub = truth_conditions(P, g, None, 0, want, _depth + 1)
                        if sub is not None:
                            mapping = {("param", g.path, i): a for i, a in enumerate(call_args) if not (is_closure and i == 0)}
                            rep = []
                            for c2 in sub:
                                c3 = dict(c2)
                                cc = c3["cond"]
                                if cc[0] == "cmp":
                                    c3["cond"] = ("cmp", cc[1], tuple(subst_params(a, mapping) for a in cc[2])) + tuple(cc[3:])
                                elif cc[0] in ("discr", "val", "flag"):
                                    c3["cond"] = (cc[0], subst_params(cc[1], mapping)) + tuple(cc[2:])
                                c3["sw"] = r["sw"]
                                rep.append(c3)
            if rep is None and cd[0] == "cmp" and cd[1] in ("eq", "ne") and len(cd) > 2 and len(cd[2]) == 2 and len(r["allowed"]) == 1 and r["allowed"][0] in (True, False) \
                    and (cd[1] == "eq") == bool(r["allowed"][0]):
                # `classify(..)? == Kind::V` holds: the classifier returned V, which it does on one path only — state that path
                rep = classifier_conditions(P, cd[2], r["sw"], _depth)
            if rep is None and cd[0] == "val" and len(r["allowed"]) == 1 and r["allowed"][0] in (True, False):
                alts_ = option_bool_alts(P, fn, r)
                if alts_ is not None and len(alts_) == 1:
                    rep = alts_[0]          # `res.map_or(false, |x| test(x))` is true on one path only: Ok ∧ test
            if rep is None:
                out2.append(r)
            else:
                for c2 in rep:
                    c2 = dict(c2)
                    c2.setdefault("via", "flag")
                    if cd[0] == "flag":
                        pass
                    out2.append(c2)
        res = out2
    # `check(args)?` / `cond.then_some(()).ok_or(e)?`: state the condition itself instead of "the call returned Ok"
    if res and expand_helpers:
        hgl = {}
        for g in helper_guards(P, fn):
            hgl.setdefault(g.b, []).append(g)
        hg = {b_: gl[0] for b_, gl in hgl.items()}
        extra = []
        for r in res:
            g = hg.get(r["sw"])
            if g is None or r["cond"][0] != "discr" or len(r["allowed"]) != 1:
                continue
            if len(hgl[r["sw"]]) > 1:
                t = body.blocks[r["sw"]]["term"]
                tgts = {lab: tb for lab, tb in zip([variant_name(P, r["ty"], v) if r["ty"] else v for v, _ in t["arms"]], [tb for _, tb in t["arms"]])}
                tb = tgts.get(r["allowed"][0])
                if tb is None:
                    tb = t["otherwise"] if t["otherwise"] not in set(tgts.values()) else None
                gl = hgl[r["sw"]]
                passing = [(x, x.false_t == tb and x.true_t != tb, x.true_t == tb and x.false_t != tb) for x in gl]
                # the passing edge is the one every guard shares as its non-rejecting target
                if all((x.false_t == tb) != (x.true_t == tb) for x in gl) and all(
                        fail_edge_only_errors(P, fn, (r["sw"], x.true_t if x.false_t == tb else x.false_t))[0] for x in gl):
                    first = True
                    for x in gl:
                        truth = (x.true_t == tb)
                        if first:
                            r["cond"], r["allowed"], r["ty"], r["via"] = x.cond, [truth], None, "helper"
                            first = False
                        else:
                            extra.append({"sw": r["sw"], "cond": x.cond, "allowed": [truth], "ty": None, "via": "helper"})
                continue
            t = body.blocks[r["sw"]]["term"]
            tgts = {lab: tb for lab, tb in zip([variant_name(P, r["ty"], v) if r["ty"] else v for v, _ in t["arms"]], [tb for _, tb in t["arms"]])}
            lab = r["allowed"][0]
            tb = tgts.get(lab)
            if tb is None:
                others = set(tgts.values())
                tb = t["otherwise"] if t["otherwise"] not in others else None
            if tb == g.true_t and tb != g.false_t:
                r["cond"], r["allowed"], r["ty"], r["via"] = g.cond, [True], None, "helper"
            elif tb == g.false_t and tb != g.true_t:
                r["cond"], r["allowed"], r["ty"], r["via"] = g.cond, [False], None, "helper"
            if r.get("via") == "helper" and getattr(g, "flag_at", None) is not None:
                r["flag_at"] = g.flag_at
        res = res + extra
    return res


def _peel_result(v):
    """v without `?` / Ok / Continue wrappers and references: the call (or value) underneath."""
    for _ in range(12):
        if v[0] == "proj" and (v[2][0] == "v" or (v[2][0] == "f" and str(v[2][1]) == "0")):
            v = v[1]
        elif v[0] == "call" and isinstance(v[3], str) and (is_try_branch(v[3]) or transparent_arg(v[3]) == 0) and v[4]:
            v = v[4][0]
        elif v[0] == "agg" and v[1] == "adt" and re.search(r"(Result::Ok|ControlFlow::Continue)$", str(v[2])) and len(v[3]) == 1:
            v = v[3][0][1]
        else:
            break
    return v


def classifier_conditions(P, operands, sw, depth):
    """One operand is a literal payload-free variant V of a workspace enum, the other the result of a workspace function that
    returns that enum (possibly in a Result): the control conditions of the function's *only* exit returning V, with its
    parameters replaced by the call's arguments — what "the classifier said V" means.  None when this is not that shape."""
    if depth >= 3:
        return None
    for lit, other in ((operands[0], operands[1]), (operands[1], operands[0])):
        lit = _peel_result(lit)
        if not (lit[0] == "agg" and lit[1] == "adt" and not lit[3] and isinstance(lit[2], str) and lit[2].startswith(("halo_pair::", "halo_factory::", "halo_router::", "haloswap::"))):
            continue
        cv = _peel_result(other)
        if not (cv[0] == "call" and isinstance(cv[3], str)):
            continue
        g = P.fn(cv[3]) or P.fn(generic_path(cv[3]))
        if g is None or g.body is None or g.derived or g.crate not in ("halo_pair", "halo_factory", "halo_router", "haloswap") or not _effect_free(P, g, 0):
            continue
        hits = []
        for (b, i, cls, rv) in exit_sites(P, g):
            if cls == "err":
                continue
            pv = _peel_result(rv)
            if pv[0] == "agg" and pv[1] == "adt" and pv[2] == lit[2]:
                hits.append(b)
            elif not (pv[0] == "agg" and pv[1] == "adt" and isinstance(pv[2], str) and pv[2].rsplit("::", 1)[0] == lit[2].rsplit("::", 1)[0]):
                return None         # an exit whose variant is not literal: it could be V as well
        if len(hits) != 1:
            return None
        mapping = {("param", g.path, i): a for i, a in enumerate(cv[4])}
        rep = []
        for c2 in control_conditions(P, g, hits[0], True, depth + 1):
            c3 = dict(c2)
            cc = c3["cond"]
            if cc[0] == "cmp":
                c3["cond"] = ("cmp", cc[1], tuple(subst_params(a, mapping) for a in cc[2])) + tuple(cc[3:])
            elif cc[0] in ("discr", "val", "flag"):
                c3["cond"] = (cc[0], subst_params(cc[1], mapping)) + tuple(cc[2:])
            c3["sw"] = sw
            c3["via"] = "classifier"
            rep.append(c3)
        return rep
    return None


def _bool_predicate(P, g):
    """A small public predicate method of a workspace type (`AssetInfoRaw::is_native_denom(&self, denom) -> bool`) that is not
    one of the role functions verified by their own lemmas: loop-free, effect-free — its single true path is stated in place."""
    return (g.kind == "assoc_fn" and g.impl_trait is None and not g.derived and g.body is not None and len(g.body.blocks) <= 16 and
            not g.body.back_edges() and g.crate in ("halo_pair", "halo_factory", "halo_router", "haloswap") and
            g.path not in getattr(P, "_role_fns", set()) and CMP_ALIASES.get(g.path) is None and _effect_free(P, g, 0))


def truth_conditions(P, fn, loc, local, want, depth=0):
    """Control conditions (as returned by control_conditions) equivalent to "bool local `local` has the value `want` at
    `loc`" — or, with loc None, "fn returns `want`" — when that value arises on exactly one assignment path; else None.
    """
    body = fn.body
    if loc is None:
        sites = [(b, i, "ret", v) for (b, i, cls, v) in exit_sites(P, fn)]
    else:
        sites = []
        rs_ = body.reaching(loc, local)
        if len(rs_) == 1 and rs_[0] != "entry" and rs_[0][2] == "full" and depth < 6:
            # a plain copy / negation of another bool local: follow it
            rv = body.blocks[rs_[0][0]]["stmts"][rs_[0][1]]["rv"]
            if rv["k"] == "use" and rv["op"]["k"] in ("copy", "move") and not rv["op"]["place"]["p"]:
                return truth_conditions(P, fn, (rs_[0][0], rs_[0][1]), rv["op"]["place"]["l"], want, depth + 1)
            if rv["k"] == "unop" and rv.get("op") == "Not" and rv.get("a", {}).get("k") in ("copy", "move") and not rv["a"]["place"]["p"]:
                return truth_conditions(P, fn, (rs_[0][0], rs_[0][1]), rv["a"]["place"]["l"], not want, depth + 1)
        for s_ in rs_:
            if s_ == "entry" or s_[2] not in ("full", "call"):
                return None
            sites.append((s_[0], s_[1], s_[2], P.val_def(fn, body, s_, local)))
    hits, others = [], []
    for (b, i, kind, v) in sites:
        while v[0] == "unop" and v[1] == "Not":
            return None
        if v == ("const", "int", 1) or v == ("const", "int", 0):
            if (v[2] == 1) == want:
                hits.append((b, i))
        else:
            others.append((b, i, v))
    if len(hits) == 1 and not others:
        return control_conditions(P, fn, hits[0][0], True, depth)
    if not hits and len(others) == 1:
        b, i, v = others[0]
        c = cond_of_value(v, b)
        base = control_conditions(P, fn, b, True, depth)
        if c[0] == "cmp":
            neg = c[3]
            c2 = c[:3] + (False,) + c[4:]
            return base + [{"sw": b, "cond": c2, "allowed": [want != neg], "ty": None, "via": "flag"}]
        if c[0] == "val" and c[1][0] == "call":
            return base + [{"sw": b, "cond": c, "allowed": [want], "ty": None, "via": "flag"}]
        return None
    return None


def truth_dnf(P, fn, loc, local, want, depth=0):
    """Like truth_conditions, but as a disjunction: a list of conjunctions (each a control_conditions-style list), one per
    assignment path on which bool local `local` gets the value `want` at `loc`.  None when a path cannot be expressed."""
    body = fn.body
    if depth > 6:
        return None
    rs_ = body.reaching(loc, local)
    if len(rs_) == 1 and rs_[0] != "entry" and rs_[0][2] == "full":
        rv = body.blocks[rs_[0][0]]["stmts"][rs_[0][1]]["rv"]
        if rv["k"] == "use" and rv["op"]["k"] in ("copy", "move") and not rv["op"]["place"]["p"]:
            return truth_dnf(P, fn, (rs_[0][0], rs_[0][1]), rv["op"]["place"]["l"], want, depth + 1)
        if rv["k"] == "unop" and rv.get("op") == "Not" and rv.get("a", {}).get("k") in ("copy", "move") and not rv["a"]["place"]["p"]:
            return truth_dnf(P, fn, (rs_[0][0], rs_[0][1]), rv["a"]["place"]["l"], not want, depth + 1)
    out = []
    for s_ in rs_:
        if s_ == "entry" or s_[2] not in ("full", "call"):
            return None
        b, i = s_[0], s_[1]
        v = P.val_def(fn, body, s_, local)
        if v == ("const", "int", 1) or v == ("const", "int", 0):
            if (v[2] == 1) == want:
                for conj in control_conditions_dnf(P, fn, b, depth + 1):
                    out.append(conj)
            continue
        c = cond_of_value(v, b)
        if c[0] == "cmp":
            neg = c[3]
            c2 = c[:3] + (False,) + c[4:]
            for conj in control_conditions_dnf(P, fn, b, depth + 1):
                out.append(conj + [{"sw": b, "cond": c2, "allowed": [want != neg], "ty": None, "via": "flag"}])
            continue
        if s_[2] == "full":
            rv = body.blocks[b]["stmts"][i]["rv"]
            if rv["k"] == "use" and rv["op"]["k"] in ("copy", "move") and not rv["op"]["place"]["p"]:
                sub = truth_dnf(P, fn, (b, i), rv["op"]["place"]["l"], want, depth + 1)
                if sub is None:
                    return None
                out += sub
                continue
        return None
    return out


def edge_condition(P, fn, sw, tb):
    """The condition of taking edge sw -> tb of a switch, in control_conditions form (None for a switch with one live target)."""
    body = fn.body
    t = body.blocks[sw]["term"]
    targets = [(v, x) for v, x in t["arms"]] + [("otherwise", t["otherwise"])]
    live = sorted({x for _, x in targets if body.blocks[x]["term"]["k"] != "unreachable"})
    if len(live) < 2:
        return None
    cond = switch_cond(P, fn, sw)
    ty = discr_place_ty(fn, sw)
    be = bool_edges(body, sw)
    labels = []
    for v, x in targets:
        if x != tb:
            continue
        if be is not None and ty is None:
            neg = (cond[3] if cond[0] == "cmp" else (cond[2] if len(cond) > 2 else False))
            truth = (v == "otherwise")
            labels.append((not truth) if neg else truth)
        elif ty is not None and v != "otherwise":
            labels.append(variant_name(P, ty, v))
        elif ty is not None and v == "otherwise":
            listed = {variant_name(P, ty, y) for y, _ in t["arms"]}
            rest = [y for y in (all_variants(P, ty) or []) if y not in listed]
            labels.extend(rest if rest else ["otherwise"])
        else:
            labels.append(v)
    return {"sw": sw, "cond": cond, "allowed": labels, "ty": ty}


def option_bool_alts(P, fn, c):
    """A bool computed as `opt.map_or_else(|| dflt, |x| test(x))` / `opt.map_or(dflt, |x| test(x))`: the alternatives
    {opt is None ∧ dflt == want} and {opt is Some ∧ test(payload) == want} as condition lists, else None."""
    cd = c["cond"]
    v = cd[1]
    if v[0] != "call" or not isinstance(v[3], str) or len(v[4]) != 3:
        return None
    g = generic_path(v[3])
    is_res = re.search(r"result::Result(::<[^>]*>)?::map_or(_else)?$", g) is not None
    if not is_res and not re.search(r"option::Option(::<[^>]*>)?::map_or(_else)?$", g):
        return None
    V_NONE, V_SOME = ("Err", "Ok") if is_res else ("None", "Some")
    want = c["allowed"][0]
    opt, dflt, fclo = v[4]
    sw = c["sw"]

    def cond_for(val):
        c2 = cond_of_value(val, sw)
        if c2[0] not in ("cmp", "val", "flag", "discr"):
            return None
        neg = _cond_negated(c2)
        return {"sw": sw, "cond": c2, "allowed": [want != neg], "ty": None, "via": "option"}
    # the default
    if g.endswith("map_or_else"):
        if not (dflt[0] == "agg" and dflt[1] == "closure"):
            return None
        df = P.fn(dflt[2])
        ex = exit_sites(P, df) if df is not None and df.body is not None else []
        if len(ex) != 1:
            return None
        dval = ex[0][3]
    else:
        dval = dflt
    if dval[0] == "const" and dval[1] in ("int", "bool"):
        none_alt = [] if bool(dval[2]) == want else None       # constant default: the alternative exists or not
    else:
        cdn = cond_for(dval)
        if cdn is None:
            return None
        none_alt = [cdn]
    if not (fclo[0] == "agg" and fclo[1] == "closure"):
        return None
    ff = P.fn(fclo[2])
    ex = exit_sites(P, ff) if ff is not None and ff.body is not None else []
    if len(ex) != 1:
        return None
    payload = proj(proj(opt, ("v", V_SOME)), ("f", 0))
    sval = subst_params(ex[0][3], {("param", ff.path, 1): payload})
    if sval[0] == "const" and sval[1] in ("int", "bool"):
        some_alt = [] if bool(sval[2]) == want else None
    else:
        cds = cond_for(sval)
        if cds is None:
            return None
        some_alt = [cds]
    alts = []
    if none_alt is not None:
        alts.append([{"sw": sw, "cond": ("discr", opt), "allowed": [V_NONE], "ty": None, "via": "option"}] + none_alt)
    if some_alt is not None:
        alts.append([{"sw": sw, "cond": ("discr", opt), "allowed": [V_SOME], "ty": None, "via": "option"}] + some_alt)
    return alts or None


def _path_blocks(body, path, target):
    """frozenset of the blocks of the acyclic path entry -> target given by its switch edges; None when the walk is not
    determined by them (a non-switch block with two live successors)."""
    edges = dict(path)
    if len(edges) != len(path):
        return None
    cur, seen = 0, [0]
    while cur != target:
        t = body.blocks[cur]["term"]
        if t["k"] == "switch":
            nxt = edges.get(cur)
            if nxt is None:
                return None
        else:
            live = [s for s in body.succs[cur] if not body.blocks[s]["cleanup"] and target in body.reachable_from(s)]
            if target in body.succs[cur]:
                live = [target]
            if len(live) != 1:
                return None
            nxt = live[0]
        if nxt in seen:
            return None
        seen.append(nxt)
        cur = nxt
    return frozenset(seen)


def path_conjunctions(P, fn, b, limit=96):
    """Every acyclic path entry -> b as a conjunction of conditions (control_conditions form), with `check(..)?` helpers
    and bool flags expanded.  Unlike control_conditions (what holds on *all* paths) this keeps the paths apart, so a block
    reached through `a || b` yields the two rows {a} and {not a, b}.  None when there are too many paths."""
    paths = path_conditions(P, fn, b, limit)
    if paths is None:
        return None
    hgl = {}
    for g in helper_guards(P, fn):
        hgl.setdefault(g.b, []).append(g)
    hg = {b_: gl[0] for b_, gl in hgl.items() if len(gl) == 1}
    body = fn.body
    out = []
    for path in paths:
        rows = [[]]
        # the conditions of one path are read along that path: where a tested local has several reaching definitions
        # (`let sent = match found { Some(c) => c.amount, None => zero }; if amount == sent`), the ones lying on the
        # path are the ones that can reach the test on it (val_local_in keeps all of them when none lies on the path)
        pblocks = _path_blocks(body, path, b)
        for (sw, tb) in path:
            old_prefer = P._prefer
            if pblocks is not None:
                P._prefer = (fn.path, pblocks)
            try:
                c = edge_condition(P, fn, sw, tb)
            finally:
                P._prefer = old_prefer
            if c is None:
                continue
            gl = hgl.get(sw, [])
            if len(gl) > 1 and c["cond"][0] == "discr" and all((x.false_t == tb) != (x.true_t == tb) for x in gl):
                # several conditions behind one `?`: passing = all of them pass; rejecting = the first one that fires
                mk = lambda x, truth: {"sw": sw, "cond": x.cond, "allowed": [truth], "ty": None, "via": "helper"}
                rejects = [x.true_t if x.false_t != tb else None for x in gl]
                passing = all(fail_edge_only_errors(P, fn, (sw, x.true_t if x.false_t == tb else x.false_t))[0] for x in gl)
                if passing:
                    add = [[mk(x, x.true_t == tb) for x in gl]]
                else:
                    add = []
                    for k, x in enumerate(gl):
                        add.append([mk(y, not (y.true_t == tb)) for y in gl[:k]] + [mk(x, x.true_t == tb)])
                rows = [r + a for r in rows for a in add]
                if len(rows) > limit:
                    return None
                continue
            g = hg.get(sw)
            if g is not None and c["cond"][0] == "discr":
                if tb == g.true_t and tb != g.false_t:
                    c = {"sw": sw, "cond": g.cond, "allowed": [True], "ty": None, "via": "helper"}
                elif tb == g.false_t and tb != g.true_t:
                    c = {"sw": sw, "cond": g.cond, "allowed": [False], "ty": None, "via": "helper"}
                if getattr(g, "flag_at", None) is not None:
                    c["flag_at"] = g.flag_at
            alts = None
            cd = c["cond"]
            if cd[0] == "flag" and len(c["allowed"]) == 1 and c["allowed"][0] in (True, False):
                t = body.blocks[sw]["term"]
                if c.get("flag_at") is not None:
                    alts = truth_dnf(P, fn, c["flag_at"][0], c["flag_at"][1], c["allowed"][0] != c["flag_at"][2], 1)
                elif t["discr"]["k"] in ("copy", "move") and not t["discr"]["place"]["p"]:
                    alts = truth_dnf(P, fn, (sw, len(body.blocks[sw]["stmts"])), t["discr"]["place"]["l"], c["allowed"][0], 1)
            if alts is None and cd[0] == "val" and len(c["allowed"]) == 1 and c["allowed"][0] in (True, False):
                alts = option_bool_alts(P, fn, c)
            if alts is None:
                rows = [r + [c] for r in rows]
            else:
                rows = [r + a for r in rows for a in alts]
            if len(rows) > limit:
                return None
        out += rows
    # drop infeasible rows: a path that needs one discriminant to be two different variants (a flag expanded into the arm
    # that sets it, combined with the other arm of the same match)
    feas = []
    for row in out:
        ok = True
        seen_d = []
        for c in row:
            if c["cond"][0] == "discr":
                for (v0, al0) in seen_d:
                    if v0 == c["cond"][1] and not (set(map(str, al0)) & set(map(str, c["allowed"]))):
                        ok = False
                seen_d.append((c["cond"][1], c["allowed"]))
        if ok:
            feas.append(row)
    return feas



def control_conditions_dnf(P, fn, b, depth=0):
    """The conditions under which block b is reached, as a list of conjunctions: bool flags that become true on several
    assignment paths (`x = match .. { A => p && q, B => r }; if x {..}`) are expanded into one conjunction per path."""
    base = control_conditions(P, fn, b)
    res = [[]]
    body = fn.body
    for c in base:
        alts = None
        cd = c["cond"]
        if cd[0] == "flag" and len(c["allowed"]) == 1 and c["allowed"][0] in (True, False) and depth < 5:
            t = body.blocks[c["sw"]]["term"]
            if c.get("flag_at") is not None:
                alts = truth_dnf(P, fn, c["flag_at"][0], c["flag_at"][1], c["allowed"][0] != c["flag_at"][2], depth + 1)
            elif t["discr"]["k"] in ("copy", "move") and not t["discr"]["place"]["p"]:
                alts = truth_dnf(P, fn, (c["sw"], len(body.blocks[c["sw"]]["stmts"])), t["discr"]["place"]["l"], c["allowed"][0], depth + 1)
        if alts is None:
            res = [r + [c] for r in res]
        else:
            res = [r + a for r in res for a in alts]
        if len(res) > 64:
            return [base]
    return res


# ---------------------------------------------------------------------------------------
# error propagation and loops

def propagated(P, fn, callbb):
    """If the Result produced by the call ending block `callbb` is inspected by `?` or a match:
    returns (switch_bb, continue_edge, break_edge); else None."""
    body = fn.body
    cv = P.val_call(fn, body, callbb)
    for s, blk in enumerate(body.blocks):
        if blk["cleanup"] or blk["term"]["k"] != "switch":
            continue
        c = switch_cond(P, fn, s)
        if c is None or c[0] != "discr":
            continue
        v = c[1]
        via_branch = False

        def same(x):
            # `r.map_err(f)` is Ok exactly when r is
            while x != cv and x[0] == "call" and isinstance(x[3], str) and generic_path(x[3]).endswith("result::Result::map_err") and x[4]:
                x = x[4][0]
            return x == cv
        if v[0] == "call" and is_try_branch(v[3]) and v[4] and same(v[4][0]):
            via_branch = True
        elif not same(v):
            continue
        ty = discr_place_ty(fn, s)
        t = blk["term"]
        cont = brk = None
        targets = [(x, tb) for x, tb in t["arms"]] + [("otherwise", t["otherwise"])]
        for x, tb in targets:
            if body.blocks[tb]["term"]["k"] == "unreachable":
                continue
            name = variant_name(P, ty, x) if (ty and x != "otherwise") else None
            if name in ("Continue", "Ok"):
                cont = (s, tb)
            elif name in ("Break", "Err"):
                brk = (s, tb)
            elif x == "otherwise":
                # the remaining variant
                if cont is None and brk is not None:
                    cont = (s, tb)
                elif brk is None and cont is not None:
                    brk = (s, tb)
        if cont and brk:
            return (s, cont, brk)
    return None


_ADAPTORS = {"enumerate", "rev", "take", "skip", "map", "filter", "step_by", "zip", "chain", "take_while", "skip_while",
             "filter_map", "flat_map", "peekable", "cloned", "copied", "inspect", "fuse", "flatten", "scan", "map_while"}
_ITER_SRC = {"iter", "iter_mut", "into_iter", "range", "keys", "values", "drain", "chars", "bytes", "split", "lines", "range_raw", "keys_raw", "prefix_range"}


def iter_chain(v, depth=0):
    """Decompose an iterator value: returns (adaptors outermost-first as (name, call value), source kind, source value)."""
    ads = []
    while depth < 40:
        depth += 1
        k = v[0]
        if k == "phi":
            alts = [x for x in v[1] if x[0] not in ("cycle", "mut", "uninit")]
            if len(alts) != 1:
                # the loop-carried iterator: phi(init, mut(phi...)): take the non-mut alternative
                alts = [x for x in v[1] if x[0] not in ("cycle", "uninit")]
                nm = [x for x in alts if x[0] != "mut"]
                if len(nm) == 1:
                    v = nm[0]
                    continue
                return ads, "unknown", v
            v = alts[0]
            continue
        if k == "mut":
            v = v[1]
            continue
        if k == "call" and isinstance(v[3], str):
            name = last_seg(v[3])
            if name == "into_iter" and v[4]:
                inner = v[4][0]
                # into_iter of an iterator is the identity; of a collection it is the source
                if inner[0] == "call" and isinstance(inner[3], str) and (last_seg(inner[3]) in _ADAPTORS or last_seg(inner[3]) in _ITER_SRC):
                    v = inner
                    continue
                m_ref = re.search(r"IntoIterator for &('\w+ )?(mut )?", v[3])
                if m_ref:
                    # `for x in &collection` / `&mut collection`: the by-reference IntoIterator impls are iter() / iter_mut()
                    return ads, ("iter_mut" if m_ref.group(2) else "iter"), inner
                return ads, "into_iter", inner
            if name in _ADAPTORS and v[4]:
                ads.append((name, v))
                v = v[4][0]
                continue
            if name in _ITER_SRC and v[4]:
                return ads, name, (v[4][0] if name in ("iter", "iter_mut") else v)
        return ads, "unknown", v
    return ads, "unknown", v


def loops(P, fn):
    """Loops driven by Iterator::next: [{'next_bb', 'some_edge', 'none_edge', 'iter': value, 'item_root': root string}]"""
    body = fn.body
    res = []
    for b, p, fr, t in P.calls(fn):
        if p is None or last_seg(p) != "next" or "Iterator" not in p:
            continue
        cv = P.val_call(fn, body, b)
        # the switch on the Option returned
        for s, blk in enumerate(body.blocks):
            if blk["cleanup"] or blk["term"]["k"] != "switch":
                continue
            c = switch_cond(P, fn, s)
            if c and c[0] == "discr" and c[1] == cv:
                ty = discr_place_ty(fn, s)
                some = none = None
                for x, tb in blk["term"]["arms"]:
                    nm = variant_name(P, ty, x)
                    if nm == "Some":
                        some = (s, tb)
                    elif nm == "None":
                        none = (s, tb)
                if some is None or none is None:
                    o = blk["term"]["otherwise"]
                    if body.blocks[o]["term"]["k"] != "unreachable":
                        if some is None:
                            some = (s, o)
                        else:
                            none = (s, o)
                is_loop = some is not None and b in body.reachable_from(some[1])
                res.append({"next_bb": b, "switch": s, "some_edge": some, "none_edge": none, "iter": cv[4][0], "call": cv,
                            "is_loop": is_loop,
                            "item_root": "C:%s@%s:bb%d" % (generic_path(p), fn.path, b)})
    return res


def borrow_consumer(P, fn, b, i):
    """The call that receives the &mut borrow created by statement (b, i): (bb, callee path) or None."""
    body = fn.body
    tmp = {body.blocks[b]["stmts"][i]["place"]["l"]}
    # reborrows / moves of the temp
    changed = True
    while changed:
        changed = False
        for bb, blk in enumerate(body.blocks):
            for st in blk["stmts"]:
                if st["k"] != "assign" or st["place"]["p"]:
                    continue
                rv = st["rv"]
                src = None
                if rv["k"] in ("ref", "rawptr"):
                    src = rv["place"]["l"]
                elif rv["k"] == "use" and rv["op"]["k"] in ("copy", "move"):
                    src = rv["op"]["place"]["l"]
                elif rv["k"] == "cast" and rv["op"]["k"] in ("copy", "move"):
                    src = rv["op"]["place"]["l"]
                if src in tmp and st["place"]["l"] not in tmp:
                    tmp.add(st["place"]["l"])
                    changed = True
    for bb, blk in enumerate(body.blocks):
        if blk["cleanup"]:
            continue
        t = blk["term"]
        if t["k"] == "call":
            for a in t["args"]:
                if a["k"] in ("copy", "move") and a["place"]["l"] in tmp:
                    p, _ = callee_of(t)
                    return (bb, p)
    return None


def path_conditions(P, fn, target, limit=64):
    """Enumerate acyclic CFG paths entry -> target; for each path the list of (switch_bb, taken target bb).
    Returns a list of such lists (at most `limit`; None if exceeded)."""
    body = fn.body
    out = []
    reach_target = {b for b in range(len(body.blocks)) if target in body.reachable_from(b)}

    def dfs(b, seen, acc):
        if len(out) > limit:
            return
        if b == target:
            out.append(list(acc))
            return
        t = body.blocks[b]["term"]
        for s in body.succs[b]:
            if s in seen or s not in reach_target:
                continue
            if t["k"] == "switch":
                acc.append((b, s))
            dfs(s, seen | {s}, acc)
            if t["k"] == "switch":
                acc.pop()
    dfs(0, {0}, [])
    if len(out) > limit:
        return None
    return out


def subst_params(v, mapping):
    """Replace ('param', f, i) leaves of a value by the mapped values."""
    k = v[0]
    if k == "param":
        return mapping.get(v, v)
    if k == "phi":
        return phi([subst_params(x, mapping) for x in v[1]])
    if k == "proj":
        e = v[2]
        if e[0] == "ix":
            e = ("ix", subst_params(e[1], mapping))
        return proj(subst_params(v[1], mapping), e)
    if k == "agg":
        return ("agg", v[1], v[2], tuple((n, subst_params(x, mapping)) for n, x in v[3]))
    if k == "call":
        return ("call", v[1], v[2], v[3], tuple(subst_params(x, mapping) for x in v[4]))
    if k == "binop":
        return ("binop", v[1], subst_params(v[2], mapping), subst_params(v[3], mapping))
    if k == "unop":
        return ("unop", v[1], subst_params(v[2], mapping))
    if k == "cast":
        return ("cast", v[1], subst_params(v[2], mapping), v[3])
    if k == "discr":
        return ("discr", subst_params(v[1], mapping))
    if k == "upd":
        return ("upd", subst_params(v[1], mapping), v[2], subst_params(v[3], mapping))
    if k == "mut":
        return ("mut", subst_params(v[1], mapping)) + v[2:]
    return v


def mapped_element(v):
    """v == index(collect(map(iter(X), closure)), k) (through clone/Try) -> (closure value, k, X) else None."""
    while v[0] == "call" and isinstance(v[3], str) and (transparent_arg(v[3]) == 0 or is_try_branch(v[3])) and last_seg(v[3]) not in ("iter", "into_iter", "index"):
        v = v[4][0]
    if not (v[0] == "call" and isinstance(v[3], str) and last_seg(v[3]) == "index" and len(v[4]) == 2 and v[4][1][0] == "const"):
        if v[0] == "proj" and v[2][0] == "i":
            base, k = v[1], v[2][1]
        else:
            return None
    else:
        base, k = v[4][0], v[4][1][2]
    while base[0] == "proj" or (base[0] == "call" and isinstance(base[3], str) and is_try_branch(base[3])):
        base = base[1] if base[0] == "proj" else base[4][0]
    if not (base[0] == "call" and isinstance(base[3], str) and last_seg(base[3]) == "collect"):
        return None
    ads, kind, src = iter_chain(base[4][0])
    if [a for a, _ in ads] != ["map"] or kind not in ("iter", "into_iter"):
        return None
    clo = ads[0][1][4][1]
    if clo[0] != "agg" or clo[1] != "closure":
        return None
    return clo, k, src


_PURE_MEMO = {}
_STORE_OR_MSG = re.compile(r"(cw_storage_plus::\S*::(save|update|remove)$|cw2::set_contract_version$)")


def _plain_constructor(P, f):
    """A public associated constructor of a workspace type (`Asset::new(info, amount)`, `AssetInfo::token(addr)`): no `self`
    parameter, one exit, which is an aggregate of the type itself (or one of its variants).  It is value plumbing."""
    # `impl From<(Uint128, Uint128, Uint128)> for SimulationResponse`: a conversion written as a constructor
    conv = f.impl_trait is not None and re.search(r"(^|::)convert::From$", str(f.impl_trait)) is not None and f.name == "from"
    if f.kind != "assoc_fn" or (f.impl_trait is not None and not conv) or not f.impl_self or f.body is None or len(f.body.blocks) > 12:
        return False
    if any(strip_ty(f.body.locals[i]["ty"]) == f.impl_self or re.sub(r"<.*$", "", strip_ty(f.body.locals[i]["ty"])) == f.impl_self for i in range(1, f.body.arg_count + 1)):
        return False
    ex = [x for x in exit_sites(P, f)]
    return len(ex) == 1 and ex[0][3][0] == "agg" and ex[0][3][1] == "adt" and (str(ex[0][3][2]) == f.impl_self or str(ex[0][3][2]).startswith(f.impl_self + "::"))


def _storage_accessor(f):
    """A public storage accessor (`fn load_pair_info(storage: &dyn Storage) -> StdResult<PairInfoRaw> { PAIR_INFO.load(storage) }`):
    takes the storage by shared reference and reads at least one item / map entry; being loop-free and write-free is checked
    by the caller.  Its calls are value plumbing around `load(..)`, so provenance looks through them."""
    if re.search(r"&mut dyn cosmwasm_std::Storage", f.sig or ""):
        return False
    for blk in f.body.blocks:
        t_ = blk["term"]
        if not blk["cleanup"] and t_["k"] == "call":
            p, _fr = callee_of(t_)
            if p and re.search(r"^cw_storage_plus::(item::)?Item::(load|may_load)$|^cw_storage_plus::(map::)?Map::(load|may_load)$", generic_path(p)):
                return True
    return False


def pure_helper(P, f, depth=0):
    """f is a private, effect-free, loop-free workspace function small enough to be inlined into provenance."""
    key = (id(P), f.path)
    if key in _PURE_MEMO:
        return _PURE_MEMO[key]
    _PURE_MEMO[key] = False
    private = not (f.j.get("vis") or "Public").startswith("Public")
    ok = (f.body is not None and not f.derived and f.kind in ("fn", "assoc_fn") and (f.impl_trait is None or _plain_constructor(P, f)) and
          len(f.body.blocks) <= 120 and
          f.crate in ("halo_pair", "halo_factory", "halo_router", "haloswap", "bignumber") and "::tests::" not in f.path and "mock_querier" not in f.path)
    if ok and not private:
        # a public free function is inlined too when it is a plain value helper: not one of the resolved role functions
        # (whose call sites the rules anchor on), no querier / storage / deps parameter, not a method of a wire type
        ok = ((f.kind == "fn" or _plain_constructor(P, f)) and f.path not in getattr(P, "_role_fns", set()) and f.crate != "bignumber" and len(f.body.blocks) <= 24 and
              not re.search(r"QuerierWrapper|cosmwasm_std::Deps|DepsMut", f.sig or "") and
              (not re.search(r"dyn cosmwasm_std::Storage", f.sig or "") or _storage_accessor(f)))
        if ok:
            # no arithmetic inside: calculators are anchors of the numeric rules, not value plumbing
            for b_, blk_ in enumerate(f.body.blocks):
                t__ = blk_["term"]
                if t__["k"] == "call":
                    p__, _fr = callee_of(t__)
                    if p__ and re.search(r"(bignumber::|ops::(Add|Sub|Mul|Div|Rem)|multiply_ratio|from_ratio|integer_sqrt|checked_(add|sub|mul|div)|::pow$)", p__):
                        ok = False
                for st_ in blk_["stmts"]:
                    if st_["k"] == "assign" and st_["rv"]["k"] == "binop" and st_["rv"].get("op") in ("Add", "Sub", "Mul", "Div", "Rem", "AddWithOverflow", "SubWithOverflow", "MulWithOverflow"):
                        ok = False
    if ok:
        if f.body.back_edges():
            ok = False
    if ok:
        for b, blk in enumerate(f.body.blocks):
            if blk["cleanup"]:
                continue
            for st in blk["stmts"]:
                if st["k"] == "assign" and st["rv"]["k"] == "agg" and st["rv"].get("agg") == "adt" and MSG_ADT.match(st["rv"]["adt"]):
                    ok = False
            t_ = blk["term"]
            if t_["k"] == "call":
                p, fr = callee_of(t_)
                if p and _STORE_OR_MSG.search(generic_path(p)):
                    ok = False
                if p and depth < 3:
                    g = P.fn(p) or P.fn(generic_path(p))
                    if g is not None and g.body is not None and g.path != f.path and not g.derived and g.crate in ("halo_pair", "halo_factory", "halo_router"):
                        # callees inside contract crates must be effect free as well
                        if not _effect_free(P, g, depth + 1):
                            ok = False
    _PURE_MEMO[key] = ok
    return ok


_CTOR_MEMO = {}


def ctor_helper(P, f):
    """f is a straight-line private message constructor: a private, loop-free, storage-free workspace function with exactly
    one success exit whose only branches are `?` propagations and which builds at least one message aggregate.  Such a
    helper is inlined into its callers (provenance and message inventory see the message at each call site); helpers
    that *choose* between messages (the transfer constructor, the hop builder) are not eligible and keep their own sites."""
    key = (id(P), f.path)
    if key in _CTOR_MEMO:
        return _CTOR_MEMO[key]
    _CTOR_MEMO[key] = False
    ok = (f.body is not None and not f.derived and f.kind in ("fn", "assoc_fn") and f.impl_trait is None and
          not (f.j.get("vis") or "Public").startswith("Public") and len(f.body.blocks) <= 80 and
          f.crate in ("halo_pair", "halo_factory", "halo_router", "haloswap") and "::tests::" not in f.path and "mock_querier" not in f.path)
    if ok and f.body.back_edges():
        ok = False
    has_msg = False
    if ok:
        for b, blk in enumerate(f.body.blocks):
            if blk["cleanup"]:
                continue
            for st in blk["stmts"]:
                if st["k"] == "assign" and st["rv"]["k"] == "agg" and st["rv"].get("agg") == "adt" and MSG_ADT.match(st["rv"]["adt"]):
                    has_msg = True
            t_ = blk["term"]
            if t_["k"] == "call":
                p, fr = callee_of(t_)
                if p and (_STORE_OR_MSG.search(generic_path(p)) or _STORE_READ.match(generic_path(p))):
                    ok = False
                g = (P.fn(p) or P.fn(generic_path(p))) if p else None
                if g is not None and g.body is not None and g.path != f.path and not g.derived and g.crate in ("halo_pair", "halo_factory", "halo_router", "haloswap") \
                        and not pure_helper(P, g):
                    ok = False
            if t_["k"] == "switch":
                c = switch_cond(P, f, b)
                if not (c and c[0] == "discr" and c[1][0] == "call" and is_try_branch(c[1][3])):
                    ok = False
    if ok and has_msg:
        oks = [x for x in exit_sites(P, f) if x[2] != "err"]
        ok = len(oks) == 1
    _CTOR_MEMO[key] = bool(ok and has_msg)
    return _CTOR_MEMO[key]


def _effect_free(P, g, depth):
    for b, blk in enumerate(g.body.blocks):
        if blk["cleanup"]:
            continue
        for st in blk["stmts"]:
            if st["k"] == "assign" and st["rv"]["k"] == "agg" and st["rv"].get("agg") == "adt" and MSG_ADT.match(st["rv"]["adt"]):
                return False
        t_ = blk["term"]
        if t_["k"] == "call":
            p, fr = callee_of(t_)
            if p and _STORE_OR_MSG.search(generic_path(p)):
                return False
    return True


def inline_call(P, v):
    """If v is a call of a pure private helper: phi of its non-error return values with parameters substituted, else None."""
    if v[0] != "call" or not isinstance(v[3], str):
        return None
    f = P.fn(v[3]) or P.fn(generic_path(v[3]))
    if f is not None and f.kind == "closure":
        return _inline_closure_call(P, f, v)
    if f is None or not (pure_helper(P, f) or ctor_helper(P, f)):
        return None
    vals = []
    for (b, i, cls, rv) in exit_sites(P, f):
        if cls == "err":
            continue
        vals.append(rv)
    if not vals:
        return None
    mapping = {("param", f.path, i): a for i, a in enumerate(v[4])}
    return phi([subst_params(x, mapping) for x in vals])


def local_closure_helper(P, cf):
    """cf is a closure that is *called directly* by its parent like a local function (`let f = |x| ..; f(a)`), small,
    loop-free and without storage access: it is inlined like a private helper."""
    if cf is None or cf.kind != "closure" or cf.body is None or cf.body.back_edges() or len(cf.body.blocks) > 60:
        return False
    for b, blk in enumerate(cf.body.blocks):
        if blk["cleanup"]:
            continue
        t_ = blk["term"]
        if t_["k"] == "call":
            p, fr = callee_of(t_)
            if p and (_STORE_OR_MSG.search(generic_path(p)) and "Response" not in p and not re.search(r"cw_storage_plus", p)) is False:
                pass
            if p and re.search(r"^cw_storage_plus::", generic_path(p)):
                return False
    return True


def _inline_closure_call(P, cf, v):
    if not local_closure_helper(P, cf) or len(v[4]) != 2:
        return None
    tup = v[4][1]
    if not (tup[0] == "agg" and tup[1] == "tuple"):
        return None
    vals = [rv for (b, i, cls, rv) in exit_sites(P, cf) if cls != "err"]
    if not vals:
        return None
    mapping = {("param", cf.path, k + 1): a for k, (_, a) in enumerate(tup[3])}
    cvs = [x for x in walk(v[4][0]) if x[0] == "agg" and x[1] == "closure" and x[2] == cf.path]
    if len(cvs) == 1:
        mapping[("param", cf.path, 0)] = cvs[0]
    return phi([subst_params(x, mapping) for x in vals])


def inline_helpers(P, v, depth=0):
    """Rewrite a value tree, replacing calls of pure private helpers by their substituted return values (for walk()-based rules)."""
    if depth > 6:
        return v
    k = v[0]
    if k == "call":
        iv = inline_call(P, v)
        if iv is not None:
            return inline_helpers(P, iv, depth + 1)
        return ("call", v[1], v[2], v[3], tuple(inline_helpers(P, x, depth) for x in v[4]))
    if k == "phi":
        return phi([inline_helpers(P, x, depth) for x in v[1]])
    if k == "proj":
        return proj(inline_helpers(P, v[1], depth), v[2])
    if k == "agg":
        return ("agg", v[1], v[2], tuple((n, inline_helpers(P, x, depth)) for n, x in v[3]))
    if k == "binop":
        return ("binop", v[1], inline_helpers(P, v[2], depth), inline_helpers(P, v[3], depth))
    if k == "cast":
        return ("cast", v[1], inline_helpers(P, v[2], depth), v[3])
    if k == "mut":
        return ("mut", inline_helpers(P, v[1], depth)) + v[2:]
    if k == "upd":
        return ("upd", inline_helpers(P, v[1], depth), v[2], inline_helpers(P, v[3], depth))
    return v


def unfold_combinators(P, v, depth=0):
    """Value-level rewriting of Option combinators applied to closures, so that walk()-based rules see through them:
       opt.map(|x| f(x))                          ->  phi[None, Some(f(opt~Some.0))]
       opt.map(|x| -> Result { Ok(f(x)) }).transpose()  ->  Ok(phi[None, Some(f(opt~Some.0))])   (errors leave through `?`)"""
    if depth > 4:
        return v
    if v[0] == "proj" and v[2] in (("f", 0), ("f", "0")) and v[1][0] == "proj" and v[1][2] == ("v", "Continue") and v[1][1][0] == "call" and is_try_branch(v[1][1][3]):
        return unfold_combinators(P, v[1][1], depth + 1)        # (branch(x) as Continue).0  ==  the Ok payload of x
    if v[0] != "call" or not isinstance(v[3], str):
        return v
    g = generic_path(v[3])
    if is_try_branch(v[3]) and v[4]:
        inner = unfold_combinators(P, v[4][0], depth + 1)
        if inner[0] == "agg" and str(inner[2]).endswith("Result::Ok"):
            return inner[3][0][1]
        return v

    def mapped(mv, peel_ok):
        if not (mv[0] == "call" and isinstance(mv[3], str) and generic_path(mv[3]).endswith("option::Option::map") and len(mv[4]) == 2
                and mv[4][1][0] == "agg" and mv[4][1][1] == "closure"):
            return None
        cf = P.fn(mv[4][1][2])
        ex = [x for x in exit_sites(P, cf) if x[2] != "err"] if cf is not None and cf.body is not None else []
        if len(ex) != 1:
            return None
        rv = ex[0][3]
        if peel_ok:
            if not (rv[0] == "agg" and str(rv[2]).endswith("Result::Ok")):
                rv = inline_helpers(P, rv)        # the closure forwards a private fallible helper: `|x| to_raw_pair(api, &x)`
            if not (rv[0] == "agg" and str(rv[2]).endswith("Result::Ok")):
                return None
            rv = rv[3][0][1]
        payload = proj(proj(mv[4][0], ("v", "Some")), ("f", 0))
        rv = subst_params(rv, {("param", cf.path, 1): payload})
        return phi([("agg", "adt", "std::option::Option::None", ()), ("agg", "adt", "std::option::Option::Some", ((0, rv),))])
    if g.endswith("option::Option::transpose") and len(v[4]) == 1:
        m = mapped(v[4][0], True)
        if m is not None:
            return ("agg", "adt", "std::result::Result::Ok", ((0, m),))
    m = mapped(v, False)
    return m if m is not None else v


# ---------------------------------------------------------------------------------------
# vectors built by pushes

def in_cycle(body, b):
    return any(b in body.reachable_from(s) for s in body.succs[b])


def vec_build(P, fn, v):
    """Decompose a Vec value that is built by mutation: returns (base value, [(op name, call value, in_loop)]) oldest first,
    or None when the value is not a plain chain of &mut-consuming calls. Alternatives of a phi must be prefixes of one
    another (different path histories of the same vector)."""
    def chain(v, depth=0):
        if depth > 80:
            return None
        k = v[0]
        if k == "mut":
            r = chain(v[1], depth + 1)
            if r is None:
                return None
            return r[0], r[1] + [(v[2], v[3], v[4])]
        if k == "phi":
            cs = []
            for x in v[1]:
                if x[0] in ("cycle", "uninit"):
                    continue
                c = chain(x, depth + 1)
                if c is None:
                    return None
                cs.append(c)
            if not cs:
                return None
            longest = max(cs, key=lambda c: len(c[1]))
            for c in cs:
                it = iter(longest[1])
                if not all(s in it for s in c[1]):
                    return None
                if c[0] != longest[0]:
                    return None
            return longest
        if k == "call" and isinstance(v[3], str) and (is_try_branch(v[3]) or transparent_arg(v[3]) == 0) and last_seg(v[3]) not in ("new", "with_capacity", "collect", "to_vec"):
            return chain(v[4][0], depth + 1)
        if k == "proj" and (v[2][0] == "v" or v[2] == ("f", 0)):
            return chain(v[1], depth + 1)
        return v, []
    r = chain(v)
    if r is None:
        return None
    base, sites = r
    ops = []
    for (fp, b, i) in sites:
        f = P.fn(fp)
        if f is None:
            return None
        cons = borrow_consumer(P, f, b, i)
        if cons is None or cons[1] is None or last_seg(cons[1]) in ("deref_mut", "as_mut_slice", "as_mut"):
            return None
        cv = P.val_call(f, f.body, cons[0])
        ops.append((last_seg(cons[1]), cv, in_cycle(f.body, cons[0])))
    return base, ops


def is_empty_vec_base(v):
    if v[0] == "agg" and v[2] == "vec":
        return len(v[3]) == 0
    return v[0] == "call" and isinstance(v[3], str) and re.search(r"vec::Vec::(new|with_capacity)$", generic_path(v[3])) is not None


def single_call_site(P, fn):
    """(caller Fn, bb) when fn has exactly one production call site, else None."""
    cs = [(c, b) for c, b in P.callers(fn.path) if "::tests::" not in c.path and "mock_querier" not in c.path]
    return cs[0] if len(cs) == 1 else None


def lift_value(P, fn, v, max_depth=3, stop=None):
    """Rewrite a value of helper `fn` into the context of its (unique) caller, repeatedly: parameters are replaced by the
    call's argument values. Returns (context Fn, value).  `stop(fn)` ends the lifting at a function the caller knows."""
    d = 0
    while d < max_depth:
        d += 1
        if fn.kind == "closure" or (stop is not None and stop(fn)):
            break
        if not any(x[0] == "param" and x[1] == fn.path for x in walk(v)):
            break
        cs = single_call_site(P, fn)
        if cs is None:
            break
        c, b = cs
        cv = P.val_call(c, c.body, b)
        v = subst_params(v, {("param", fn.path, i): a for i, a in enumerate(cv[4])})
        fn = c
    return fn, v


def resolve_conversion(P, fr):
    """A `From::from` / `Into::into` call (fnref of the call terminator) resolved to the workspace impl it lands in:
    `x.into()` with (Src, Dst) = (Uint256, u128) is `<u128 as From<Uint256>>::from`.  None when no workspace impl matches."""
    if not fr or fr.get("path") not in ("std::convert::Into::into", "core::convert::Into::into", "std::convert::From::from", "core::convert::From::from"):
        return None
    a = fr.get("args") or []
    if len(a) != 2:
        return None
    src, dst = (a[0], a[1]) if fr["path"].endswith("into") else (a[1], a[0])
    idx = getattr(P, "_conv_index", None)
    if idx is None:
        idx = {}
        for g in P.fns.values():
            if g.body is not None and g.kind == "assoc_fn" and g.name == "from":
                m = re.search(r"From<(.+?)>+$", g.j.get("impl_trait_full") or "")
                if m and g.impl_self:
                    idx[(m.group(1), g.impl_self)] = g
        P._conv_index = idx
    return idx.get((src, dst))


def option_choice_local(P, R, fn, opt_root, some_roots, none_roots, cond_strings_fn):
    """A local of fn assigned `payload(opt)` (roots in some_roots) exactly under discr(opt) == Some and the fallback (roots ==
    none_roots) exactly under discr(opt) == None — the `match opt { Some(x) => f(x), None => alt }` spelling of
    `opt.map(f).unwrap_or(alt)`.  Returns the local or None."""
    body = fn.body
    for local, ds in body.defs().items():
        full = [d for d in ds if d[2] in ("full", "call")]
        if len(full) != 2 or len(full) != len([d for d in ds if d[2] != "mutborrow"]):
            continue
        got = {}
        for d in full:
            v = P.val_def(fn, body, d, local)
            rs = set(R.roots(v))
            cs = cond_strings_fn(control_conditions(P, fn, d[0]))
            if rs and rs <= set(some_roots) and ("discr(%s) in ['Some']" % opt_root) in cs:
                got["some"] = d
            elif rs == set(none_roots) and ("discr(%s) in ['None']" % opt_root) in cs:
                got["none"] = d
        if len(got) == 2:
            return local
    return None


OVERRIDDEN = {}        # thin per-variant handler path -> (Program, argument values of its single call site)  [roles.descend_intermediate]


def _parse_suffix(path):
    out = []
    for m in re.finditer(r"\.(\w+)|~(\w+)|\[(\d+)\]|\[\*\]", path):
        if m.group(1) is not None:
            out.append(("f", int(m.group(1)) if m.group(1).isdigit() else m.group(1)))
        elif m.group(2) is not None:
            out.append(("v", m.group(2)))
        elif m.group(3) is not None:
            out.append(("i", int(m.group(3))))
        else:
            out.append(("ix",))
    return tuple(out)


CURRENT_P = [None]     # the Program under analysis (set by engine.Ctx); lets type-located parameters look at call sites


class VParam(int):
    """A handler input located by type that is not a parameter of its own (roles.param):
       kind 'bundle': field `field` of the contract-local context struct passed as parameter int(self)
                      (`ctx: ExecCtx { deps, env, info }`);
       kind 'piece' : the handler takes only the pieces it uses (`sender: Addr` for info.sender, `contract_addr: Addr` for
                      env.contract.address, `funds` for info.funds): pieces = {suffix: parameter index}, each confirmed at
                      every production call site to be that projection of the caller's own MessageInfo / Env."""

    def __new__(cls, base, kind, field=None, pieces=None):
        o = int.__new__(cls, base)
        o.kind, o.field, o.pieces = kind, field, dict(pieces or {})
        return o


def vparam_root(fn, vp, path):
    P = CURRENT_P[0]
    if vp.kind == "validated":
        return "valid(%s)" % param_root(fn, int(vp), re.sub(r"^~Some(\.0)?", "", path))
    if vp.kind == "bundle":
        if P is not None:
            rs = Roots(P).roots(proj(("param", fn.path, int(vp)), ("f", vp.field)), _parse_suffix(path))
            if len(rs) == 1:
                return list(rs)[0]
        return "P:%s#%d.%s%s" % (fn.path, int(vp), vp.field, path)
    for suf, k in sorted(vp.pieces.items(), key=lambda x: -len(x[0])):
        if path.startswith(suf):
            return param_root(fn, k, path[len(suf):])
    return "P:%s#?%s" % (fn.path, path)


def vparam_arg(cv, vp, suffix=""):
    """The argument value a call passes for a type-located handler input (projected by `suffix`, e.g. '.sender')."""
    if not isinstance(vp, VParam) or vp.kind == "validated":
        v = cv[4][int(vp)]
        for e in _parse_suffix(suffix):
            v = proj(v, e)
        return v
    if vp.kind == "bundle":
        v = proj(cv[4][int(vp)], ("f", vp.field))
        for e in _parse_suffix(suffix):
            v = proj(v, e)
        return v
    for suf, k in sorted(vp.pieces.items(), key=lambda x: -len(x[0])):
        if suffix.startswith(suf):
            v = cv[4][k]
            for e in _parse_suffix(suffix[len(suf):]):
                v = proj(v, e)
            return v
    return ("unknown", "piece %s not passed" % suffix)


_PIECES = {"MessageInfo": (".sender", ".funds"), "Env": (".contract.address",)}
_VP_MEMO = {}


def located_param(fn, ty_pat, _depth=0):
    """Index of the parameter of `fn` whose type matches, else a VParam (bundle field / pieces), else None."""
    i = param_index_of_type(fn, ty_pat)
    if i is not None:
        return i
    P = CURRENT_P[0]
    if P is None or fn.body is None or _depth > 3:
        return None
    key = (id(P), fn.path, ty_pat)
    if key in _VP_MEMO:
        return _VP_MEMO[key]
    _VP_MEMO[key] = None
    res = None
    # bundle: one contract-local struct parameter with exactly one field of that type
    hits = []
    for k in range(fn.body.arg_count):
        ty = strip_ty(fn.body.locals[k + 1]["ty"])
        a = P.adts.get(ty) or P.adts.get(re.sub(r"<.*$", "", ty))
        if a is None or a["kind"] != "struct" or not a["path"].startswith(("halo_pair::", "halo_factory::", "halo_router::")):
            continue
        for f_ in a["variants"][0]["fields"]:
            if re.search(ty_pat, f_["ty"]) or (f_["ty"].startswith("&") and re.search(ty_pat, strip_ty(f_["ty"]))):
                hits.append((k, f_["name"]))
    if len(hits) == 1:
        res = VParam(hits[0][0], "bundle", field=hits[0][1])
    else:
        # pieces: parameters that are, at every production call site, a known projection of the caller's own value of that type
        kind = next((n for n in _PIECES if re.search(ty_pat, "cosmwasm_std::" + n)), None)
        sites = [(c, cb) for c, cb in P.callers(fn.path) if "::tests::" not in c.path and c.body is not None and c.path != fn.path]
        if getattr(fn, "clone_site", None):
            sites = [fn.clone_site]          # a per-arm copy of a shared forwarder: its one call site is that arm
        if kind and 1 <= len(sites) <= 6:
            R = Roots(P)
            pieces = {}
            for suf in _PIECES[kind]:
                cand = None
                for c, cb in sites:
                    ci = located_param(c, ty_pat, _depth + 1)
                    if ci is None:
                        cand = set()
                        break
                    want = param_root(c, ci, suf)
                    cv = P.val_call(c, c.body, cb)
                    ks = {k for k, a_ in enumerate(cv[4]) if set(R.roots(a_)) == {want}}
                    cand = ks if cand is None else (cand & ks)
                if cand and len(cand) == 1:
                    pieces[suf] = list(cand)[0]
            if pieces:
                res = VParam(sorted(pieces.values())[0], "piece", pieces=pieces)
    _VP_MEMO[key] = res
    return res


def param_value(fn, i):
    """The value expression of parameter i of fn: ("param", path, i), or the field of the parameter struct for a synthetic
    index (Program.bundle_layout)."""
    if isinstance(i, int) and not isinstance(i, VParam) and fn.body is not None and i >= fn.body.arg_count and CURRENT_P[0] is not None:
        for (i_, k_, nm_, t_) in CURRENT_P[0].bundle_layout(fn):
            if i_ == i:
                return proj(("param", fn.path, k_), ("f", nm_))
    return ("param", fn.path, int(i) if i is not None else i)


def param_root(fn, i, path=""):
    if isinstance(i, VParam):
        return vparam_root(fn, i, path)
    if isinstance(i, int) and fn.body is not None and i >= fn.body.arg_count and CURRENT_P[0] is not None:
        for (i_, k_, nm_, t_) in CURRENT_P[0].bundle_layout(fn):
            if i_ == i:
                return param_root(fn, k_, "." + str(nm_) + path)       # a field of the parameter struct
    ov = OVERRIDDEN.get(fn.path)
    if ov is not None and i < len(ov[1]):
        rs = Roots(ov[0]).roots(ov[1][i], _parse_suffix(path))
        if len(rs) == 1:
            return list(rs)[0]
    return "P:%s#%d%s" % (fn.path, i, path)
