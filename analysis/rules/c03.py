"""C03 — LP share value never decreases over any history (DESIGN §5 C03).
A history property: static analysis decides the per-operation lemmas the induction rests on, nothing more."""
from . import c01, c02, c04, c05, c07


def pull(ctx, inst, mod, ids, prefix):
    sub = type(ctx)(ctx.prop, ctx.P)
    sub.P_release = ctx.P_release
    mod.run(sub)
    for i in sub.instances:
        if i.id in ids:
            inst.sites.extend("%s: %s" % (i.id, s) for s in i.sites[:8])
            inst.evaluations += i.evaluations
            for f in i.failures:
                inst.fail("%s:%s" % (prefix, f["key"]), f["fn"], f["span"], "[%s] %s" % (i.id, f["reason"]))


def _run(ctx):
    l1 = ctx.inst("C03.L1", "swap: the reserve product does not decrease and the LP supply is untouched (C01.N1-N3, C01.R1)", floor=8)
    l2 = ctx.inst("C03.L2", "provide: minted share m <= d_i*S/r_i for both assets, reserves net of the caller's native deposit (C05.N1, C05.R3, C05.R4)", floor=6)
    l3 = ctx.inst("C03.L3", "withdraw: refund x_i <= r_i*a/S and exactly a is burned (C04.N1, C04.R1, C04.R2)", floor=6)
    l4 = ctx.inst("C03.L4", "LP supply discipline: Mint / Burn only in provide / withdraw, addressed to the LP token, amounts from the share computation / hook amount (C07.R2, C05.R6, C05.R7)", floor=8)
    l5 = ctx.inst("C03.L5", "no mis-credited swap: delivered asset and amount are bound to the priced ones (C02.R1-R5)", floor=6)
    pull(ctx, l1, c01, {"C01.N1", "C01.N2", "C01.N3", "C01.R1"}, "C03.L1")
    pull(ctx, l2, c05, {"C05.N1", "C05.R3", "C05.R4", "C05.R1", "C05.R5"}, "C03.L2")       # R5: every declared native deposit was really attached (else shares are minted for nothing)
    pull(ctx, l3, c04, {"C04.N1", "C04.R1", "C04.R2"}, "C03.L3")
    pull(ctx, l4, c07, {"C07.R2", "C07.R3"}, "C03.L4")
    pull(ctx, l4, c05, {"C05.R6", "C05.R7"}, "C03.L4")
    pull(ctx, l5, c02, {"C02.R1", "C02.R2", "C02.R3", "C02.R4", "C02.R5"}, "C03.L5")
    ctx.assumptions.append("paper induction (not mechanised): with (r0,r1,S): L2 gives (r0+d0)(r1+d1)/(S+m)^2 >= r0r1/S^2; L3 gives (r0-x0)(r1-x1)/(S-a)^2 >= r0r1/S^2; "
                           "L1 keeps S and does not lower r0r1; donations and holder-side burns only raise the quotient; rejected calls revert atomically (platform)")
    ctx.assumptions.append("this check decides the per-operation lemmas only; the interleaving quantifier is discharged by the induction above, not by exploration")


def run(ctx):
    from .. import numeric
    _run(ctx)
    numeric.arith_base(ctx, "C03.B1")
