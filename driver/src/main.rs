// halo-facts-driver: a rustc_private driver that dumps the type-checked program
// (MIR with resolved callees, item tables) of a crate as one JSON fact file.
//
// Invoked as RUSTC_WORKSPACE_WRAPPER: argv = [driver, <rustc path>, rustc args...].
// Facts are written only when HALO_FACTS_DIR is set and the crate being compiled
// is a `lib`/`rlib`/`cdylib` target whose name is listed in HALO_FACTS_CRATES
// (comma separated; empty = every crate the wrapper is applied to).
#![feature(rustc_private)]
#![allow(clippy::all)]

extern crate rustc_abi;
extern crate rustc_driver;
extern crate rustc_hir;
extern crate rustc_interface;
extern crate rustc_middle;
extern crate rustc_span;

use rustc_driver::Compilation;
use rustc_hir::def::DefKind;
use rustc_hir::def_id::{DefId, LocalDefId};
use rustc_middle::mir::{
    self, AggregateKind, BasicBlockData, Body, Const as MirConst, ConstValue, Operand, Place,
    PlaceTy, ProjectionElem, Rvalue, StatementKind, TerminatorKind, VarDebugInfoContents,
};
use rustc_middle::ty::print::with_no_trimmed_paths;
use rustc_middle::ty::{self, Instance, Ty, TyCtxt, TypingEnv};
use rustc_span::Span;
use std::fmt::Write as _;

// ---------------------------------------------------------------------------
// tiny JSON value

enum J {
    Null,
    Bool(bool),
    Int(i128),
    Str(String),
    Arr(Vec<J>),
    Obj(Vec<(&'static str, J)>),
}

fn s<T: Into<String>>(x: T) -> J {
    J::Str(x.into())
}

impl J {
    fn write(&self, out: &mut String) {
        match self {
            J::Null => out.push_str("null"),
            J::Bool(b) => out.push_str(if *b { "true" } else { "false" }),
            J::Int(i) => {
                let _ = write!(out, "{}", i);
            }
            J::Str(st) => {
                out.push('"');
                for c in st.chars() {
                    match c {
                        '"' => out.push_str("\\\""),
                        '\\' => out.push_str("\\\\"),
                        '\n' => out.push_str("\\n"),
                        '\r' => out.push_str("\\r"),
                        '\t' => out.push_str("\\t"),
                        c if (c as u32) < 0x20 => {
                            let _ = write!(out, "\\u{:04x}", c as u32);
                        }
                        c => out.push(c),
                    }
                }
                out.push('"');
            }
            J::Arr(v) => {
                out.push('[');
                for (i, x) in v.iter().enumerate() {
                    if i > 0 {
                        out.push(',');
                    }
                    x.write(out);
                }
                out.push(']');
            }
            J::Obj(v) => {
                out.push('{');
                for (i, (k, x)) in v.iter().enumerate() {
                    if i > 0 {
                        out.push(',');
                    }
                    out.push('"');
                    out.push_str(k);
                    out.push_str("\":");
                    x.write(out);
                }
                out.push('}');
            }
        }
    }
}

// ---------------------------------------------------------------------------

struct Cx<'tcx> {
    tcx: TyCtxt<'tcx>,
}

impl<'tcx> Cx<'tcx> {
    fn path(&self, d: DefId) -> String {
        with_no_trimmed_paths!(self.tcx.def_path_str(d))
    }

    fn ty_s(&self, t: Ty<'tcx>) -> String {
        with_no_trimmed_paths!(format!("{}", t))
    }

    fn span(&self, sp: Span) -> J {
        let sm = self.tcx.sess.source_map();
        let sp0 = sp;
        // use the outermost call site so a report points into the user's file
        let sp = sp.source_callsite();
        let lo = sm.lookup_char_pos(sp.lo());
        let file = match &lo.file.name {
            rustc_span::FileName::Real(r) => match r.local_path() {
                Some(p) => p.display().to_string(),
                None => format!("{:?}", lo.file.name),
            },
            other => format!("{:?}", other),
        };
        let mut st = format!("{}:{}:{}", file, lo.line, lo.col.0 + 1);
        if sp0.from_expansion() {
            st.push_str("!x");
        }
        J::Str(st)
    }

    fn generic_args(&self, args: ty::GenericArgsRef<'tcx>) -> J {
        J::Arr(
            args.iter()
                .map(|a| s(with_no_trimmed_paths!(format!("{}", a))))
                .collect(),
        )
    }

    fn fn_ref(&self, env: TypingEnv<'tcx>, def_id: DefId, args: ty::GenericArgsRef<'tcx>) -> J {
        let mut o = vec![
            ("path", s(self.path(def_id))),
            ("args", self.generic_args(args)),
            ("krate", s(self.tcx.crate_name(def_id.krate).to_string())),
            ("local", J::Bool(def_id.is_local())),
        ];
        // the trait a trait-method belongs to (before resolution)
        if let Some(tr) = self.tcx.trait_of_assoc(def_id) {
            o.push(("trait", s(self.path(tr))));
            o.push(("name", s(self.tcx.item_name(def_id).to_string())));
        }
        if matches!(self.tcx.def_kind(def_id), DefKind::Fn | DefKind::AssocFn) {
            if let Ok(Some(inst)) = Instance::try_resolve(self.tcx, env, def_id, args) {
                let rd = inst.def_id();
                o.push(("rpath", s(self.path(rd))));
                o.push(("rargs", self.generic_args(inst.args)));
                o.push(("rkrate", s(self.tcx.crate_name(rd.krate).to_string())));
                let kind = match inst.def {
                    ty::InstanceKind::Item(_) => "item",
                    ty::InstanceKind::Intrinsic(_) => "intrinsic",
                    ty::InstanceKind::Virtual(..) => "virtual",
                    ty::InstanceKind::ClosureOnceShim { .. } => "closure_once_shim",
                    ty::InstanceKind::FnPtrShim(..) => "fn_ptr_shim",
                    ty::InstanceKind::DropGlue(..) => "drop_glue",
                    ty::InstanceKind::CloneShim(..) => "clone_shim",
                    _ => "other",
                };
                o.push(("rkind", s(kind)));
                if let Some(imp) = self.tcx.impl_of_assoc(rd) {
                    o.push(("rimpl_self", s(self.ty_s(self.tcx.type_of(imp).instantiate_identity().skip_norm_wip()))));
                    o.push(("rderived", J::Bool(self.tcx.is_automatically_derived(imp))));
                }
            }
        }
        J::Obj(o)
    }

    fn constant(&self, env: TypingEnv<'tcx>, c: &mir::ConstOperand<'tcx>) -> J {
        let ty = c.const_.ty();
        let disp = with_no_trimmed_paths!(format!("{}", c));
        let mut o: Vec<(&'static str, J)> = vec![("k", s("const")), ("ty", s(self.ty_s(ty))), ("s", s(disp))];
        match ty.kind() {
            ty::FnDef(def_id, args) => {
                o.push(("fn", self.fn_ref(env, *def_id, args)));
                return J::Obj(o);
            }
            _ => {}
        }
        match c.const_ {
            MirConst::Unevaluated(uv, _) => {
                o.push(("uneval", s(self.path(uv.def))));
                if let Some(p) = uv.promoted {
                    o.push(("promoted", J::Int(p.index() as i128)));
                }
            }
            MirConst::Val(cv, _) => match cv {
                ConstValue::Scalar(_) => {
                    if let Some(si) = cv.try_to_scalar_int() {
                        let bits = si.to_bits(si.size());
                        o.push(("int", s(bits.to_string())));
                    }
                }
                ConstValue::ZeroSized => {
                    o.push(("zst", J::Bool(true)));
                }
                ConstValue::Slice { .. } => {
                    if let Some(b) = cv.try_get_slice_bytes_for_diagnostics(self.tcx) {
                        o.push(("str", s(String::from_utf8_lossy(b).to_string())));
                    }
                }
                _ => {}
            },
            MirConst::Ty(_, ct) => {
                o.push(("tyconst", s(format!("{:?}", ct))));
            }
        }
        // try to evaluate unevaluated scalar constants (e.g. MAX_LIMIT, LP_TOKEN_RESERVED_AMOUNT)
        if let MirConst::Unevaluated(uv, _) = c.const_ {
            if uv.promoted.is_none() && (ty.is_integral() || ty.is_bool()) {
                if let Some(si) = c.const_.try_eval_scalar_int(self.tcx, env) {
                    let bits = si.to_bits(si.size());
                    o.push(("int", s(bits.to_string())));
                }
            }
        }
        J::Obj(o)
    }

    fn place(&self, body: &Body<'tcx>, place: &Place<'tcx>) -> J {
        let mut pty = PlaceTy::from_ty(body.local_decls[place.local].ty);
        let mut projs = Vec::new();
        for elem in place.projection.iter() {
            let j = match elem {
                ProjectionElem::Deref => J::Obj(vec![("k", s("deref"))]),
                ProjectionElem::Field(f, _) => {
                    let name = match pty.ty.kind() {
                        ty::Adt(adt, _) => {
                            let v = pty.variant_index.unwrap_or(rustc_abi::FIRST_VARIANT);
                            if adt.is_enum() || adt.is_struct() || adt.is_union() {
                                adt.variant(v).fields.get(f).map(|fd| fd.name.to_string())
                            } else {
                                None
                            }
                        }
                        _ => None,
                    };
                    let mut o = vec![("k", s("field")), ("i", J::Int(f.index() as i128))];
                    if let Some(n) = name {
                        o.push(("name", s(n)));
                    }
                    J::Obj(o)
                }
                ProjectionElem::Index(l) => J::Obj(vec![("k", s("index")), ("local", J::Int(l.index() as i128))]),
                ProjectionElem::ConstantIndex { offset, from_end, .. } => J::Obj(vec![
                    ("k", s("cindex")),
                    ("i", J::Int(offset as i128)),
                    ("from_end", J::Bool(from_end)),
                ]),
                ProjectionElem::Subslice { from, to, from_end } => J::Obj(vec![
                    ("k", s("subslice")),
                    ("from", J::Int(from as i128)),
                    ("to", J::Int(to as i128)),
                    ("from_end", J::Bool(from_end)),
                ]),
                ProjectionElem::Downcast(sym, v) => {
                    let name = match sym {
                        Some(sy) => sy.to_string(),
                        None => match pty.ty.kind() {
                            ty::Adt(adt, _) if adt.is_enum() => adt.variant(v).name.to_string(),
                            _ => format!("{}", v.index()),
                        },
                    };
                    J::Obj(vec![("k", s("downcast")), ("variant", s(name)), ("vi", J::Int(v.index() as i128))])
                }
                ProjectionElem::OpaqueCast(_) => J::Obj(vec![("k", s("opaque_cast"))]),
                ProjectionElem::UnwrapUnsafeBinder(_) => J::Obj(vec![("k", s("unwrap_binder"))]),
            };
            pty = pty.projection_ty(self.tcx, elem);
            projs.push(j);
        }
        J::Obj(vec![
            ("l", J::Int(place.local.index() as i128)),
            ("p", J::Arr(projs)),
            ("ty", s(self.ty_s(pty.ty))),
        ])
    }

    fn operand(&self, env: TypingEnv<'tcx>, body: &Body<'tcx>, op: &Operand<'tcx>) -> J {
        match op {
            Operand::Copy(p) => J::Obj(vec![("k", s("copy")), ("place", self.place(body, p))]),
            Operand::Move(p) => J::Obj(vec![("k", s("move")), ("place", self.place(body, p))]),
            Operand::Constant(c) => self.constant(env, c),
            #[allow(unreachable_patterns)]
            _ => J::Obj(vec![("k", s("other")), ("s", s(format!("{:?}", op)))]),
        }
    }

    fn rvalue(&self, env: TypingEnv<'tcx>, body: &Body<'tcx>, rv: &Rvalue<'tcx>) -> J {
        match rv {
            Rvalue::Use(op, ..) => J::Obj(vec![("k", s("use")), ("op", self.operand(env, body, op))]),
            Rvalue::Repeat(op, n) => J::Obj(vec![
                ("k", s("repeat")),
                ("op", self.operand(env, body, op)),
                ("n", s(format!("{:?}", n))),
            ]),
            Rvalue::Ref(_, bk, p) => J::Obj(vec![
                ("k", s("ref")),
                ("mut", J::Bool(matches!(bk, mir::BorrowKind::Mut { .. }))),
                ("place", self.place(body, p)),
            ]),
            Rvalue::RawPtr(_, p) => J::Obj(vec![("k", s("rawptr")), ("place", self.place(body, p))]),
            Rvalue::Cast(kind, op, ty) => J::Obj(vec![
                ("k", s("cast")),
                ("kind", s(format!("{:?}", kind))),
                ("op", self.operand(env, body, op)),
                ("ty", s(self.ty_s(*ty))),
            ]),
            Rvalue::BinaryOp(op, ab) => J::Obj(vec![
                ("k", s("binop")),
                ("op", s(format!("{:?}", op))),
                ("a", self.operand(env, body, &ab.0)),
                ("b", self.operand(env, body, &ab.1)),
            ]),
            Rvalue::UnaryOp(op, a) => J::Obj(vec![
                ("k", s("unop")),
                ("op", s(format!("{:?}", op))),
                ("a", self.operand(env, body, a)),
            ]),
            Rvalue::Discriminant(p) => J::Obj(vec![("k", s("discr")), ("place", self.place(body, p))]),
            Rvalue::Aggregate(kind, ops) => {
                let mut o: Vec<(&'static str, J)> = vec![("k", s("agg"))];
                let mut names: Vec<J> = Vec::new();
                match &**kind {
                    AggregateKind::Array(t) => {
                        o.push(("agg", s("array")));
                        o.push(("elem_ty", s(self.ty_s(*t))));
                    }
                    AggregateKind::Tuple => o.push(("agg", s("tuple"))),
                    AggregateKind::Adt(def_id, vi, args, _, active) => {
                        let adt = self.tcx.adt_def(*def_id);
                        let v = adt.variant(*vi);
                        o.push(("agg", s("adt")));
                        o.push(("adt", s(self.path(*def_id))));
                        o.push(("variant", s(v.name.to_string())));
                        o.push(("vi", J::Int(vi.index() as i128)));
                        o.push(("is_enum", J::Bool(adt.is_enum())));
                        o.push(("gargs", self.generic_args(args)));
                        if let Some(a) = active {
                            o.push(("active_field", J::Int(a.index() as i128)));
                        }
                        for fd in v.fields.iter() {
                            names.push(s(fd.name.to_string()));
                        }
                    }
                    AggregateKind::Closure(def_id, _) => {
                        o.push(("agg", s("closure")));
                        o.push(("closure", s(self.path(*def_id))));
                    }
                    AggregateKind::RawPtr(..) => o.push(("agg", s("rawptr"))),
                    _ => o.push(("agg", s("other"))),
                }
                o.push(("fields", J::Arr(names)));
                o.push(("ops", J::Arr(ops.iter().map(|x| self.operand(env, body, x)).collect())));
                J::Obj(o)
            }
            Rvalue::CopyForDeref(p) => J::Obj(vec![
                ("k", s("use")),
                ("op", J::Obj(vec![("k", s("copy")), ("place", self.place(body, p))])),
            ]),
            other => J::Obj(vec![("k", s("other")), ("s", s(format!("{:?}", other)))]),
        }
    }

    fn block(&self, env: TypingEnv<'tcx>, body: &Body<'tcx>, bb: &BasicBlockData<'tcx>) -> J {
        let mut stmts = Vec::new();
        for st in bb.statements.iter() {
            match &st.kind {
                StatementKind::Assign(b) => {
                    let (p, rv) = &**b;
                    stmts.push(J::Obj(vec![
                        ("k", s("assign")),
                        ("place", self.place(body, p)),
                        ("rv", self.rvalue(env, body, rv)),
                        ("span", self.span(st.source_info.span)),
                    ]));
                }
                StatementKind::SetDiscriminant { place, variant_index } => {
                    stmts.push(J::Obj(vec![
                        ("k", s("setdiscr")),
                        ("place", self.place(body, place)),
                        ("vi", J::Int(variant_index.index() as i128)),
                        ("span", self.span(st.source_info.span)),
                    ]));
                }
                StatementKind::Intrinsic(i) => {
                    stmts.push(J::Obj(vec![("k", s("intrinsic")), ("s", s(format!("{:?}", i)))]));
                }
                _ => {}
            }
        }
        let term = bb.terminator();
        let tspan = self.span(term.source_info.span);
        let bbi = |b: mir::BasicBlock| J::Int(b.index() as i128);
        let unwind_j = |u: &mir::UnwindAction| match u {
            mir::UnwindAction::Cleanup(b) => bbi(*b),
            _ => J::Null,
        };
        let t = match &term.kind {
            TerminatorKind::Goto { target } => J::Obj(vec![("k", s("goto")), ("target", bbi(*target))]),
            TerminatorKind::SwitchInt { discr, targets } => {
                let mut arms = Vec::new();
                for (v, b) in targets.iter() {
                    arms.push(J::Arr(vec![s(v.to_string()), bbi(b)]));
                }
                J::Obj(vec![
                    ("k", s("switch")),
                    ("discr", self.operand(env, body, discr)),
                    ("arms", J::Arr(arms)),
                    ("otherwise", bbi(targets.otherwise())),
                ])
            }
            TerminatorKind::UnwindResume => J::Obj(vec![("k", s("resume"))]),
            TerminatorKind::UnwindTerminate(_) => J::Obj(vec![("k", s("terminate"))]),
            TerminatorKind::Return => J::Obj(vec![("k", s("return"))]),
            TerminatorKind::Unreachable => J::Obj(vec![("k", s("unreachable"))]),
            TerminatorKind::Drop { place, target, unwind, .. } => J::Obj(vec![
                ("k", s("drop")),
                ("place", self.place(body, place)),
                ("target", bbi(*target)),
                ("unwind", unwind_j(unwind)),
            ]),
            TerminatorKind::Call { func, args, destination, target, unwind, fn_span, .. } => {
                let mut o = vec![
                    ("k", s("call")),
                    ("func", self.operand(env, body, func)),
                    ("args", J::Arr(args.iter().map(|a| self.operand(env, body, &a.node)).collect())),
                    ("dest", self.place(body, destination)),
                    ("target", target.map(bbi).unwrap_or(J::Null)),
                    ("unwind", unwind_j(unwind)),
                    ("fn_span", self.span(*fn_span)),
                ];
                // type of the callee operand (closures called through Fn* traits etc.)
                o.push(("func_ty", s(self.ty_s(func.ty(&body.local_decls, self.tcx)))));
                J::Obj(o)
            }
            TerminatorKind::TailCall { func, args, .. } => J::Obj(vec![
                ("k", s("tailcall")),
                ("func", self.operand(env, body, func)),
                ("args", J::Arr(args.iter().map(|a| self.operand(env, body, &a.node)).collect())),
            ]),
            TerminatorKind::Assert { cond, expected, msg, target, unwind } => {
                let kind = match &**msg {
                    mir::AssertKind::BoundsCheck { .. } => "bounds".to_string(),
                    mir::AssertKind::Overflow(op, ..) => format!("overflow:{:?}", op),
                    mir::AssertKind::OverflowNeg(_) => "overflow_neg".to_string(),
                    mir::AssertKind::DivisionByZero(_) => "div_zero".to_string(),
                    mir::AssertKind::RemainderByZero(_) => "rem_zero".to_string(),
                    other => format!("{:?}", other).chars().take(60).collect(),
                };
                J::Obj(vec![
                    ("k", s("assert")),
                    ("cond", self.operand(env, body, cond)),
                    ("expected", J::Bool(*expected)),
                    ("msg", s(kind)),
                    ("target", bbi(*target)),
                    ("unwind", unwind_j(unwind)),
                ])
            }
            TerminatorKind::FalseEdge { real_target, .. } => J::Obj(vec![("k", s("goto")), ("target", bbi(*real_target))]),
            TerminatorKind::FalseUnwind { real_target, .. } => J::Obj(vec![("k", s("goto")), ("target", bbi(*real_target))]),
            other => J::Obj(vec![("k", s("other")), ("s", s(format!("{:?}", other)))]),
        };
        let mut tv = match t {
            J::Obj(v) => v,
            _ => unreachable!(),
        };
        tv.push(("span", tspan));
        J::Obj(vec![
            ("stmts", J::Arr(stmts)),
            ("term", J::Obj(tv)),
            ("cleanup", J::Bool(bb.is_cleanup)),
        ])
    }

    fn body(&self, env: TypingEnv<'tcx>, body: &Body<'tcx>) -> J {
        let mut locals = Vec::new();
        for (_l, d) in body.local_decls.iter_enumerated() {
            locals.push(J::Obj(vec![("ty", s(self.ty_s(d.ty)))]));
        }
        let mut names = Vec::new();
        for v in body.var_debug_info.iter() {
            match &v.value {
                VarDebugInfoContents::Place(p) => {
                    names.push(J::Obj(vec![
                        ("name", s(v.name.to_string())),
                        ("place", self.place(body, p)),
                        ("arg", v.argument_index.map(|i| J::Int(i as i128)).unwrap_or(J::Null)),
                    ]));
                }
                VarDebugInfoContents::Const(c) => {
                    names.push(J::Obj(vec![
                        ("name", s(v.name.to_string())),
                        ("const", self.constant(env, c)),
                    ]));
                }
            }
        }
        let blocks: Vec<J> = body.basic_blocks.iter().map(|bb| self.block(env, body, bb)).collect();
        J::Obj(vec![
            ("arg_count", J::Int(body.arg_count as i128)),
            ("locals", J::Arr(locals)),
            ("debug", J::Arr(names)),
            ("blocks", J::Arr(blocks)),
        ])
    }

    fn fn_item(&self, ldid: LocalDefId) -> Option<J> {
        let tcx = self.tcx;
        let def_id = ldid.to_def_id();
        let kind = tcx.def_kind(def_id);
        let kind_s = match kind {
            DefKind::Fn => "fn",
            DefKind::AssocFn => "assoc_fn",
            DefKind::Closure => "closure",
            DefKind::Const { .. } => "const",
            DefKind::AssocConst { .. } => "assoc_const",
            DefKind::Static { .. } => "static",
            _ => return None,
        };
        let mut o: Vec<(&'static str, J)> = vec![
            ("path", s(self.path(def_id))),
            ("kind", s(kind_s)),
            ("span", self.span(tcx.def_span(def_id))),
            ("from_expansion", J::Bool(tcx.def_span(def_id).from_expansion())),
        ];
        if matches!(kind, DefKind::Fn | DefKind::AssocFn) {
            o.push(("vis", s(format!("{:?}", tcx.visibility(def_id)))));
            o.push(("name", s(tcx.item_name(def_id).to_string())));
        }
        let mut derived = false;
        // walk up to the enclosing impl (closures inside derived impls count as derived)
        let mut cur = def_id;
        loop {
            match tcx.def_kind(cur) {
                DefKind::Impl { of_trait } => {
                    derived = tcx.is_automatically_derived(cur);
                    o.push(("impl_self", s(self.ty_s(tcx.type_of(cur).instantiate_identity().skip_norm_wip()))));
                    if of_trait {
                        let tr = tcx.impl_trait_ref(cur).instantiate_identity().skip_norm_wip();
                        o.push(("impl_trait", s(self.path(tr.def_id))));
                        o.push(("impl_trait_full", s(with_no_trimmed_paths!(format!("{}", tr)))));
                    }
                    break;
                }
                DefKind::Mod => break,
                _ => {}
            }
            match tcx.opt_parent(cur) {
                Some(p) => cur = p,
                None => break,
            }
        }
        o.push(("derived", J::Bool(derived)));
        if kind == DefKind::Closure {
            o.push(("parent", s(self.path(tcx.typeck_root_def_id(def_id)))));
        }
        if derived {
            return Some(J::Obj(o));
        }
        let env = TypingEnv::post_analysis(tcx, def_id);
        let is_const_ctx = matches!(
            kind,
            DefKind::Const { .. } | DefKind::AssocConst { .. } | DefKind::Static { .. }
        );
        if is_const_ctx {
            let body = tcx.mir_for_ctfe(def_id);
            o.push(("body", self.body(env, body)));
        } else {
            if !tcx.is_mir_available(def_id) {
                return Some(J::Obj(o));
            }
            let body = tcx.optimized_mir(def_id);
            o.push(("body", self.body(env, body)));
            // signature
            if matches!(kind, DefKind::Fn | DefKind::AssocFn) {
                let sig = tcx.fn_sig(def_id).instantiate_identity().skip_norm_wip();
                o.push(("sig", s(with_no_trimmed_paths!(format!("{}", sig)))));
            }
            let promoted = tcx.promoted_mir(def_id);
            let mut pj = Vec::new();
            for pb in promoted.iter() {
                pj.push(self.body(env, pb));
            }
            o.push(("promoted", J::Arr(pj)));
        }
        Some(J::Obj(o))
    }

    fn adt_item(&self, ldid: LocalDefId) -> Option<J> {
        let tcx = self.tcx;
        let def_id = ldid.to_def_id();
        let kind = tcx.def_kind(def_id);
        if !matches!(kind, DefKind::Enum | DefKind::Struct) {
            return None;
        }
        let adt = tcx.adt_def(def_id);
        let mut variants = Vec::new();
        for v in adt.variants().iter() {
            let mut fields = Vec::new();
            for fd in v.fields.iter() {
                let fty = tcx.type_of(fd.did).instantiate_identity().skip_norm_wip();
                fields.push(J::Obj(vec![("name", s(fd.name.to_string())), ("ty", s(self.ty_s(fty)))]));
            }
            variants.push(J::Obj(vec![("name", s(v.name.to_string())), ("fields", J::Arr(fields))]));
        }
        Some(J::Obj(vec![
            ("path", s(self.path(def_id))),
            ("kind", s(if kind == DefKind::Enum { "enum" } else { "struct" })),
            ("span", self.span(tcx.def_span(def_id))),
            ("variants", J::Arr(variants)),
        ]))
    }

    fn impl_item(&self, ldid: LocalDefId) -> Option<J> {
        let tcx = self.tcx;
        let def_id = ldid.to_def_id();
        if let DefKind::Impl { of_trait } = tcx.def_kind(def_id) {
            let mut o = vec![
                ("self", s(self.ty_s(tcx.type_of(def_id).instantiate_identity().skip_norm_wip()))),
                ("derived", J::Bool(tcx.is_automatically_derived(def_id))),
                ("span", self.span(tcx.def_span(def_id))),
            ];
            if of_trait {
                let tr = tcx.impl_trait_ref(def_id).instantiate_identity().skip_norm_wip();
                o.push(("trait", s(self.path(tr.def_id))));
                o.push(("trait_full", s(with_no_trimmed_paths!(format!("{}", tr)))));
            }
            let mut items = Vec::new();
            for it in tcx.associated_items(def_id).in_definition_order() {
                items.push(s(it.name().to_string()));
            }
            o.push(("items", J::Arr(items)));
            return Some(J::Obj(o));
        }
        None
    }

    fn const_item(&self, ldid: LocalDefId) -> Option<J> {
        let tcx = self.tcx;
        let def_id = ldid.to_def_id();
        let kind = tcx.def_kind(def_id);
        if !matches!(kind, DefKind::Const { .. } | DefKind::AssocConst { .. }) {
            return None;
        }
        let ty = tcx.type_of(def_id).instantiate_identity().skip_norm_wip();
        let mut o = vec![("path", s(self.path(def_id))), ("ty", s(self.ty_s(ty))), ("span", self.span(tcx.def_span(def_id)))];
        if tcx.generics_of(def_id).count() == 0 {
            if let Ok(cv) = tcx.const_eval_poly(def_id) {
                match cv {
                    ConstValue::Scalar(_) => {
                        if let Some(si) = cv.try_to_scalar_int() {
                            o.push(("int", s(si.to_bits(si.size()).to_string())));
                        }
                    }
                    ConstValue::Slice { .. } => {
                        if let Some(b) = cv.try_get_slice_bytes_for_diagnostics(tcx) {
                            o.push(("str", s(String::from_utf8_lossy(b).to_string())));
                        }
                    }
                    ConstValue::Indirect { alloc_id, offset } => {
                        // raw bytes of small plain-data constants (e.g. U256([1e18,0,0,0]))
                        if let Some(ga) = tcx.try_get_global_alloc(alloc_id) {
                            if let rustc_middle::mir::interpret::GlobalAlloc::Memory(a) = ga {
                                let a = a.inner();
                                if a.provenance().ptrs().is_empty() && a.len() <= 64 {
                                    let bytes = a.inspect_with_uninit_and_ptr_outside_interpreter(offset.bytes_usize()..a.len());
                                    let hex: String = bytes.iter().map(|b| format!("{:02x}", b)).collect();
                                    o.push(("bytes_le_hex", s(hex)));
                                }
                            }
                        }
                    }
                    _ => {}
                }
            }
        }
        Some(J::Obj(o))
    }
}

struct Cb;

impl rustc_driver::Callbacks for Cb {
    fn after_analysis<'tcx>(&mut self, _c: &rustc_interface::interface::Compiler, tcx: TyCtxt<'tcx>) -> Compilation {
        let dir = match std::env::var("HALO_FACTS_DIR") {
            Ok(d) if !d.is_empty() => d,
            _ => return Compilation::Continue,
        };
        let crate_name = tcx.crate_name(rustc_hir::def_id::LOCAL_CRATE).to_string();
        let wanted = std::env::var("HALO_FACTS_CRATES").unwrap_or_default();
        if !wanted.is_empty() && !wanted.split(',').any(|w| w == crate_name) {
            return Compilation::Continue;
        }
        // only library targets; skip build scripts, examples and test harnesses
        let is_test = tcx.sess.opts.test;
        let crate_types = tcx.crate_types();
        let is_lib = crate_types.iter().any(|t| {
            matches!(
                t,
                rustc_session_crate_type::Rlib | rustc_session_crate_type::Cdylib | rustc_session_crate_type::Dylib
            )
        });
        if is_test || !is_lib {
            return Compilation::Continue;
        }
        let cx = Cx { tcx };
        let _g1 = rustc_middle::ty::print::CrateNamePrefixGuard::new();
        let mut fns = Vec::new();
        let mut adts = Vec::new();
        let mut impls = Vec::new();
        let mut consts = Vec::new();
        for ldid in tcx.hir_body_owners() {
            if let Some(j) = cx.fn_item(ldid) {
                fns.push(j);
            }
        }
        for ldid in tcx.hir_crate_items(()).definitions() {
            if let Some(j) = cx.adt_item(ldid) {
                adts.push(j);
            }
            if let Some(j) = cx.impl_item(ldid) {
                impls.push(j);
            }
            if let Some(j) = cx.const_item(ldid) {
                consts.push(j);
            }
        }
        let out = J::Obj(vec![
            ("crate", s(crate_name.clone())),
            ("nonce", s(std::env::var("HALO_FACTS_NONCE").unwrap_or_default())),
            ("rustc", s(option_env!("CFG_VERSION").unwrap_or("nightly"))),
            ("overflow_checks", J::Bool(tcx.sess.overflow_checks())),
            ("opt_level", s(format!("{:?}", tcx.sess.opts.optimize))),
            ("fns", J::Arr(fns)),
            ("adts", J::Arr(adts)),
            ("impls", J::Arr(impls)),
            ("consts", J::Arr(consts)),
        ]);
        let mut text = String::new();
        out.write(&mut text);
        let path = format!("{}/{}.json", dir, crate_name);
        let tmp = format!("{}.tmp.{}", path, std::process::id());
        std::fs::write(&tmp, text).expect("write facts");
        std::fs::rename(&tmp, &path).expect("rename facts");
        Compilation::Continue
    }
}

use rustc_session::config::CrateType as rustc_session_crate_type;
extern crate rustc_session;

fn main() {
    let mut args: Vec<String> = std::env::args().collect();
    // RUSTC_WORKSPACE_WRAPPER passes the rustc path as argv[1]
    if args.len() > 1 && (args[1].ends_with("rustc") || args[1].ends_with("rustc-shim.sh")) {
        args.remove(1);
    }
    rustc_driver::run_compiler(&args, &mut Cb);
}
