import json,os,re,glob
CH={'C07','C08','C09','C10','C15'}
bad=0; n=0
for f in glob.glob('/tmp/wt/reg.seeded.*.log'):
    for l in open(f):
        m=re.match(r"^(\S+)\s+(own-property|seeded-for)\((\w+)\).*fired: (\[.*\])\s*$", l)
        if not m: continue
        n+=1
        sid=m.group(1); fired=set(eval(m.group(4)))
        mp='/verif/seeded/%s/meta.json'%sid
        old=set(json.load(open(mp)).get('detected_by') or [])&CH
        if fired!=old:
            bad+=1; print('SEEDED DIFF',sid,'was',sorted(old),'now',sorted(fired))
print('seeded compared',n,'diffs',bad)
for kind in ('refactors','benign'):
    n=0
    for f in glob.glob('/tmp/wt/reg.%s.*.log'%kind):
        for l in open(f):
            if re.match(r"^\S+\s+(clean|FALSE ALARM|false alarm|ALARM|alarm|not-benign)", l) or 'recorded' in l:
                n+=1
            if 'FALSE ALARM' in l or ('ALARM' in l and 'recorded' not in l):
                print(kind.upper(), l.strip()[:200])
    print(kind,'lines',n)
