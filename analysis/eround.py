"""E-ROUND: rounding-direction / error-budget analysis (DESIGN §2.2).

Numeric values of the MIR value graph are translated into exact rational terms over the
function's non-negative inputs; every truncating primitive contributes one *floor atom*
(hash-consed by its argument, so correlated uses share it).  An obligation `T >= 0` is
decided by replacing each floor atom F = floor(R) by R - eps (eps in [0,1]), checking
multilinearity in the eps / box symbols, substituting every vertex of the box and testing
that all coefficients of numerator and denominator are >= 0 (no solver, no search)."""
import itertools
import re
from fractions import Fraction

from . import common
from .mir import generic_path

D18 = 10 ** 18


def _gcd(a, b):
    while b:
        a, b = b, a % b
    return a


# ---------------------------------------------------------------------------------------
# polynomials over Q with named atoms

class Poly:
    __slots__ = ("t",)

    def __init__(self, t=None):
        self.t = {}
        if t:
            for m, c in t.items():
                if c != 0:
                    self.t[m] = Fraction(c)

    @staticmethod
    def const(c):
        return Poly({(): Fraction(c)}) if c != 0 else Poly()

    @staticmethod
    def var(name):
        return Poly({((name, 1),): Fraction(1)})

    def __add__(self, o):
        r = dict(self.t)
        for m, c in o.t.items():
            r[m] = r.get(m, 0) + c
        return Poly(r)

    def __neg__(self):
        return Poly({m: -c for m, c in self.t.items()})

    def __sub__(self, o):
        return self + (-o)

    def __mul__(self, o):
        r = {}
        for m1, c1 in self.t.items():
            for m2, c2 in o.t.items():
                d = dict(m1)
                for a, e in m2:
                    d[a] = d.get(a, 0) + e
                m = tuple(sorted(d.items()))
                r[m] = r.get(m, 0) + c1 * c2
        return Poly(r)

    def is_zero(self):
        return not self.t

    def is_const(self):
        return all(m == () for m in self.t)

    def const_value(self):
        return self.t.get((), Fraction(0))

    def atoms(self):
        s = set()
        for m in self.t:
            for a, e in m:
                s.add(a)
        return s

    def degree_in(self, atom):
        d = 0
        for m in self.t:
            for a, e in m:
                if a == atom:
                    d = max(d, e)
        return d

    def subst(self, atom, p):
        """Replace atom by polynomial p."""
        r = Poly()
        for m, c in self.t.items():
            rest = tuple((a, e) for a, e in m if a != atom)
            e = dict(m).get(atom, 0)
            term = Poly({rest: c})
            for _ in range(e):
                term = term * p
            r = r + term
        return r

    def key(self):
        return tuple(sorted((m, c) for m, c in self.t.items()))

    def __eq__(self, o):
        return isinstance(o, Poly) and self.t == o.t

    def __hash__(self):
        return hash(self.key())

    def show(self):
        if not self.t:
            return "0"
        parts = []
        for m, c in sorted(self.t.items(), key=lambda x: (len(x[0]), x[0])):
            mon = "*".join("%s%s" % (a, "^%d" % e if e > 1 else "") for a, e in m)
            if not mon:
                parts.append(str(c))
            elif c == 1:
                parts.append(mon)
            elif c == -1:
                parts.append("-" + mon)
            else:
                parts.append("%s*%s" % (c, mon))
        return " + ".join(parts).replace("+ -", "- ")


class RF:
    """Rational function num/den (den not identically zero). No gcd normalisation; equality by cross-multiplication."""
    __slots__ = ("n", "d")

    def __init__(self, n, d=None):
        if isinstance(n, (int, Fraction)):
            n = Poly.const(n)
        if d is None:
            d = Poly.const(1)
        if d.is_const():
            c = d.const_value()
            if c == 0:
                raise ZeroDivisionError("zero denominator")
            n = n * Poly.const(1 / c)
            d = Poly.const(1)
        elif n.is_zero():
            d = Poly.const(1)
        self.n, self.d = n, d

    @staticmethod
    def var(name):
        return RF(Poly.var(name))

    def __add__(self, o):
        o = _rf(o)
        if self.d == o.d:
            return RF(self.n + o.n, self.d)
        return RF(self.n * o.d + o.n * self.d, self.d * o.d)

    def __neg__(self):
        return RF(-self.n, self.d)

    def __sub__(self, o):
        return self + (-_rf(o))

    def __mul__(self, o):
        o = _rf(o)
        return RF(self.n * o.n, self.d * o.d)

    def __truediv__(self, o):
        o = _rf(o)
        if o.n.is_zero():
            raise ZeroDivisionError("division by the zero term")
        return RF(self.n * o.d, self.d * o.n)

    def equals(self, o):
        o = _rf(o)
        return (self.n * o.d - o.n * self.d).is_zero()

    def is_poly(self):
        return self.d.is_const()

    def atoms(self):
        return self.n.atoms() | self.d.atoms()

    def subst(self, atom, rf):
        """Replace atom by a rational function."""
        rf = _rf(rf)
        dn = max(self.n.degree_in(atom), self.d.degree_in(atom))
        if dn == 0:
            return self

        def sub_poly(p):
            # p(atom := a/b) * b^dn  as polynomial
            r = Poly()
            for m, c in p.t.items():
                rest = tuple((a, e) for a, e in m if a != atom)
                e = dict(m).get(atom, 0)
                term = Poly({rest: c})
                for _ in range(e):
                    term = term * rf.n
                for _ in range(dn - e):
                    term = term * rf.d
                r = r + term
            return r
        return RF(sub_poly(self.n), sub_poly(self.d))

    def show(self):
        if self.d.is_const():
            return self.n.show()
        return "(%s) / (%s)" % (self.n.show(), self.d.show())


def _rf(x):
    if isinstance(x, RF):
        return x
    if isinstance(x, Poly):
        return RF(x)
    return RF(Poly.const(x))


# ---------------------------------------------------------------------------------------
# floor atoms

class Floors:
    """Registry of floor atoms: F_k = floor(arg_k); the same argument yields the same atom."""

    def __init__(self):
        self.items = []       # (name, RF arg, origin string)
        self.integral_vars = set()

    def is_integral(self, rf):
        """Polynomial with integer coefficients in integral atoms (variables declared integral and floor atoms)."""
        if not rf.is_poly():
            return False
        for m, c in rf.n.t.items():
            if c.denominator != 1:
                return False
            for a, e in m:
                if not (a in self.integral_vars or a.startswith("F")):
                    return False
        return True

    def floor(self, rf, origin):
        rf = _rf(rf)
        if self.is_integral(rf):
            return rf
        # nested floor: floor(F_j / k) with F_j = floor(k * R')  ==  floor(R')   (k positive integer constant)
        if rf.is_poly() and len(rf.n.t) == 1:
            (m, c), = rf.n.t.items()
            if len(m) == 1 and m[0][1] == 1 and m[0][0].startswith("F") and c.numerator == 1 and c.denominator > 1:
                k = c.denominator
                inner = self.arg_of(m[0][0])
                cand = inner * RF(Fraction(1, k))
                # only valid when inner == k * R' syntactically, i.e. always (R' = inner/k): floor(floor(z)/k) = floor(z/k)
                return self.floor(cand, origin + " ∘ " + self.origin_of(m[0][0]))
        for name, arg, org in self.items:
            if arg.equals(rf):
                return RF.var(name)
        name = "F%d" % len(self.items)
        self.items.append((name, rf, origin))
        return RF.var(name)

    def arg_of(self, name):
        for n, a, o in self.items:
            if n == name:
                return a
        raise KeyError(name)

    def origin_of(self, name):
        for n, a, o in self.items:
            if n == name:
                return o
        return "?"

    def eps_max(self, eps_name):
        """Upper end of the noise interval of floor atom F_k: the fractional part of (integral polynomial)/q is at most 1 - 1/q."""
        try:
            arg = self.arg_of("F" + eps_name[1:])
        except KeyError:
            return Fraction(1)
        if arg.is_poly():
            den = 1
            for m, c in arg.n.t.items():
                for a, e in m:
                    if not (a in self.integral_vars or a.startswith("F")):
                        return Fraction(1)
                den = den * c.denominator // _gcd(den, c.denominator)
            if den >= 1:
                return Fraction(den - 1, den)
        return Fraction(1)

    def expand(self, rf):
        """Replace every floor atom F_k by (arg_k - e_k), recursively. Returns (RF, {eps name: origin})."""
        rf = _rf(rf)
        eps = {}
        changed = True
        guard = 0
        while changed and guard < 50:
            guard += 1
            changed = False
            for a in sorted(rf.atoms()):
                if a.startswith("F"):
                    e = "e" + a[1:]
                    eps[e] = self.origin_of(a)
                    rf = rf.subst(a, self.arg_of(a) - RF.var(e))
                    changed = True
                    break
        return rf, eps


# ---------------------------------------------------------------------------------------
# the decision procedure

class Verdict:
    def __init__(self, ok, reason="", vertex=None, excess=None, evaluations=0, eps=None):
        self.ok, self.reason, self.vertex, self.excess, self.evaluations, self.eps = ok, reason, vertex, excess, evaluations, eps or {}


def nonneg(floors, term, box=(), subst=None, strict_den=True):
    """Decide term >= 0 for all variables >= 0, all eps in [0,1], all box symbols in [0,1].
    `subst`: ordered list of (atom, RF) certificate substitutions applied first (to the floor-expanded term)."""
    rf, eps = floors.expand(term)
    for atom, repl in (subst or []):
        r2, e2 = floors.expand(repl)
        eps.update(e2)
        rf = rf.subst(atom, r2)
    boxsyms = sorted(eps) + [b for b in box if b in rf.atoms()]
    boxsyms = [b for b in boxsyms if b in rf.atoms()]
    for b in boxsyms:
        if rf.n.degree_in(b) > 1 or rf.d.degree_in(b) > 1:
            return Verdict(False, "not multilinear in %s (degree > 1): cannot decide by vertex enumeration" % b, eps=eps)
    if len(boxsyms) > 16:
        return Verdict(False, "too many rounding symbols (%d)" % len(boxsyms), eps=eps)
    evals = 0
    hi = {b: (floors.eps_max(b) if b in eps else Fraction(1)) for b in boxsyms}
    for bits0 in itertools.product((0, 1), repeat=len(boxsyms)):
        bits = tuple((hi[b] if x else 0) for b, x in zip(boxsyms, bits0))
        evals += 1
        n, d = rf.n, rf.d
        for b, val in zip(boxsyms, bits):
            n = n.subst(b, Poly.const(val))
            d = d.subst(b, Poly.const(val))
        # sign normalisation: denominator must be non-negative with a positive coefficient
        dneg = [c for c in d.t.values() if c < 0]
        dpos = [c for c in d.t.values() if c > 0]
        if dneg and not dpos:
            n, d = -n, -d
            dneg, dpos = [], [c for c in d.t.values() if c > 0]
        vertex = {b: v for b, v in zip(boxsyms, bits)}
        if dneg or not dpos:
            return Verdict(False, "denominator sign not determined at vertex %s: %s" % (vertex, d.show()[:200]), vertex, None, evals, eps)
        bad = [(m, c) for m, c in n.t.items() if c < 0]
        if bad:
            return Verdict(False, "negative coefficient(s) at vertex", vertex, RF(-n, d).show()[:300], evals, eps)
    return Verdict(True, "", None, None, evals, eps)


# ---------------------------------------------------------------------------------------
# value graph -> terms

class Unsupported(Exception):
    pass


CONVERSIONS = [
    r"^<bignumber::(math::)?Uint256 as (core|std)::convert::From<cosmwasm_std::(\S*::)?Uint128>>::from$",
    r"^<bignumber::(math::)?Uint256 as (core|std)::convert::From<u128>>::from$",
    r"^<bignumber::(math::)?Uint256 as (core|std)::convert::From<u64>>::from$",
    r"^<bignumber::(math::)?Uint256 as (core|std)::convert::From<bigint::\S*U256>>::from$",
    r"^<bigint::\S*U256 as (core|std)::convert::From<bignumber::(math::)?Uint256>>::from$",
    r"^<cosmwasm_std::(\S*::)?Uint128 as (core|std)::convert::From<bignumber::(math::)?Uint256>>::from$",
    r"^<u128 as (core|std)::convert::From<bignumber::(math::)?Uint256>>::from$",
    r"^<cosmwasm_std::(\S*::)?Uint128 as (core|std)::convert::From<u128>>::from$",
    r"^<cosmwasm_std::(\S*::)?Uint128 as (core|std)::convert::From<u64>>::from$",
    r"^<bignumber::(math::)?Decimal256 as (core|std)::convert::From<cosmwasm_std::(\S*::)?Decimal>>::from$",
    r"^<cosmwasm_std::(\S*::)?Decimal as (core|std)::convert::From<bignumber::(math::)?Decimal256>>::from$",
    r"^<bigint::\S*U256 as (core|std)::convert::From<u64>>::from$",
    r"^<bigint::\S*U256 as (core|std)::convert::From<u128>>::from$",
    r"^<bigint::\S*U256 as (core|std)::convert::From<u32>>::from$",
    r"^<bigint::\S*U256 as (core|std)::convert::From<i32>>::from$",
    r"^<\S+ as (core|std)::convert::Into<\S+>>::into$",
    r"^<T as (core|std)::convert::Into<U>>::into$",
    r"^(core|std)::convert::(Into::into|From::from)$",
    r"^cosmwasm_std::(\S*::)?Uint128::(u128|new)$",
    r"^<\S+ as (core|std)::clone::Clone>::clone$",
    r"^<\S+ as (core|std)::convert::From<\S+>>::from$",
]
_CONV = [re.compile(x) for x in CONVERSIONS]


def is_conversion(callee):
    return any(r.match(callee) for r in _CONV)


class Translator:
    """Translates values of one analysis session into RF terms; owns the floor registry and the abort obligations."""

    def __init__(self, P, use_summaries=True, exclude=None):
        self.P = P
        self.exclude = exclude
        self.floors = Floors()
        self.aborts = []          # (kind, RF, origin)
        self.use_summaries = use_summaries
        self.vars = {}
        self.depth = 0
        self.used_bignum = set()   # bignumber functions whose reference summary was applied
        self.visited_calls = set() # (fn path, bb) of every call the translator interpreted
        if not hasattr(P, "_translators"):
            P._translators = []
        P._translators.append(self)

    def var(self, name, integral=True):
        if integral:
            self.floors.integral_vars.add(name)
        return RF.var(name)

    # -- helpers
    def origin(self, v):
        if v[0] == "call":
            f = self.P.fn(v[1].split("#")[0])
            sp = common.span_of_block_term(f, v[2]) if f and f.body and v[2] < len(f.body.blocks) else "?"
            return "%s at %s" % (common.short_path(v[3]) if isinstance(v[3], str) else "call", sp)
        return "?"

    def tr(self, v, env):
        """Translate value v under env ({('param', fn, i): RF or value-thunk}). Returns RF."""
        self.depth += 1
        if self.depth > 200:
            raise Unsupported("recursion too deep")
        try:
            return self._tr(v, env)
        finally:
            self.depth -= 1

    def _tr(self, v, env):
        k = v[0]
        if v in env:
            return env[v]
        if k == "proj" and v[1][0] == "param" and v[1][2] == 0 and v[2][0] == "f" and isinstance(v[2][1], int):
            cf = self.P.fn(v[1][1])
            if cf is not None and cf.kind == "closure":
                site = self.P.closure_site(cf.path)
                if site is not None:
                    pf, b, i, rv = site
                    if v[2][1] < len(rv["ops"]):
                        pv = self.P.val_operand(pf, (b, i), rv["ops"][v[2][1]], pf.body)
                        return self.tr(pv, env)
        if k == "param":
            if v in env:
                x = env[v]
                return x
            raise Unsupported("free parameter %s#%d" % (v[1], v[2]))
        if k == "const":
            if v[1] == "int":
                return RF(v[2])
            if v[1] == "item":
                c = self.P.consts.get(v[2])
                if c and "bytes_le_hex" in c:
                    return RF(int.from_bytes(bytes.fromhex(c["bytes_le_hex"]), "little"))
                if c and "int" in c:
                    return RF(int(c["int"]))
                raise Unsupported("constant item %s" % v[2])
            raise Unsupported("constant %s" % (v,))
        if k == "agg":
            name = str(v[2])
            if v[1] == "adt" and len(v[3]) == 1 and re.search(r"(Decimal256|Uint256|Uint128|Decimal)$", name):
                return self.tr(v[3][0][1], env)
            if v[1] == "adt" and name.endswith("U256") and len(v[3]) == 1:
                arr = v[3][0][1]
                if arr[0] == "agg" and arr[1] == "array":
                    limbs = [self.tr(x, env) for _, x in arr[3]]
                    if all(l.is_poly() and l.n.is_const() for l in limbs):
                        val = 0
                        for i, l in enumerate(limbs):
                            val += int(l.n.const_value()) << (64 * i)
                        return RF(val)
                raise Unsupported("U256 limb array with non-constant limbs")
            if v[1] == "adt" and (name.endswith("Result::Ok") or name.endswith("Option::Some")):
                return self.tr(v[3][0][1], env)
            raise Unsupported("aggregate %s" % name)
        if k == "proj":
            base, e = v[1], v[2]
            if e[0] == "v" and e[1] in ("Continue", "Ok", "Some"):
                return self.tr(base, env)
            if e[0] == "f" and str(e[1]) == "0":
                # newtype payload (.0) or first tuple component
                if base[0] == "proj" and base[2][0] == "v":
                    return self.tr(base, env)
                comp = self.components(base, env)
                if comp is not None:
                    return comp[0]
                return self.tr(base, env)
            if e[0] == "f" and isinstance(e[1], int):
                comp = self.components(base, env)
                if comp is not None and e[1] < len(comp):
                    return comp[e[1]]
            if e[0] == "f" and e[1] == "amount":
                sub = self.field_env(base, "amount", env)
                if sub is not None:
                    return sub
            raise Unsupported("projection %s of %s" % (e, base[0]))
        if k == "call":
            return self.tr_call(v, env)
        if k == "phi":
            raise Unsupported("phi (use cases())")
        if k == "cast":
            return self.tr(v[2], env)
        if k == "binop":
            a, b = self.tr(v[2], env), self.tr(v[3], env)
            op = v[1]
            if op in ("Add", "AddWithOverflow", "AddUnchecked"):
                return a + b
            if op in ("Mul", "MulWithOverflow", "MulUnchecked"):
                return a * b
            if op in ("Sub", "SubWithOverflow", "SubUnchecked"):
                self.aborts.append(("nonneg", a - b, "primitive subtraction"))
                return a - b
            if op == "Div":
                self.aborts.append(("nonzero", b, "primitive division"))
                return self.floors.floor(a / b, "primitive /")
            raise Unsupported("binop %s" % op)
        raise Unsupported("value kind %s" % k)

    def field_env(self, base, name, env):
        key = ("field", base, name)
        return env.get(key)

    def components(self, v, env):
        """Tuple-valued value -> list of RF components (tuple aggregate, or inlined workspace call returning a tuple)."""
        triples = list((getattr(self.P, "_triple_fields", None) or {}).values())
        if v[0] == "agg" and (v[1] == "tuple" or (v[1] == "adt" and [n for n, _ in v[3]] in triples)):
            out = []
            for _, x in v[3]:
                try:
                    out.append(self.tr(x, env))
                except Unsupported as e:
                    if not getattr(self, "lenient", False):
                        raise
                    out.append(None)
            return out
        if v[0] == "proj" and v[2] == ("f", 0) and v[1][0] == "binop" and v[1][1].endswith("WithOverflow"):
            return None
        if v[0] == "binop" and v[1].endswith("WithOverflow"):
            a, b = self.tr(v[2], env), self.tr(v[3], env)
            op = v[1]
            val = a + b if op.startswith("Add") else a * b if op.startswith("Mul") else a - b
            if op.startswith("Sub"):
                self.aborts.append(("nonneg", val, "checked primitive subtraction"))
            return [val, RF(0)]
        if v[0] == "call" and isinstance(v[3], str):
            f = self.P.fn(v[3]) or self.P.fn(generic_path(v[3]))
            if f is not None and f.body is not None and not is_conversion(v[3]) and self.summary(v, env, probe=True) is None:
                ret = self.inline_ret(f, v, env)
                if ret is not None and ret[0] == "agg" and ret[1] == "tuple":
                    env2 = self.callee_env(f, v, env)
                    return [self.tr(x, env2) for _, x in ret[3]]
        return None

    def callee_env(self, f, v, env):
        env2 = {}
        for i, a in enumerate(v[4]):
            try:
                env2[("param", f.path, i)] = self.tr(a, env)
            except Unsupported:
                pass
        return env2

    def inline_ret(self, f, v, env):
        exits = [x for x in common.exit_sites(self.P, f)]
        if len(exits) != 1:
            return None
        return exits[0][3]

    # -- calls
    def summary(self, v, env, probe=False):
        """Reference semantics of numeric primitives (external crates; bignumber when use_summaries)."""
        callee = v[3]
        g = generic_path(callee)
        a = v[4]
        F = self.floors
        org = None if probe else self.origin(v)

        def T(i):
            return self.tr(a[i], env)
        name = common.last_seg(g)
        ext = None
        # ---- bigint::U256 primitives (axioms)
        if re.match(r"^<bigint::\S*U256 as (core|std)::ops::(Add|Sub|Mul|Div|Rem)(<\S+>)?>::(add|sub|mul|div|rem)$", callee):
            if probe:
                return True
            x, y = T(0), T(1)
            if name == "add":
                self.aborts.append(("fits256", x + y, org))
                return x + y
            if name == "mul":
                self.aborts.append(("fits256", x * y, org))
                return x * y
            if name == "sub":
                self.aborts.append(("nonneg", x - y, org))
                return x - y
            if name == "div":
                self.aborts.append(("nonzero", y, org))
                return F.floor(x / y, org)
            if name == "rem":
                self.aborts.append(("nonzero", y, org))
                return x - y * F.floor(x / y, org)
        # ---- cosmwasm-std
        if re.match(r"^cosmwasm_std::(\S*::)?Uint128::multiply_ratio$", g):
            if probe:
                return True
            s_, n, d = T(0), T(1), T(2)
            self.aborts.append(("nonzero", d, org))
            self.aborts.append(("fits128", s_ * n / d, org))
            return F.floor(s_ * n / d, org)
        if re.match(r"^cosmwasm_std::(\S*::)?Decimal::from_ratio$", g):
            if probe:
                return True
            n, d = T(0), T(1)
            self.aborts.append(("nonzero", d, org))
            self.aborts.append(("fits128", n * RF(D18) / d, org))
            return F.floor(n * RF(D18) / d, org)
        if re.match(r"^<cosmwasm_std::(\S*::)?Uint128 as (core|std)::ops::Mul<cosmwasm_std::(\S*::)?Decimal>>::mul$", callee) or \
                re.match(r"^cosmwasm_std::\S*<impl (core|std)::ops::Mul<cosmwasm_std::(\S*::)?Decimal> for cosmwasm_std::(\S*::)?Uint128>::mul$", callee):
            if probe:
                return True
            u, d = T(0), T(1)
            self.aborts.append(("fits128", u * d / RF(D18), org))
            return F.floor(u * d / RF(D18), org)
        if re.match(r"^cosmwasm_std::(\S*::)?Uint128::checked_(sub|mul|add)$", g):
            if probe:
                return True
            x, y = T(0), T(1)
            if name == "checked_sub":
                self.aborts.append(("nonneg", x - y, org))
                return x - y
            if name == "checked_mul":
                self.aborts.append(("fits128", x * y, org))
                return x * y
            self.aborts.append(("fits128", x + y, org))
            return x + y
        if re.match(r"^cosmwasm_std::(\S*::)?Decimal::one$", g):
            return True if probe else RF(D18)
        if re.match(r"^cosmwasm_std::(\S*::)?(Uint128|Decimal)::zero$", g):
            return True if probe else RF(0)
        if re.match(r"^cosmwasm_std::(\S*::)?Uint128::one$", g):
            return True if probe else RF(1)
        if not self.use_summaries:
            return None
        # ---- bignumber reference summaries (verified against math.rs by C08)
        S = BIGNUM_SUMMARIES
        if self.exclude is not None:
            tgt = self.P.fn(callee) or self.P.fn(g)
            if tgt is not None and tgt.path == self.exclude:
                return None
        for rx, fn_ in S:
            if rx.match(callee) or rx.match(g):
                if probe:
                    return True
                tgt_ = self.P.fn(callee) or self.P.fn(g)
                self.used_bignum.add(tgt_.path if tgt_ is not None else g)
                return fn_(self, [T(i) for i in range(len(a))], org)
        return None

    def tr_call(self, v, env):
        callee = v[3]
        fp_ = str(v[1])
        if self.P.fn(fp_) is None:
            fp_ = fp_.rsplit("#", 1)[0]
        self.visited_calls.add((fp_, v[2]))
        if not isinstance(callee, str):
            raise Unsupported("dynamic call")
        if common.is_try_branch(callee):
            return self.tr(v[4][0], env)
        g = generic_path(callee)
        if g.endswith("result::Result::unwrap") or g.endswith("option::Option::unwrap") or g.endswith("::expect"):
            return self.tr(v[4][0], env)
        s_ = self.summary(v, env)
        if s_ is not None:
            return s_
        if is_conversion(callee) or is_conversion(g):
            # a conversion that lands in a workspace impl (Uint256 -> Uint128 ...) is used like an operation: its exactness
            # is C08.R4's verdict, imported by the arithmetic-base instance
            f_ = self.P.fn(fp_)
            if f_ is not None and f_.body is not None and isinstance(v[2], int) and v[2] < len(f_.body.blocks):
                t_ = f_.body.blocks[v[2]]["term"]
                cg = common.resolve_conversion(self.P, (t_.get("func") or {}).get("fn")) if t_.get("k") == "call" else None
                if cg is None:
                    cg = self.P.fn(callee)
                if cg is not None and cg.crate == "bignumber":
                    self.used_bignum.add(cg.path)
                    src_ = re.search(r"From<(.+?)>+$", cg.j.get("impl_trait_full") or "")
                    dst_ = cg.impl_self or ""
                    if src_ and ("Decimal256" in dst_) != ("Decimal" in src_.group(1)) and cg.body is not None:
                        # integer <-> fixed-point: a *scaling* conversion (`From<Uint256> for Decimal256` multiplies the raw value
                        # by 10^18) is an operation, interpreted from its own body like any other callee
                        exits_ = common.exit_sites(self.P, cg)
                        if len(exits_) == 1:
                            return self.tr(exits_[0][3], self.callee_env(cg, v, env))
            return self.tr(v[4][0], env)
        f = self.P.fn(callee) or self.P.fn(g)
        if f is not None and f.body is not None:
            exits = common.exit_sites(self.P, f)
            if len(exits) == 1:
                env2 = self.callee_env(f, v, env)
                return self.tr(exits[0][3], env2)
            raise Unsupported("callee %s has %d exits (use cases())" % (f.path, len(exits)))
        raise Unsupported("unknown numeric callee %s" % g)


def _sum_from_ratio(tr, a, org):
    tr.aborts.append(("nonzero", a[1], org))
    tr.aborts.append(("fits256", a[0] * RF(D18), org))
    return tr.floors.floor(a[0] * RF(D18) / a[1], org)


def _sum_mul_ud(tr, a, org):
    tr.aborts.append(("fits256", a[0] * a[1], org))
    return tr.floors.floor(a[0] * a[1] / RF(D18), org)


def _sum_div_ud(tr, a, org):
    tr.aborts.append(("nonzero", a[1], org))
    tr.aborts.append(("fits256", a[0] * RF(D18), org))
    return tr.floors.floor(a[0] * RF(D18) / a[1], org)


def _sum_mulratio(tr, a, org):
    tr.aborts.append(("nonzero", a[2], org))
    tr.aborts.append(("fits256", a[0] * a[1], org))
    return tr.floors.floor(a[0] * a[1] / a[2], org)


def _sum_sub(tr, a, org):
    tr.aborts.append(("nonneg", a[0] - a[1], org))
    return a[0] - a[1]


def _sum_add(tr, a, org):
    tr.aborts.append(("fits256", a[0] + a[1], org))
    return a[0] + a[1]


def _sum_mul(tr, a, org):
    tr.aborts.append(("fits256", a[0] * a[1], org))
    return a[0] * a[1]


_BN = r"bignumber::(math::)?"
_OPS = r"(core|std)::ops::"
BIGNUM_SUMMARIES = [
    (re.compile(r"^%sDecimal256::from_ratio$" % _BN), _sum_from_ratio),
    (re.compile(r"^%sDecimal256::from_uint256$" % _BN), lambda tr, a, org: (tr.aborts.append(("fits256", a[0] * RF(D18), org)), a[0] * RF(D18))[1]),
    (re.compile(r"^%sDecimal256::one$" % _BN), lambda tr, a, org: RF(D18)),
    (re.compile(r"^%s(Decimal256|Uint256)::zero$" % _BN), lambda tr, a, org: RF(0)),
    (re.compile(r"^%sUint256::one$" % _BN), lambda tr, a, org: RF(1)),
    (re.compile(r"^<%sDecimal256 as %sAdd>::add$" % (_BN, _OPS)), _sum_add),
    (re.compile(r"^<%sDecimal256 as %sSub>::sub$" % (_BN, _OPS)), _sum_sub),
    (re.compile(r"^<%sDecimal256 as %sMul>::mul$" % (_BN, _OPS)), lambda tr, a, org: _sum_mul_ud(tr, a, org)),
    (re.compile(r"^<%sDecimal256 as %sDiv>::div$" % (_BN, _OPS)), lambda tr, a, org: _sum_div_ud(tr, a, org)),
    (re.compile(r"^<%sUint256 as %sAdd>::add$" % (_BN, _OPS)), _sum_add),
    (re.compile(r"^<%sUint256 as %sSub>::sub$" % (_BN, _OPS)), _sum_sub),
    (re.compile(r"^<%sUint256 as %sMul>::mul$" % (_BN, _OPS)), _sum_mul),
    (re.compile(r"^<%sUint256 as %sMul<%sUint256>>::mul$" % (_BN, _OPS, _BN)), _sum_mul),
    (re.compile(r"^<%sUint256 as %sMul<%sDecimal256>>::mul$" % (_BN, _OPS, _BN)), _sum_mul_ud),
    (re.compile(r"^<%sDecimal256 as %sMul<%sUint256>>::mul$" % (_BN, _OPS, _BN)), lambda tr, a, org: _sum_mul_ud(tr, [a[1], a[0]], org)),
    (re.compile(r"^<%sUint256 as %sDiv<%sDecimal256>>::div$" % (_BN, _OPS, _BN)), _sum_div_ud),
    (re.compile(r"^%sUint256::multiply_ratio$" % _BN), _sum_mulratio),
]
