#!/usr/bin/env python3
"""MANIFEST.setup_cmd: builds the fact-extraction driver and warms the dependency cache (offline)."""
import os, sys, time
V = os.path.dirname(os.path.dirname(os.path.abspath(__file__)))
sys.path.insert(0, V)
from analysis import facts
t = time.time()
facts.ensure_driver()
print("driver ok %.1fs" % (time.time() - t))
d = facts.build_facts("dev")
print("facts", d, "%.1fs" % (time.time() - t))
