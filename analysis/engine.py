"""Check front-end: runs the rule instances of one property on the current tree,
applies floors / known findings, writes evidence and violation files."""
import json
import re
import os
import sys
import time
import traceback

from . import facts, mir, common

VERIF = facts.VERIF
EVID = os.path.join(VERIF, "evidence")


class Instance:
    def __init__(self, iid, desc):
        self.id = iid
        self.desc = desc
        self.status = "pass"
        self.sites = []          # human readable matched sites
        self.failures = []       # dicts: key, fn, span, reason
        self.evaluations = 0
        self.floor = None
        self.notes = []

    def site(self, s):
        self.sites.append(s)
        self.evaluations += 1

    def fail(self, key, fn, span, reason):
        self.status = "fail"
        self.failures.append({"key": key, "fn": fn, "span": span, "reason": reason})


class Ctx:
    def __init__(self, prop, P, tier="quick", seed=0, P_release=None):
        self.prop = prop
        self.P = P
        common.CURRENT_P[0] = P
        self.P_release = P_release
        self.tier = tier
        self.seed = seed
        from . import names
        self.N = names.get(P)
        self.R = common.Roots(P)
        self.instances = []
        self.assumptions = []
        self.trusted = []
        self.extra = {}
        self._tr_mark = len(getattr(P, "_translators", []))

    def inst(self, iid, desc, floor=None):
        i = Instance(iid, desc)
        i.floor = floor
        self.instances.append(i)
        return i

    def finish_floor(self, i):
        """Fail closed when an instance matched fewer sites than counted by hand on the pinned tree."""
        if i.floor is not None and len(i.sites) < i.floor and i.status == "pass":
            i.fail("%s:floor" % i.id, "-", "-", "anchor-missing: matched %d site(s), expected at least %d" % (len(i.sites), i.floor))

    # convenience
    def fn(self, path):
        return self.P.fn(path)

    def roots(self, v, path=()):
        return self.R.roots(v, path)

    def show(self, v, d=5):
        return mir.show(v, maxdepth=d)


def load_known():
    p = os.path.join(VERIF, "known_findings.json")
    if not os.path.exists(p):
        return {"open": [], "fixed": []}
    with open(p) as fh:
        return json.load(fh)


_STRUCTURAL = re.compile(r"anchor-missing|unrecognised-idiom|analysis error")


def _program(facts_dir):
    """The program the rules run on.  VERIF_INLINE=1: with the single-call-site helpers of the contract crates merged into
    their callers (mir.inline_single_call_helpers) — the same program, normalised; used only as a second attempt after a
    structural failure (an anchor or idiom not recognised), never to decide a failure."""
    F = facts.load_facts(facts_dir)
    inlined = []
    if os.environ.get("VERIF_INLINE") == "1":
        F, inlined = mir.inline_single_call_helpers(F, rounds=16)
    P = mir.Program(F)
    P.inlined_helpers = inlined
    return P


def evaluate_dry(props, repo=None):
    """Run the rule modules of `props` on the current tree without writing evidence.
    Returns {prop: [ {instance, key, at, reason} ... ]} of violations not listed as known findings."""
    import importlib
    d = facts.build_facts("dev", repo=repo)
    P = _program(d)
    known = load_known()
    open_keys = {(k["property"], k["key"]) for k in known.get("open", [])}
    out = {}
    for prop in props:
        mod = importlib.import_module("analysis.rules.%s" % prop.lower())
        ctx = Ctx(prop, P)
        try:
            mod.run(ctx)
        except Exception as e:
            i = ctx.inst("%s.internal" % prop, "analysis completed without internal error")
            i.fail("%s.internal:%s" % (prop, type(e).__name__), "-", "-", "analysis error: %s %s" % (e, traceback.format_exc()[-800:]))
        for i in ctx.instances:
            ctx.finish_floor(i)
        vs = []
        for i in ctx.instances:
            for f in i.failures:
                if (prop, f["key"]) not in open_keys:
                    vs.append({"instance": i.id, "key": f["key"], "at": f["span"], "reason": f["reason"][:300]})
        out[prop] = vs
    if os.environ.get("VERIF_INLINE") is None:
        # second attempt, in a fresh process, for the properties that failed
        again = [p_ for p_, vs in out.items() if vs]
        if again:
            import subprocess, sys as _sys
            code = "import json,sys; sys.path.insert(0,%r); from analysis import engine; print('@@'+json.dumps(engine.evaluate_dry(%r, repo=%r)))" % (VERIF, again, repo)
            pr = subprocess.run([_sys.executable, "-c", code], cwd=VERIF, env=dict(os.environ, VERIF_INLINE="1"), stdout=subprocess.PIPE, stderr=subprocess.STDOUT, text=True)
            for line in pr.stdout.splitlines():
                if line.startswith("@@"):
                    res = json.loads(line[2:])
                    for p_ in again:
                        if p_ in res and not res[p_]:
                            out[p_] = []
                        elif p_ in res and not any(_STRUCTURAL.search(v["reason"]) for v in res[p_]) and any(_STRUCTURAL.search(v["reason"]) for v in out[p_]):
                            # both attempts fail, but on the normalised program every failure names a specific defect (no
                            # unrecognised structure): that is the more useful report
                            out[p_] = [dict(v, reason="[on the program with single-call-site helpers inlined] " + v["reason"]) for v in res[p_]]
    return out


SCRATCH = "/tmp/halo_verif_scratch"


def sensitivity(prop, rule_fn, seed=0, limit=None):
    """Thorough tier self-test: replay every seeded change recorded for this property (seeded/*/meta.json) on a scratch
    copy of the CURRENT tree (outside /repo and /verif, removed afterwards) and report whether this property's rules fire.
    Measures the checker, not the repository: never changes the exit code."""
    import fcntl, random, shutil, subprocess
    sd = os.path.join(VERIF, "seeded")
    if not os.path.isdir(sd):
        return {"mutants": 0}
    cands = []
    for name in sorted(os.listdir(sd)):
        mp = os.path.join(sd, name, "meta.json")
        pp = os.path.join(sd, name, "patch.diff")
        if os.path.exists(mp) and os.path.exists(pp):
            meta = json.load(open(mp))
            if meta.get("property") == prop or prop in (meta.get("detected_by") or []):
                cands.append((name, pp, meta))
    rnd = random.Random(seed)
    rnd.shuffle(cands)
    # the corpus has grown to several hundred changes: replay a seed-chosen sample, the changes seeded for this very property first
    cands.sort(key=lambda c_: 0 if c_[2].get("property") == prop else 1)
    total_cands = len(cands)
    cands = cands[:(limit or 10)]
    res = {}
    os.makedirs(SCRATCH, exist_ok=True)
    lock = open(os.path.join(SCRATCH, "lock"), "w")
    fcntl.flock(lock, fcntl.LOCK_EX)
    known = load_known()
    open_keys = {(k["property"], k["key"]) for k in known.get("open", [])}
    try:
        for name, pp, meta in cands:
            work = os.path.join(SCRATCH, "repo")
            shutil.rmtree(work, ignore_errors=True)
            shutil.copytree(facts.REPO, work, ignore=shutil.ignore_patterns("target", ".git"), symlinks=True)
            p = subprocess.run(["patch", "-p1", "-s", "-d", work, "-i", pp], stdout=subprocess.PIPE, stderr=subprocess.STDOUT, text=True)
            if p.returncode != 0:
                res[name] = {"applied": False}
                continue
            try:
                d = facts.build_facts("dev", repo=work)
                Pm = mir.Program(facts.load_facts(d))
                c = Ctx(prop, Pm)
                try:
                    rule_fn(c)
                except Exception as e:
                    i = c.inst("%s.internal" % prop, "internal")
                    i.fail("%s.internal" % prop, "-", "-", "analysis error %s" % e)
                for i in c.instances:
                    c.finish_floor(i)
                fired = sorted({i.id for i in c.instances for f in i.failures if (prop, f["key"]) not in open_keys})
                res[name] = {"applied": True, "detected": bool(fired), "firing_instances": fired[:8], "seeded_for": meta.get("property")}
            except facts.BuildError as e:
                res[name] = {"applied": True, "detected": None, "error": "does not build"}
            finally:
                shutil.rmtree(work, ignore_errors=True)
    finally:
        fcntl.flock(lock, fcntl.LOCK_UN)
        lock.close()
    det = sum(1 for r in res.values() if r.get("detected"))
    return {"mutants": len(res), "detected": det, "not_applicable": sum(1 for r in res.values() if not r.get("applied")), "results": res,
            "sample": "%d of the %d recorded changes that concern this property (seed-chosen; those seeded for it first); the whole corpus is replayed by tools/run_seeded.py" % (len(res), total_cands)}


def run_property(prop, rule_fn, tier="quick", seed=0, level_text="", replay=None):
    t0 = time.time()
    try:
        d = facts.build_facts("dev")
        P = _program(d)
        Prel = None
        if tier == "thorough":
            d2 = facts.build_facts("release")
            Prel = mir.Program(facts.load_facts(d2))
    except facts.BuildError as e:
        print("BUILD-ERROR: %s" % e)
        return 2
    ctx = Ctx(prop, P, tier, seed, Prel)
    ctx.trusted = ["rustc MIR (nightly, -Zmir-opt-level=0) as emitted by /verif/driver", "bigint::U256 arithmetic axioms",
                   "cosmwasm-std / cw-storage-plus / cw20 API semantics (DESIGN §7.2)"] + \
                  ["%s %s" % kv for kv in facts.lock_versions().items()]
    try:
        rule_fn(ctx)
    except Exception as e:  # fail closed: an analysis crash is an unrecognised idiom, not a pass
        i = ctx.inst("%s.internal" % prop, "analysis completed without internal error")
        i.fail("%s.internal:%s" % (prop, type(e).__name__), "-", "-", "unrecognised-idiom / analysis error: %s\n%s" % (e, traceback.format_exc()[-1500:]))
    for i in ctx.instances:
        ctx.finish_floor(i)
    known = load_known()
    open_keys = {(k["property"], k["key"]): k for k in known.get("open", [])}
    violations = []
    known_hits = []
    for i in ctx.instances:
        for f in i.failures:
            if replay and f["key"] != replay:
                continue
            kf = open_keys.get((prop, f["key"]))
            if kf is not None:
                known_hits.append((i, f, kf))
            else:
                violations.append((i, f))
    mode = os.environ.get("VERIF_INLINE")
    if violations and not replay and mode is None:
        # a rule failed (often: an anchor or idiom not recognised where a helper was split off): try once more on the normalised
        # program (fresh process, clean caches) — the same program, so a pass there is a pass;
        # it exits 0 only when every instance passes there, otherwise this run's own failures are reported below
        import subprocess, sys as _sys
        pr = subprocess.run([_sys.executable, os.path.join(VERIF, "check"), prop, "--tier", tier], cwd=VERIF, env=dict(os.environ, VERIF_INLINE="1"),
                            stdout=subprocess.PIPE, stderr=subprocess.STDOUT, text=True)
        if pr.returncode == 0:
            _sys.stdout.write(pr.stdout)
            return 0
        if pr.returncode == 3 and any(_STRUCTURAL.search(f["reason"]) for i, f in violations):
            # both attempts fail; on the normalised program every failure names a specific defect, here some name an
            # unrecognised structure: the child's report (already written, with its evidence) is the more useful one
            _sys.stdout.write(pr.stdout)
            return 1
    if mode == "1" and violations and any(_STRUCTURAL.search(f["reason"]) for i, f in violations):
        return 1                # second attempt did not pass either: the caller reports the failures of the program as written
    second_specific = (mode == "1" and bool(violations))
    os.makedirs(os.path.join(EVID, "violations"), exist_ok=True)
    # stale violation files of this property
    for fnm in os.listdir(os.path.join(EVID, "violations")):
        if fnm.startswith(prop + "-"):
            os.remove(os.path.join(EVID, "violations", fnm))
    for i, f, kf in known_hits:
        print("KNOWN-FINDING: property=%s %s [%s] %s" % (prop, kf.get("what", f["reason"]), f["key"], f["span"]))
    for n, (i, f) in enumerate(violations):
        path = os.path.join(EVID, "violations", "%s-%d.json" % (prop, n))
        with open(path, "w") as fh:
            json.dump({"property": prop, "instance": i.id, "rule": i.desc, "key": f["key"], "function": f["fn"],
                       "location": f["span"], "reason": f["reason"]}, fh, indent=1)
        print("VIOLATION property=%s replay=%s" % (prop, path))
        print("  rule %s (%s)\n  at %s in %s\n  %s" % (i.id, i.desc, f["span"], f["fn"], f["reason"]))
    n_inst = len(ctx.instances)
    discharged = sum(1 for i in ctx.instances if i.status == "pass")
    evals = sum(max(i.evaluations, 1) for i in ctx.instances)
    nontrivial = sum(1 for i in ctx.instances if i.sites)
    samples = []
    for i in ctx.instances:
        samples.append({"instance": i.id, "rule": i.desc, "status": i.status, "matched_sites": len(i.sites),
                        "floor": i.floor, "sites": i.sites[:12], "notes": i.notes[:6],
                        "failures": [{"key": f["key"], "at": f["span"], "reason": f["reason"][:400]} for f in i.failures[:5]]})
    ev = {
        "property_id": prop,
        "tier": tier,
        "seed": seed,
        "level": "other",
        "coverage": {
            "explanation": level_text,
            "obligations": n_inst,
            "discharged": discharged,
            "evaluations": evals,
            "distinct_nontrivial": nontrivial,
            "rule": "one obligation = one named rule instance (DESIGN §5) evaluated on the MIR of the current tree; an instance is "
                    "non-trivial when it matched at least one concrete site (call site, aggregate, guard, vertex); evaluations = sites / vertices examined",
            "samples": samples,
            "trusted_base": ctx.trusted,
            "checker_cmd": "./check %s --tier %s" % (prop, tier),
            "analysed": {"crates": sorted(P.facts.keys()), "functions_with_mir": sum(1 for f in P.fns.values() if f.body is not None),
                         "production_functions": sum(1 for _ in P.prod_fns()), "facts_dir": os.path.basename(d),
                         "repo": facts.REPO},
            "known_findings_reported": [f["key"] for _, f, _ in known_hits],
            "exhaustive": True,
        },
        "assumptions": ctx.assumptions,
        "wall_s": round(time.time() - t0, 3),
        "violations": len(violations),
    }
    ev["coverage"].update(ctx.extra)
    if getattr(P, "inlined_helpers", None):
        ev["coverage"]["normalisation"] = {"inlined_single_call_site_helpers": P.inlined_helpers,
                                           "why": "the program as written failed only on an unrecognised structure; the rules were re-run on the same program with these helpers merged into their one caller"}
    if tier == "thorough":
        try:
            ev["coverage"]["sensitivity_self_test"] = sensitivity(prop, rule_fn, seed)
            ev["coverage"]["release_profile"] = {"overflow_checks": {c: m.get("overflow_checks") for c, m in (Prel.crate_meta.items() if Prel else [])}}
        except Exception as e:
            ev["coverage"]["sensitivity_self_test"] = {"error": str(e)[:300]}
        ev["wall_s"] = round(time.time() - t0, 3)
    os.makedirs(EVID, exist_ok=True)
    with open(os.path.join(EVID, "%s.json" % prop), "w") as fh:
        json.dump(ev, fh, indent=1, default=str)
    print("%s: %d rule instances, %d pass, %d fail (%d known), %d sites, %.1fs" % (
        prop, n_inst, discharged, n_inst - discharged, len(known_hits), sum(len(i.sites) for i in ctx.instances), time.time() - t0))
    if violations and second_specific:
        return 3
    return 1 if violations else 0
