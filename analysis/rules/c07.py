"""C07 — operations never touch third-party balances and conserve token totals (DESIGN §5 C07)."""
import re
from .. import common, roles, lemmas
from ..roles import P_, param, INFO_TY, ENV_TY, AnchorMissing
from ..mir import generic_path

ALLOWED_CW20 = {"Transfer", "TransferFrom", "Send", "Mint", "Burn"}
FORBIDDEN_NOTE = "BurnFrom / SendFrom / IncreaseAllowance / DecreaseAllowance / Bank::Burn / Staking / Distribution / Ibc / Gov"

# calls that may produce a message-typed value (fail closed on anything else)
PRODUCER_OK = re.compile(
    r"(::convert::(From|Into)(<.*>)?>::(from|into)$|::clone::Clone>::clone$|::Try>::branch$|FromResidual.*::from_residual$|"
    r"Iterator>?::(collect|next|map|rev|enumerate)$|::vec::Vec::new$|::vec::Vec::push$|box_assume_init_into_vec_unsafe$|Box::new_uninit$|"
    r"IntoIterator>::into_iter$|::SubMsg::new$|slice::<impl \[T\]>::(iter|into_vec)$|::option::Option::(unwrap|expect|map|unwrap_or|unwrap_or_else)$|"
    r"result::Result::(unwrap|expect|map|map_err)$|Deref>::deref$|DerefMut>::deref_mut$|ops::function::Fn\w*>::call\w*$|"
    r"::Response::(new|default|add_message|add_messages|add_submessage|add_submessages|add_attribute|add_attributes|set_data|add_event|add_events)$|"
    r"Default>::default$|cosmwasm_std::(\S*::)?(to_binary|from_binary)$|::mem::(take|replace|swap)$|::vec::Vec::(extend|append|with_capacity|insert)$)")
MSG_TY = re.compile(r"cosmwasm_std::(\S*::)?(CosmosMsg|WasmMsg|BankMsg|SubMsg|StakingMsg|DistributionMsg|IbcMsg|GovMsg)\b")


def exec_sites(ctx):
    """Every WasmMsg::Execute aggregate: (fn, bb, span, target roots, payload roots, funds roots, value)"""
    out = []
    for (fn, b, i, adt, var, v, span) in common.message_sites(ctx.P):
        if common.adt_short(adt) == "WasmMsg" and var == "Execute":
            f = dict(v[3])
            out.append((fn, b, span.replace("!x", ""), set(ctx.roots(f["contract_addr"])), set(ctx.roots(f["msg"])), set(ctx.roots(f["funds"])), v))
    return out


def _run(ctx):
    P = ctx.P
    r1 = ctx.inst("C07.R1", "message inventory: only cw20 {Transfer,TransferFrom,Send,Mint,Burn}, pair Swap / decimals update, router self-messages, Wasm Instantiate/Migrate, Bank::Send are ever built; "
                            "every Wasm::Execute matches an allowed (target, payload, funds) template; no other producer of message values", floor=34)
    r2 = ctx.inst("C07.R2", "Mint / Burn only in the provide / withdraw handlers, addressed to the pair's LP token", floor=3)
    r3 = ctx.inst("C07.R3", "the only TransferFrom: owner = transaction sender, recipient = the pair itself, in the provide handler", floor=1)
    r4 = ctx.inst("C07.R4", "router hop: amount = router's own balance of the offer asset; attached funds = that coin; pair target from the factory's answer; no TransferFrom in the router", floor=4)
    r5 = ctx.inst("C07.R5", "receivers only gain: every payout goes through the transfer constructor with recipient from to/receiver/sender", floor=3)
    try:
        pr = roles.PairRoles(P)
        rr = roles.RouterRoles(P)
        fr_ = roles.FactoryRoles(P)
        tc = lemmas.transfer_ctor(P)
    except AnchorMissing as e:
        for r in (r1, r2, r3, r4, r5):
            r.fail("%s:anchor" % r.id, "-", "-", "anchor-missing: %s" % e)
        return
    prov, wd, swap = pr.provide_handler, pr.withdraw_handler, pr.swap_handler
    hb = rr.hop_builder
    lp_token = "human(load(%s).liquidity_token)" % ctx.N.PAIR_INFO
    N = ctx.N
    RX, PX, PH = N.exec_enum("router"), N.exec_enum("pair"), N.hook_enum("pair")

    # ---- R1: kinds -------------------------------------------------------------------------------------
    sites = common.message_sites(P)
    for (fn, b, i, adt, var, v, span) in sites:
        short = common.adt_short(adt)
        sp = span.replace("!x", "")
        ok = True
        if short == "Cw20ExecuteMsg" and var not in ALLOWED_CW20:
            ok = False
        elif short == "BankMsg" and var != "Send":
            ok = False
        elif short == "WasmMsg" and var not in ("Execute", "Instantiate", "Migrate"):
            ok = False
        elif short == "CosmosMsg" and var not in ("Wasm", "Bank"):
            ok = False
        elif short in ("StakingMsg", "DistributionMsg", "IbcMsg", "GovMsg"):
            ok = False
        if not ok:
            r1.fail("C07.R1:forbidden-kind:%s::%s:%s" % (short, var, fn.path), fn.path, sp, "message kind %s::%s is built; allowed kinds exclude %s" % (short, var, FORBIDDEN_NOTE))
        else:
            r1.site("%s %s::%s" % (sp, short, var))
    # templates for Wasm::Execute
    acceptor = rr.acceptor
    env_acc = param(acceptor, ENV_TY)
    self_addr = {P_(acceptor, env_acc, ".contract.address")}
    for (fn, b, sp, tgt, payload, funds, v) in exec_sites(ctx):
        pay = "|".join(sorted(payload))
        empty_funds = lemmas._empty_vec(ctx, dict(v[3])["funds"])
        m = re.match(r"^bin\(A:([\w:]+)\{", pay)
        kind = m.group(1) if m else pay
        root_fn = P.fn(fn.parent) if fn.kind == "closure" and fn.parent else fn
        known_homes = {tc.path, prov.path, wd.path, acceptor.path, hb.path, fr_.add_decimals[3].path}
        if root_fn.path not in known_homes:
            # a message-building helper called from exactly one place: judge it in its caller's context
            cf_, lv_ = common.lift_value(P, root_fn, dict(v[3])["contract_addr"], stop=lambda g_: g_.path in known_homes)
            if cf_.path != root_fn.path:
                root_fn = P.fn(cf_.parent) if cf_.kind == "closure" and cf_.parent else cf_
                tgt = set(ctx.roots(lv_))
        tpl = None
        if root_fn.path == tc.path and kind == "cw20::Cw20ExecuteMsg::Transfer":
            tpl = tgt == {P_(tc, 0, ".info~Token.contract_addr")} and empty_funds
        elif root_fn.path == prov.path and kind == "cw20::Cw20ExecuteMsg::TransferFrom":
            tpl = all(re.search(r"\.info~Token\.contract_addr$", t) for t in tgt) and empty_funds
        elif root_fn.path in (prov.path, wd.path) and kind in ("cw20::Cw20ExecuteMsg::Mint", "cw20::Cw20ExecuteMsg::Burn"):
            tpl = tgt == {lp_token} and empty_funds
        elif root_fn.path == acceptor.path and kind in (RX + "::ExecuteSwapOperation", RX + "::AssertMinimumReceive"):
            tpl = tgt == self_addr and empty_funds
        elif root_fn.path == hb.path and kind == PH + "::Swap":
            tpl = True   # detailed in R4
        elif root_fn.path == hb.path and kind == "cw20::Cw20ExecuteMsg::Send":
            tpl = empty_funds
        elif root_fn.path == fr_.add_decimals[3].path and kind == PX + "::UpdateNativeTokenDecimals":
            from . import c17 as _c17
            raw_items = _c17.raw_scan_items(ctx, root_fn, any_filter=True)
            tpl = all(re.match(r"^human\(mload\(%s\)\[.*\]\.contract_addr\)$" % re.escape(N.PAIRS), t) or
                      any(t == "human(%s.1.contract_addr)" % it for it in raw_items) for t in tgt) and empty_funds
        if tpl is None and kind.startswith(PX + "::") and empty_funds and root_fn.crate == "halo_factory":
            # a control message from the factory to a pair that carries no funds and that the pair accepts from its factory only
            # (C14's policy for that variant): it moves no balance
            from . import c14 as _c14
            var_ = kind[len(PX) + 2:]
            try:
                pol_ = _c14.POLICY.get(("pair", var_)) or _c14.infer_policy(ctx, "pair", var_)
            except Exception:
                pol_ = None
            if pol_ == "factory-only":
                r1.site("%s Execute(%s) -> a pair; no funds; accepted by the pair from its factory only" % (sp, kind.split("::", 1)[-1]))
                continue
        if tpl is None:
            r1.fail("C07.R1:unknown-execute:%s:%s" % (root_fn.path, kind), fn.path, sp, "Wasm::Execute with payload %s in %s matches no allowed template" % (kind[:120], root_fn.path))
        elif not tpl:
            r1.fail("C07.R1:template:%s:%s" % (root_fn.path, kind), fn.path, sp, "Wasm::Execute %s: target ⊢ %s, funds empty=%s — does not match its template" % (kind, sorted(tgt), empty_funds))
        else:
            r1.site("%s Execute(%s) -> %s" % (sp, kind.split("::", 1)[-1], sorted(tgt)[0][:90]))
    # producers
    for fn in P.prod_fns():
        for b, p, frf, t in P.calls(fn):
            ty = t["dest"]["ty"]
            if not MSG_TY.search(ty) or p is None:
                continue
            g = generic_path(p)
            if roles.is_workspace_fn(P, p) or PRODUCER_OK.search(g):
                continue
            if re.match(r"^(std|core)::(slice::Iter(Mut)?<|iter::(FilterMap|Filter|Map|Enumerate|Rev|Skip|Take|Zip|Peekable|Cloned|Copied)<)", ty):
                continue        # a lazy *view* over existing messages (`messages.iter().filter_map(..)` to describe them): it builds none;
                                # collecting it back into a Vec<CosmosMsg> is a producer call of its own and still listed
            gcl_ = P.fn(p)
            if gcl_ is not None and gcl_.kind == "closure" and common.local_closure_helper(P, gcl_):
                continue        # a local closure called like a function: its messages are reported at the call (message_sites)
            if P.val_call(fn, fn.body, b)[0] == "agg":
                continue        # a cosmwasm-std constructor modelled as the aggregate it builds (mir.model_std_ctor): listed as a message site above
            # closures of this workspace called through Fn traits
            r1.fail("C07.R1:unknown-producer:%s:%s" % (fn.path, g), fn.path, common.span_of_block_term(fn, b),
                    "call of %s yields a message-typed value (%s); not in the table of known message producers: unrecognised-idiom" % (g, ty[:80]))

    # ---- R2 / R3 ---------------------------------------------------------------------------------------------
    for (fn, b, i, adt, var, v, span) in sites:
        short = common.adt_short(adt)
        sp = span.replace("!x", "")
        root_fn = P.fn(fn.parent) if fn.kind == "closure" and fn.parent else fn
        if short == "Cw20ExecuteMsg" and var in ("Mint", "Burn"):
            want = prov.path if var == "Mint" else wd.path
            if root_fn.path != want:
                r2.fail("C07.R2:%s-outside:%s" % (var, root_fn.path), fn.path, sp, "%s is built outside the %s handler" % (var, "provide" if var == "Mint" else "withdraw"))
            else:
                r2.site("%s %s in %s" % (sp, var, root_fn.path))
        if short == "Cw20ExecuteMsg" and var == "TransferFrom":
            f = dict(v[3])
            R3_ = ctx.R
            if root_fn.path != prov.path:
                # staged: a private helper of the provide handler with that single call site, judged with its parameters
                # standing for the call's arguments
                cs_ = common.single_call_site(P, root_fn) if not (root_fn.j.get("vis") or "Public").startswith("Public") else None
                if cs_ is None or cs_[0].path != prov.path:
                    r3.fail("C07.R3:outside:%s" % root_fn.path, fn.path, sp, "TransferFrom is built outside the provide handler")
                    continue
                R3_ = ctx.R.with_params(root_fn.path, P.val_call(prov, prov.body, cs_[1])[4])
            info, env = param(prov, INFO_TY), param(prov, ENV_TY)
            o, rcp = set(R3_.roots(f["owner"])), set(R3_.roots(f["recipient"]))
            if o != {P_(prov, info, ".sender")}:
                r3.fail("C07.R3:owner", fn.path, sp, "TransferFrom.owner ⊢ %s, expected the transaction sender (info.sender): a third party's allowance could be spent" % sorted(o))
            elif rcp != {P_(prov, env, ".contract.address")}:
                r3.fail("C07.R3:recipient", fn.path, sp, "TransferFrom.recipient ⊢ %s, expected the pair's own address" % sorted(rcp))
            else:
                r3.site("%s owner ⊢ info.sender, recipient ⊢ env.contract.address" % sp)

    # ---- R4 router ---------------------------------------------------------------------------------------------------
    hop = rr.hop_handler
    henv = param(hop, ENV_TY)
    own = P_(hop, henv, ".contract.address")
    cv = P.val_call(hop, hop.body, rr.hop_builder_call)
    # hop builder parameters by type
    pair_i = common.param_index_of_type(hb, r"^cosmwasm_std::\S*Addr$")
    asset_i = common.param_index_of_type(hb, "^%s$" % N.rx("Asset"))
    if pair_i is None or asset_i is None:
        r4.fail("C07.R4:anchor", hb.path, hb.span, "anchor-missing: hop builder parameters (Addr, Asset)")
    else:
        offer = common.inline_helpers(P, cv[4][asset_i])
        amt_vals = [x for x in common.walk(offer) if x[0] == "call" and (N.is_fn(x[3], "q_balance") or N.is_fn(x[3], "q_token_balance"))]
        amt = set(ctx.roots(offer, (("f", "amount"),)))
        good = True
        # form 2: the shared balance helper `info.query_pool(querier, api, own address)` (verified by lemma) instead of the two explicit queries
        qpools = [x for x in common.walk(offer) if x[0] == "call" and N.is_fn(x[3], "query_pool")]
        if not amt_vals and len(qpools) == 1 and amt == {"C:%s@%s:bb%d" % (N.cpath("query_pool"), hop.path, qpools[0][2])}:
            qv_ = qpools[0]
            info_roots = set(ctx.roots(offer, (("f", "info"),)))
            if lemmas.check_query_pool(ctx, r4) is None:
                pass
            elif set(ctx.roots(qv_[4][3])) != {own}:
                r4.fail("C07.R4:balance-account:query_pool", hop.path, common.span_of_block_term(hop, qv_[2]), "the hop amount is the balance of %s, expected the router's own address" % sorted(ctx.roots(qv_[4][3])))
            elif set(ctx.roots(qv_[4][0])) != info_roots:
                r4.fail("C07.R4:balance-asset", hop.path, common.span_of_block_term(hop, qv_[2]), "the hop amount is the balance of %s but the hop offers %s" % (sorted(ctx.roots(qv_[4][0])), sorted(info_roots)))
            else:
                r4.site("hop amount ⊢ query_pool(offer asset, router) — bank balance for native, cw20 balance for tokens")
                r4.site("(account ⊢ router, asset ⊢ the hop's offer asset)")
        elif not amt or not all(re.match(r"^C:(%s|%s)@" % (N.rx("q_balance"), N.rx("q_token_balance")), a) for a in amt):
            r4.fail("C07.R4:amount-origin", hop.path, common.span_of_block_term(hop, rr.hop_builder_call), "hop amount ⊢ %s, expected a balance query" % sorted(amt))
            good = False
        for q in amt_vals:
            name = "query_balance" if N.is_fn(q[3], "q_balance") else "query_token_balance"
            acct = set(ctx.roots(q[4][1] if name == "query_balance" else q[4][2]))
            if acct != {own}:
                r4.fail("C07.R4:balance-account:%s" % name, hop.path, common.span_of_block_term(hop, q[2]), "%s queries the balance of %s, expected the router's own address" % (name, sorted(acct)))
                good = False
            what = set(ctx.roots(q[4][2] if name == "query_balance" else q[4][1]))
            info_roots = set(ctx.roots(offer, (("f", "info"),)))
            r4.site("%s(account ⊢ router, asset ⊢ %s)" % (name, sorted(what)[0][-60:]))
        if amt_vals and len({generic_path(q[3]) for q in amt_vals}) != 2 or (not amt_vals and len(qpools) != 1):
            r4.fail("C07.R4:balance-kinds", hop.path, hop.span, "expected one native and one cw20 balance query feeding the hop amount, found %s" % sorted({common.last_seg(q[3]) for q in amt_vals}))
        # pair target
        tgt = set(ctx.roots(cv[4][pair_i]))
        if not all(re.match(r"^C:%s@.*\.contract_addr$" % N.rx("q_pair_info"), t) for t in tgt) or not tgt:
            r4.fail("C07.R4:pair-target", hop.path, common.span_of_block_term(hop, rr.hop_builder_call), "hop is sent to %s, expected the factory's Pair answer" % sorted(tgt))
        else:
            r4.site("hop target ⊢ factory Pair query .contract_addr")
        # inside the builder: native branch funds = [Coin{denom ⊢ offer denom, amount ⊢ offer.amount}], cw20 Send amount ⊢ offer.amount to the pair
        for (fn, b, sp, tg, payload, funds, v) in exec_sites(ctx):
            if fn.path != hb.path:
                continue
            pay = "|".join(sorted(payload))
            f = dict(v[3])
            if pay.startswith("bin(A:%s::Swap{" % PH):
                coins = [x for x in common.walk(f["funds"]) if x[0] == "agg" and str(x[2]).endswith("Coin")]
                ok = tg == {P_(hb, pair_i)} and len(coins) == 1
                if ok:
                    c = dict(coins[0][3])
                    ok = set(ctx.roots(c["amount"])) == {P_(hb, asset_i, ".amount")} and set(ctx.roots(c["denom"])) == {P_(hb, asset_i, ".info~NativeToken.denom")}
                ok = ok and ("offer_asset=%s," % P_(hb, asset_i)) in pay
                if not ok:
                    r4.fail("C07.R4:native-hop", hb.path, sp, "native hop: target ⊢ %s, funds/offer do not carry exactly the offer asset (payload %s)" % (sorted(tg), pay[:160]))
                else:
                    r4.site("%s native hop: funds = [Coin{offer denom, offer amount}] to the pair" % sp)
            elif pay.startswith("bin(A:cw20::Cw20ExecuteMsg::Send{"):
                ok = tg == {P_(hb, asset_i, ".info~Token.contract_addr")} and ("contract=%s," % P_(hb, pair_i)) in pay and ("amount=%s," % P_(hb, asset_i, ".amount")) in pay \
                    and ("offer_asset=%s," % P_(hb, asset_i)) in pay
                if not ok:
                    r4.fail("C07.R4:cw20-hop", hb.path, sp, "cw20 hop: target ⊢ %s payload %s — expected Send{contract: pair, amount: offer.amount, msg: Swap{offer_asset}} to the offer token" % (sorted(tg), pay[:200]))
                else:
                    r4.site("%s cw20 hop: Send{pair, offer.amount, Swap{offer}} to the offer token" % sp)
    for (fn, b, i, adt, var, v, span) in sites:
        if fn.crate == "halo_router" and common.adt_short(adt) == "Cw20ExecuteMsg" and var not in ("Send",):
            r4.fail("C07.R4:router-cw20:%s" % var, fn.path, span.replace("!x", ""), "router builds cw20 %s; it may only Send its own balance" % var)

    # ---- R5 payout recipients ------------------------------------------------------------------------------------------
    for c, cb in P.callers(tc.path):
        if "::tests::" in c.path or "mock_querier" in c.path:
            continue
        cv = P.val_call(c, c.body, cb)
        rec = set(ctx.roots(cv[4][1]))
        sp = common.span_of_block_term(c, cb)
        if c.path == swap.path:
            to_i = common.param_access(P, swap, r"^std::option::Option<cosmwasm_std::\S*Addr>$")
            s_i = common.param_access(P, swap, r"^cosmwasm_std::\S*Addr$")
            want = {"or(%s;%s)" % (to_i.some_root(), s_i.root())} if to_i is not None and s_i is not None else {"?"}
        elif c.path == wd.path or (c.kind == "closure" and c.parent == wd.path):
            s_i = common.param_index_of_type(wd, r"^cosmwasm_std::\S*Addr$")
            want = {P_(wd, s_i)}
        elif c.impl_self == N.Asset and not [x for x in P.callers(c.path) if "::tests::" not in x[0].path]:
            r5.notes.append("%s forwards to the transfer constructor and has no production caller" % c.path)
            continue
        else:
            r5.fail("C07.R5:unknown-payer:%s" % c.path, c.path, sp, "payout built in %s, which is not the swap or withdraw handler" % c.path)
            continue
        if rec != want:
            r5.fail("C07.R5:recipient:%s" % c.path, c.path, sp, "payout recipient ⊢ %s, expected %s" % (sorted(rec), sorted(want)))
        else:
            r5.site("%s recipient ⊢ %s" % (sp, sorted(rec)[0]))
    # a bank send built anywhere but in the transfer constructor is a payout of its own: it is judged in the handler it is
    # built for (lifted through single-call-site helpers), with the recipient that handler's payouts must have
    for (fn, b, i, adt, var, v, span) in sites:
        if common.adt_short(adt) != "BankMsg" or var != "Send":
            continue
        root_fn = P.fn(fn.parent) if fn.kind == "closure" and fn.parent else fn
        if root_fn.path == tc.path or "::tests::" in root_fn.path or "mock_querier" in root_fn.path:
            continue
        sp = span.replace("!x", "")
        to_v = dict(v[3]).get("to_address")
        homes = {swap.path, wd.path}
        cf_, lv_ = common.lift_value(P, root_fn, to_v, stop=lambda g_: g_.path in homes) if to_v is not None else (root_fn, None)
        home = P.fn(cf_.parent) if cf_.kind == "closure" and cf_.parent else cf_
        rec = set(ctx.roots(lv_)) if lv_ is not None else set()
        if home.path == swap.path:
            to_i = common.param_access(P, swap, r"^std::option::Option<cosmwasm_std::\S*Addr>$")
            s_i = common.param_access(P, swap, r"^cosmwasm_std::\S*Addr$")
            want = {"or(%s;%s)" % (to_i.some_root(), s_i.root())} if to_i is not None and s_i is not None else {"?"}
        elif home.path == wd.path:
            want = {P_(wd, common.param_index_of_type(wd, r"^cosmwasm_std::\S*Addr$"))}
        else:
            r5.fail("C07.R5:bank-send:unknown-payer:%s" % root_fn.path, fn.path, sp,
                    "Bank::Send built in %s: not the transfer constructor and not built for the swap or withdraw handler" % root_fn.path)
            continue
        if rec != want:
            r5.fail("C07.R5:bank-send:recipient:%s" % root_fn.path, fn.path, sp,
                    "Bank::Send built in %s for %s goes to %s, expected %s" % (root_fn.path, home.path, sorted(rec), sorted(want)))
        else:
            r5.site("%s Bank::Send recipient ⊢ %s" % (sp, sorted(rec)[0]))
    # the withdraw handler's sender is the cw20 envelope's sender
    recv, edge, region, h, callbb = pr.withdraw_hook
    recv0, cw20_i = roles.cw20_envelope(P, "pair")
    hv = P.val_call(recv, recv.body, callbb)
    s_i = common.param_index_of_type(wd, r"^cosmwasm_std::\S*Addr$")
    got = set(ctx.roots(hv[4][s_i]))
    if got != {"valid(%s)" % P_(recv0, cw20_i, ".sender")} and got != {P_(recv0, cw20_i, ".sender")}:
        r5.fail("C07.R5:withdraw-sender", recv.path, common.span_of_block_term(recv, callbb), "withdraw handler's beneficiary ⊢ %s, expected the cw20 envelope's sender" % sorted(got))
    else:
        r5.site("withdraw beneficiary ⊢ cw20_msg.sender")
    # the recipient / trader handed to the swap handler by both entry points (shared with C02.R8):
    # a payout may reach only the message's `to` or the trader, never e.g. the calling token contract
    from . import c02
    sub = type(ctx)(ctx.prop, P)
    c02.run(sub)
    for i in sub.instances:
        if i.id == "C02.R8":
            r5.sites.extend("C02.R8: %s" % s for s in i.sites)
            r5.evaluations += i.evaluations
            for f in i.failures:
                r5.fail("C07.R5:%s" % f["key"], f["fn"], f["span"], "[C02.R8] %s" % f["reason"])
    lem = ctx.inst("C07.L1", "support lemma: the transfer constructor builds only plain transfers of exactly its arguments", floor=2)
    lemmas.check_transfer_ctor(ctx, lem)
    ctx.assumptions.append("bank module and cw20-base conserve totals and debit only the message sender (standard semantics)")
    ctx.extra["positive_control"] = "zero-expected kinds are exercised by the fixture crate in the thorough tier (see C07 fixture)"


def run(ctx):
    from .. import compose
    from . import c11
    _run(ctx)
    r = ctx.inst("C07.R6", "router side: proceeds go to the caller-named recipient or else the initiating user, never to the relaying token contract or another account (shared with C11.R6, C11.R2)", floor=4)
    compose.pull(ctx, r, c11, {"C11.R6"}, "C07.R6", key_rx=r":(sender|to|hook-decode|anchor|floor)")
    compose.pull(ctx, r, c11, {"C11.R2"}, "C07.R6", key_rx=r":(receiver|hop-recipient|anchor|floor)")
    from . import c05
    r7 = ctx.inst("C07.R7", "the only mint to an account other than the provider's receiver is the one-off reserved unit, minted to the LP token's own address exactly when the supply is zero (shared with C05.R6, C05.R7)", floor=4)
    compose.pull(ctx, r7, c05, {"C05.R6", "C05.R7"}, "C07.R7")
    from . import c04
    r8 = ctx.inst("C07.R8", "a withdrawal burns exactly the amount the holder handed in — no other LP held by the pair (shared with C04.R2)", floor=1)
    compose.pull(ctx, r8, c04, {"C04.R2"}, "C07.R8", key_rx=r":(burn|Burn|anchor|floor)")
