"""Semantic lemmas about small shared helpers that other rules rely on by role
(AssetInfo::equal is a true equality, is_native_token tests the variant, the transfer
constructor builds only plain transfers of exactly the asset it is given)."""
import re
from . import common, roles
from .roles import P_, AnchorMissing
from .mir import generic_path


def cond_strings(ctx, conds):
    """Canonical strings of control conditions:
       discr(x) in [variants] ; eq(a, b) is [T|F] (operands sorted; `ne` folded) ; lt(a, b) / le(a, b) (always stated as true:
       gt/ge and negated forms are rewritten) ; other predicates `name(args) is [..]`."""
    out = set()
    for c in conds:
        cd = c["cond"]
        if cd[0] == "discr":
            out.add("discr(%s) in %s" % ("|".join(sorted(ctx.roots(cd[1]))), sorted(c["allowed"])))
        elif cd[0] == "cmp":
            kind = cd[1]
            ops = ["|".join(sorted(ctx.roots(a))) for a in cd[2]]
            allowed = list(c["allowed"])
            if kind == "ne":
                kind, allowed = "eq", [not x for x in allowed]
            if kind in ("lt", "le", "gt", "ge") and len(ops) == 2 and len(allowed) == 1:
                a, b = ops
                truth = allowed[0]
                if kind in ("gt", "ge"):
                    a, b = b, a
                    kind = {"gt": "lt", "ge": "le"}[kind]
                if not truth:
                    # not (a < b)  ==  b <= a ;  not (a <= b)  ==  b < a
                    a, b = b, a
                    kind = {"lt": "le", "le": "lt"}[kind]
                out.add("%s(%s, %s)" % (kind, a, b))
                continue
            if kind == "eq" and len(ops) == 2 and len(allowed) == 1:
                # x == 0 is the same test as x.is_zero(): one canonical string for both spellings
                zs = [i for i, o in enumerate(ops) if o == "K:0" or re.match(r"^C:cosmwasm_std::(\S*::)?Uint128::zero@[^|]*$", o)]
                if len(zs) == 1:
                    out.add("is_zero(%s) is %s" % (ops[1 - zs[0]], sorted(allowed)))
                    continue
            if kind in ("eq", "equal"):
                ops = sorted(ops)
            out.add("%s(%s) is %s" % (kind, ", ".join(ops), sorted(allowed)))
        else:
            out.add("%s?" % cd[0])
    return out


def fn_table(ctx, fn):
    """[(bb, value, frozenset(condition strings))] for every definition of the return place."""
    P = ctx.P
    res = []
    for (b, i, cls, v) in common.exit_sites(P, fn):
        conds = common.control_conditions(P, fn, b)
        res.append((b, v, frozenset(cond_strings(ctx, conds))))
    return res


def find_assoc(P, self_ty, name):
    hits = [f for f in P.prod_fns() if f.kind == "assoc_fn" and f.name == name and f.impl_self == self_ty and f.impl_trait is None]
    return hits[0] if len(hits) == 1 else None


def check_is_native(ctx, inst):
    """AssetInfo::is_native_token (and Asset::is_native_token) are true exactly for the NativeToken variant."""
    P = ctx.P
    N = ctx.N
    try:
        tys = (N.AssetInfo, N.AssetInfoRaw)
        native_fns = [N.is_native(t) for t in tys]
    except AnchorMissing as e:
        inst.fail("%s:is_native:anchor" % inst.id, "-", "-", "anchor-missing: %s" % e)
        return
    for ty, f in zip(tys, native_fns):
        if f is None:
            continue
        tab = table_with_cases(ctx, f)
        d = "discr(%s)" % P_(f, 0)
        ok = True
        seen_true = False
        for b, v, cs in tab:
            if v == ("const", "int", 1) and cs == {"%s in ['NativeToken']" % d}:
                seen_true = True
            elif v == ("const", "int", 0) and cs == {"%s in ['Token']" % d}:
                pass
            else:
                ok = False
                inst.fail("%s:is_native:%s" % (inst.id, ty), f.path, common.span_of_block_term(f, b),
                          "is_native_token returns %s under {%s}; expected true exactly for NativeToken" % (ctx.show(v, 2), "; ".join(sorted(cs))))
        if ok and seen_true:
            inst.site("%s is the variant test of %s" % (f.path, ty))
        elif ok:
            inst.fail("%s:is_native:%s:never-true" % (inst.id, ty), f.path, f.span, "is_native_token never returns true")
    try:
        f = N.is_native(N.Asset)
    except AnchorMissing:
        f = None
    if f is not None:
        tab = fn_table(ctx, f)
        if len(tab) == 1 and tab[0][1][0] == "call" and generic_path(tab[0][1][3]) == native_fns[0].path \
                and set(ctx.roots(tab[0][1][4][0])) == {P_(f, 0, ".info")} and not tab[0][2]:
            inst.site("Asset::is_native_token forwards to AssetInfo::is_native_token(self.info)")
        else:
            inst.fail("%s:is_native:Asset" % inst.id, f.path, f.span, "Asset::is_native_token is not a plain forward to its info's variant test: unrecognised-idiom")


def check_equal(ctx, inst, ty=None):
    """AssetInfo::equal returns true only for same variant and equal identifier."""
    P = ctx.P
    try:
        ty = ty or ctx.N.AssetInfo
        f = ctx.N.equal(ty)
    except AnchorMissing as e:
        f = None
    if f is None:
        inst.fail("%s:equal:anchor" % inst.id, "-", "-", "anchor-missing: equality helper of %s" % ty)
        return
    a, b_ = "discr(%s)" % P_(f, 0), "discr(%s)" % P_(f, 1)
    ident = {"Token": "contract_addr", "NativeToken": "denom"}
    good = True
    true_regions = set()
    # `self == other` with the *derived* PartialEq of the enum: equality of variant and of every field
    exs_ = common.exit_sites(P, f)
    if len(exs_) == 1 and exs_[0][3][0] == "call" and isinstance(exs_[0][3][3], str) and common.cmp_kind(exs_[0][3][3]) == "eq" and len(exs_[0][3][4]) == 2:
        cal = exs_[0][3][3]
        gp = generic_path(cal)
        tyrx = re.escape(ty)
        is_peq = re.search(r"<%s as (core|std)::cmp::PartialEq>::eq$" % tyrx, gp) or \
            re.search(r"cmp::impls::<impl (core|std)::cmp::PartialEq<&('\w+ )?(mut )?B> for &('\w+ )?(mut )?A>::eq$", cal) or \
            re.search(r"<&('\w+ )?%s as (core|std)::cmp::PartialEq<&('\w+ )?%s>>::eq$" % (tyrx, tyrx), gp)
        impls = [i for i in P.impls if i.get("trait", "").endswith("cmp::PartialEq") and i["self"] == ty]
        got = [set(ctx.roots(x)) for x in exs_[0][3][4]]
        if is_peq and len(impls) == 1 and impls[0]["derived"] and sorted(map(sorted, got)) == sorted([[P_(f, 0)], [P_(f, 1)]]) \
                and not cond_strings(ctx, common.control_conditions(P, f, exs_[0][0])):
            inst.site("%s is the derived equality of %s (variant and identifier)" % (f.path, ty.split("::")[-1]))
            return
    for b, v, cs in table_with_cases(ctx, f):
        va = [x for x in ("Token", "NativeToken") if "%s in ['%s']" % (a, x) in cs]
        vb = [x for x in ("Token", "NativeToken") if "%s in ['%s']" % (b_, x) in cs]
        if (len(va) != 1 or len(vb) != 1) and v == ("const", "int", 0):
            # a shared `false` arm (e.g. `(Token, Native) | (Native, Token) => false` of a tuple match): decide per path
            paths = common.path_conditions(P, f, b)
            okp = paths is not None and len(paths) > 0
            for path in (paths or []):
                kinds = {}
                infeasible = False
                for (sw, tb) in path:
                    ty = common.discr_place_ty(f, sw)
                    cnd = common.switch_cond(P, f, sw)
                    if ty is None or cnd is None or cnd[0] != "discr":
                        okp = False
                        continue
                    t_ = f.body.blocks[sw]["term"]
                    labs = [common.variant_name(P, ty, val) for val, tgt in t_["arms"] if tgt == tb]
                    if not labs and t_["otherwise"] == tb:
                        listed = {common.variant_name(P, ty, x) for x, _ in t_["arms"]}
                        allv = common.all_variants(P, ty)
                        labs = [x for x in (allv or []) if x not in listed]
                        if allv and not labs:
                            infeasible = True      # the `otherwise` edge of a switch that lists every variant (a `_ =>` arm) is dead
                    key = "|".join(sorted(ctx.roots(cnd[1])))
                    if len(labs) == 1:
                        kinds[key] = labs[0]
                if infeasible:
                    continue
                ka, kb = kinds.get(P_(f, 0)), kinds.get(P_(f, 1))
                if ka is None or kb is None or ka == kb:
                    okp = False
            if okp:
                continue
        if len(va) != 1 or len(vb) != 1 or len(cs) != 2:
            good = False
            inst.fail("%s:equal:region" % inst.id, f.path, common.span_of_block_term(f, b), "result assigned under unexpected conditions {%s}: unrecognised-idiom" % "; ".join(sorted(cs)))
            continue
        if va[0] != vb[0]:
            if v != ("const", "int", 0):
                good = False
                inst.fail("%s:equal:mixed-kinds" % inst.id, f.path, common.span_of_block_term(f, b), "assets of different kinds compare as %s, expected false" % ctx.show(v, 2))
            continue
        fld = ident[va[0]]
        want = [{P_(f, 0, "~%s.%s" % (va[0], fld))}, {P_(f, 1, "~%s.%s" % (va[0], fld))}]
        if v[0] == "call" and common.cmp_kind(v[3]) == "eq" and len(v[4]) == 2:
            got = [set(ctx.roots(x)) for x in v[4]]
            if got == want or got == want[::-1]:
                true_regions.add(va[0])
                continue
        good = False
        inst.fail("%s:equal:%s" % (inst.id, va[0]), f.path, common.span_of_block_term(f, b),
                  "for two %s assets the result is %s, expected equality of their %s" % (va[0], ctx.show(v, 3), fld))
    if good and true_regions == {"Token", "NativeToken"}:
        inst.site("%s is equality of (kind, identifier)" % f.path)
    elif good:
        inst.fail("%s:equal:incomplete" % inst.id, f.path, f.span, "equal() has no equality region for %s" % sorted({"Token", "NativeToken"} - true_regions))


def transfer_ctor(P):
    from . import names
    return names.get(P).transfer_ctor


def check_transfer_ctor(ctx, inst):
    """The payout constructor builds exactly: cw20 Transfer{recipient, amount} to the asset's contract for Token assets,
    Bank Send{to_address, [Coin{denom, amount}]} for native assets — with identity flow from its (asset, recipient) arguments."""
    P = ctx.P
    try:
        f = transfer_ctor(P)
    except AnchorMissing as e:
        inst.fail("%s:transfer-ctor:anchor" % inst.id, "-", "-", "anchor-missing: %s" % e)
        return None
    amount = {P_(f, 0, ".amount")}
    recip = {P_(f, 1)}
    oks = [(b, v, cs) for (b, v, cs) in fn_table(ctx, f) if common.classify_ret_value(v) != "err"]
    d = "discr(%s)" % P_(f, 0, ".info")
    seen = set()
    for b, v, cs in oks:
        where = common.span_of_block_term(f, b)
        if common.classify_ret_value(v) != "ok":
            inst.fail("%s:transfer-ctor:exit" % inst.id, f.path, where, "non-literal success value: unrecognised-idiom")
            continue
        kinds = [x for x in ("Token", "NativeToken") if "%s in ['%s']" % (d, x) in cs]
        from .selection import resolve as _resolve
        msg = _resolve(v[3][0][1])       # `wasm_execute(..)?` modelled as Ok(WasmMsg::Execute{..}): fold the `?` on the literal
        if len(kinds) != 1:
            inst.fail("%s:transfer-ctor:region" % inst.id, f.path, where, "message built under conditions {%s}: unrecognised-idiom" % "; ".join(sorted(cs)))
            continue
        kind = kinds[0]
        if kind == "Token":
            ok = (msg[0] == "agg" and msg[2].endswith("CosmosMsg::Wasm"))
            if ok:
                w = msg[3][0][1]
                ok = w[0] == "agg" and w[2].endswith("WasmMsg::Execute")
            if ok:
                fields = dict(w[3])
                ca = set(ctx.roots(fields["contract_addr"]))
                funds = fields["funds"]
                payload = set(ctx.roots(fields["msg"]))
                want_payload = "A:cw20::Cw20ExecuteMsg::Transfer{recipient=%s,amount=%s}" % ("|".join(sorted(recip)), "|".join(sorted(amount)))
                bin_ok = any(r.startswith("C:cosmwasm_std::to_binary@") for r in payload)
                inner = None
                for r in payload:
                    pass
                # payload = to_binary(&Transfer{..})
                tb = [x for x in common.walk(fields["msg"]) if x[0] == "call" and isinstance(x[3], str) and generic_path(x[3]).endswith("to_binary")]
                inner = set(ctx.roots(tb[0][4][0])) if tb else set()
                if ca != {P_(f, 0, ".info~Token.contract_addr")}:
                    inst.fail("%s:transfer-ctor:cw20-target" % inst.id, f.path, where, "cw20 transfer is sent to %s, expected the asset's own contract" % sorted(ca))
                elif inner != {want_payload}:
                    inst.fail("%s:transfer-ctor:cw20-payload" % inst.id, f.path, where, "cw20 payload is %s, expected %s" % (sorted(inner), want_payload))
                elif not _empty_vec(ctx, funds):
                    inst.fail("%s:transfer-ctor:cw20-funds" % inst.id, f.path, where, "cw20 transfer message carries funds")
                else:
                    seen.add(kind)
                    inst.site("Token asset -> Wasm::Execute{asset contract, Cw20 Transfer{recipient, amount}} at %s" % where)
            else:
                inst.fail("%s:transfer-ctor:cw20-shape" % inst.id, f.path, where, "Token asset is paid with %s, expected Wasm::Execute(Cw20 Transfer)" % ctx.show(msg, 2))
        else:
            ok = msg[0] == "agg" and msg[2].endswith("CosmosMsg::Bank")
            if ok:
                bm = msg[3][0][1]
                ok = bm[0] == "agg" and bm[2].endswith("BankMsg::Send")
            if ok:
                fields = dict(bm[3])
                to = set(ctx.roots(fields["to_address"]))
                coins = [x for x in common.walk(fields["amount"]) if x[0] == "agg" and str(x[2]).endswith("Coin")]
                if to != recip:
                    inst.fail("%s:transfer-ctor:bank-recipient" % inst.id, f.path, where, "bank send goes to %s, expected the recipient argument" % sorted(to))
                elif len(coins) != 1:
                    inst.fail("%s:transfer-ctor:bank-coins" % inst.id, f.path, where, "bank send carries %d coin aggregates, expected exactly one" % len(coins))
                else:
                    cf = dict(coins[0][3])
                    ca, cd = set(ctx.roots(cf["amount"])), set(ctx.roots(cf["denom"]))
                    if ca != amount or cd != {P_(f, 0, ".info~NativeToken.denom")}:
                        inst.fail("%s:transfer-ctor:bank-coin" % inst.id, f.path, where, "coin is (%s, %s), expected (asset amount, asset denom)" % (sorted(ca), sorted(cd)))
                    else:
                        seen.add(kind)
                        inst.site("Native asset -> Bank::Send{recipient, [Coin{denom, amount}]} at %s" % where)
            else:
                inst.fail("%s:transfer-ctor:bank-shape" % inst.id, f.path, where, "native asset is paid with %s, expected Bank::Send" % ctx.show(msg, 2))
    if seen != {"Token", "NativeToken"} and inst.status == "pass":
        inst.fail("%s:transfer-ctor:incomplete" % inst.id, f.path, f.span, "transfer constructor has no success region for %s" % sorted({"Token", "NativeToken"} - seen))
    return f


def _empty_vec(ctx, v):
    """A `vec![]` value (Vec::new()) or an array-literal vector without elements."""
    if v[0] == "agg" and v[2] == "vec":
        return len(v[3]) == 0
    if v[0] == "call" and isinstance(v[3], str) and generic_path(v[3]).endswith("Vec::new"):
        return True
    return False


def check_query_pool(ctx, inst):
    """AssetInfo::query_pool(self, querier, api, account) is the balance of exactly that asset held by exactly that account:
    Token -> cw20 balance query at the token contract for `account`; NativeToken -> bank balance of `account` in that denom."""
    P = ctx.P
    N = ctx.N
    try:
        f = N.query_pool
        qb, qt = N.q_balance, N.q_token_balance
    except AnchorMissing as e:
        inst.fail("%s:query-pool:anchor" % inst.id, "-", "-", "anchor-missing: %s" % e)
        return None
    d = "discr(%s)" % P_(f, 0)
    acct = P_(f, 3)
    seen = set()
    for b, v, cs in fn_table(ctx, f):
        if common.classify_ret_value(v) == "err":
            continue
        where = common.span_of_block_term(f, b)
        kinds = [x for x in ("Token", "NativeToken") if "%s in ['%s']" % (d, x) in cs]
        calls = [x for x in common.walk(v) if x[0] == "call" and isinstance(x[3], str) and (N.is_fn(x[3], "q_balance") or N.is_fn(x[3], "q_token_balance"))]
        if len(kinds) != 1 or len(calls) != 1:
            inst.fail("%s:query-pool:shape" % inst.id, f.path, where, "balance helper returns %s under {%s}: unrecognised-idiom" % (ctx.show(v, 3), "; ".join(sorted(cs))[:200]))
            continue
        q = calls[0]
        if kinds[0] == "NativeToken":
            ok = N.is_fn(q[3], "q_balance") and set(ctx.roots(q[4][1])) == {acct} and set(ctx.roots(q[4][2])) == {P_(f, 0, "~NativeToken.denom")}
        else:
            ok = N.is_fn(q[3], "q_token_balance") and set(ctx.roots(q[4][2])) == {acct} and \
                set(ctx.roots(q[4][1])) in ({"valid(%s)" % P_(f, 0, "~Token.contract_addr")}, {P_(f, 0, "~Token.contract_addr")})
        if not ok:
            inst.fail("%s:query-pool:%s" % (inst.id, kinds[0]), f.path, where, "for a %s asset the balance helper queries %s(%s), not that asset's balance of the given account" % (
                kinds[0], common.short_path(q[3]), ", ".join("|".join(sorted(ctx.roots(a))) for a in q[4][1:])))
        else:
            seen.add(kinds[0])
    if seen == {"Token", "NativeToken"}:
        inst.site("%s: balance of (asset, account) — bank balance for native, cw20 balance for tokens" % f.path)
        return f
    if inst.status == "pass":
        inst.fail("%s:query-pool:incomplete" % inst.id, f.path, f.span, "balance helper does not cover both asset kinds")
    return None


# ---------------------------------------------------------------------------------------------------------------------------
# case tables through small pure callees (trait-provided methods, multi-exit helpers)

def _callee_for_cases(P, x, bind):
    """The workspace function a call value lands in, for case expansion: plain private / public pure functions, provided
    methods of a workspace trait (generic over Self) and — with a known Self binding — the impl a `<Self as Trait>::m`
    call resolves to.  Returns (fn, self binding for calls inside fn) or None."""
    if x[0] != "call" or not isinstance(x[3], str):
        return None
    home = P.fn(str(x[1])) or P.fn(str(x[1]).rsplit("#", 1)[0])
    fr = None
    if home is not None and home.body is not None and isinstance(x[2], int) and x[2] < len(home.body.blocks):
        t = home.body.blocks[x[2]]["term"]
        if t.get("k") == "call":
            fr = (t.get("func") or {}).get("fn")
    g = P.fn(x[3]) or P.fn(generic_path(x[3]))
    self_ty = None
    if fr and fr.get("trait") and (fr.get("krate") in ("haloswap", "halo_pair", "halo_factory", "halo_router", "bignumber")):
        a0 = (fr.get("args") or [None])[0]
        self_ty = bind.get(home.path) if a0 == "Self" and home is not None else a0
        if self_ty:
            impl = [h for h in P.fns.values() if h.body is not None and h.kind == "assoc_fn" and h.name == fr.get("name") and
                    h.impl_self == self_ty and (h.impl_trait or "") == fr["trait"]]
            if len(impl) == 1:
                g = impl[0]
    if g is None or g.body is None or g.derived or g.body.back_edges() or len(g.body.blocks) > 40:
        return None
    if g.crate not in ("haloswap", "halo_pair", "halo_factory", "halo_router"):
        return None
    if not common._effect_free(P, g, 0):
        return None
    return g, self_ty


def _fold_cases(v):
    """Evaluate is_some / is_none / == on literal Option and tuple aggregates (after a case substitution made them literal)."""
    from .selection import resolve
    v = resolve(v)
    if not isinstance(v, tuple) or not v:
        return v
    if v[0] == "call" and isinstance(v[3], str):
        args = tuple(_fold_cases(a) for a in v[4])
        g = generic_path(v[3])
        def opt_kind(a):
            if a[0] == "agg" and a[1] == "adt" and str(a[2]).endswith("option::Option::Some"):
                return "Some"
            if a[0] == "agg" and a[1] == "adt" and str(a[2]).endswith("option::Option::None"):
                return "None"
            return None
        if re.search(r"option::Option::is_(some|none)$", g) and len(args) == 1 and opt_kind(args[0]):
            truth = (opt_kind(args[0]) == "Some") == g.endswith("is_some")
            return ("const", "int", 1 if truth else 0)
        if common.cmp_kind(v[3]) == "eq" and len(args) == 2:
            a, b = args
            if a[0] == "agg" and b[0] == "agg" and a[1] == b[1] == "tuple" and len(a[3]) == len(b[3]):
                comps = [(x, y) for (_, x), (_, y) in zip(a[3], b[3])]
            elif opt_kind(a) and opt_kind(b):
                comps = [(a, b)]
            else:
                return ("call", v[1], v[2], v[3], args)
            rest = []
            for x, y in comps:
                kx, ky = opt_kind(x), opt_kind(y)
                if kx and ky:
                    if kx != ky:
                        return ("const", "int", 0)
                    if kx == "Some":
                        rest.append((x[3][0][1], y[3][0][1]))
                else:
                    rest.append((x, y))
            if not rest:
                return ("const", "int", 1)
            if len(rest) == 1:
                return ("call", v[1], v[2], "<T as std::cmp::PartialEq>::eq", rest[0])
        return ("call", v[1], v[2], v[3], args)
    return v


def case_rows(ctx, f, max_rows=32):
    """fn_table of f with calls to small pure workspace callees that *decide* (several exits, provided trait methods, impls
    chosen by the Self type) expanded into their cases: [(exit bb of f, value, frozenset(condition strings))]."""
    from .selection import replace
    P = ctx.P
    R0 = ctx.R

    def table(g, R):
        ctx.R = R
        try:
            return [(b, v, frozenset(cond_strings(ctx, common.control_conditions(P, g, b)))) for (b, i, cls, v) in common.exit_sites(P, g)]
        finally:
            ctx.R = R0

    rows = [(b, v, cs, {f.path: f.impl_self}, R0) for (b, v, cs) in table(f, R0)]
    out = []
    steps = 0
    while rows:
        b, v, cs, bind, R = rows.pop(0)
        steps += 1
        if steps > 400 or len(out) + len(rows) > max_rows:
            return None
        v = _fold_cases(v)
        target = None
        for x in common.walk(v):
            if x is v and False:
                continue
            hit = _callee_for_cases(P, x, bind) if x[0] == "call" else None
            if hit is not None:
                g, sty = hit
                gt = None
                if len(common.exit_sites(P, g)) > 1 or g.impl_trait or (g.j.get("trait_provided") if hasattr(g, "j") else False) or "Self" in (g.sig or ""):
                    target = (x, g, sty)
                    break
        if target is None:
            out.append((b, v, cs))
            continue
        x, g, sty = target
        R2 = R.with_params(g.path, x[4])
        bind2 = dict(bind)
        bind2[g.path] = sty
        for (b2, v2, cs2) in table(g, R2):
            v2s = common.subst_params(v2, {("param", g.path, i): a for i, a in enumerate(x[4])})
            rows.append((b, replace(v, x, v2s), frozenset(cs | cs2), bind2, R))
    return out


def table_with_cases(ctx, f):
    """fn_table, or — when an exit value is a call that decides in a callee — the expanded case rows."""
    base = fn_table(ctx, f)
    if not any(v[0] == "call" and _callee_for_cases(ctx.P, v, {f.path: f.impl_self}) is not None for (b, v, cs) in base):
        return base
    rows = case_rows(ctx, f)
    return rows if rows is not None else base
