"""C02 — swap settlement moves exactly the declared asset and amounts (DESIGN §5 C02)."""
import re
from .. import common, roles, lemmas
from ..roles import P_, param, INFO_TY, ENV_TY, AnchorMissing
from ..mir import generic_path
from . import c09


def hook_swap_arm(ctx, pr):
    recv, edge, region, handler, callbb = pr.swap_hook
    return recv, edge, region, handler, callbb


def guards_in_region(ctx, fn, region):
    return [g for g in common.bool_guards(ctx.P, fn) if g.b in region]


def check_guard_protects_call(ctx, inst, fn, pass_edge, fail_edge, callbb, what, key):
    if not fn.body.edge_dominates(pass_edge, callbb):
        inst.fail(key + ":not-dominating", fn.path, common.span_of_block_term(fn, callbb), "the swap handler is reachable without passing the %s check" % what)
        return False
    ok, why = common.fail_edge_only_errors(ctx.P, fn, fail_edge, [callbb])
    if not ok:
        inst.fail(key + ":fail-edge", fn.path, common.span_of_block_term(fn, fail_edge[0]), "the rejecting branch of the %s check does not reject: %s" % (what, why))
        return False
    return True


def flag_guard(ctx, fn, region, callbb):
    """The `authorized` idiom: a bool local initialised false, set true only under an inner guard, tested before the call.
    Returns (flag switch guard, [(set_bb, inner guards dominating it)])."""
    P = ctx.P
    body = fn.body
    for g in guards_in_region(ctx, fn, region):
        if g.cond[0] != "flag":
            continue
        t = body.blocks[g.b]["term"]
        d = t["discr"]
        # find the flag local: follow a Not / copy chain back to a user variable
        v = g.cond[1]
        if not (v[0] == "phi" and all(x[0] == "const" and x[1] == "int" for x in v[1])):
            continue
        # locate the local: operand of the switch or of the `Not` feeding it
        cands = []
        if d["k"] in ("copy", "move"):
            l = d["place"]["l"]
            cands.append(l)
            for st in body.blocks[g.b]["stmts"]:
                if st["k"] == "assign" and st["place"]["l"] == l and st["rv"]["k"] in ("unop", "use"):
                    a = st["rv"]["a"] if st["rv"]["k"] == "unop" else st["rv"]["op"]
                    if a["k"] in ("copy", "move") and not a["place"]["p"]:
                        cands.append(a["place"]["l"])
        flag = None
        for l in cands:
            if l in body.names:
                flag = l
        if flag is None:
            continue
        sets = []
        for (b, i, kind) in body.defs().get(flag, []):
            if kind != "full":
                continue
            rv = body.blocks[b]["stmts"][i]["rv"]
            if rv["k"] == "use" and rv["op"].get("int") == "1":
                sets.append(b)
        # which edge of the flag test is the "flag is true" edge
        true_edge = g.edge(True)
        false_edge = g.edge(False)
        if body.edge_dominates(true_edge, callbb):
            return g, flag, sets, true_edge, false_edge
    return None


def run(ctx):
    P = ctx.P
    R = {}
    for iid, desc, floor in [
        ("C02.R1", "hook arm: swap handler call behind offer_asset.amount == cw20 amount received", 1),
        ("C02.R2", "hook arm: swap handler call behind 'hook caller is one of the pair's own cw20 assets'", 1),
        ("C02.R3", "hook arm: the asset named in the hook is bound to the token that sent it", 1),
        ("C02.R4", "direct arm: swap handler reachable only for a native offer asset, and only for an asset that is one of the two pools", 3),
        ("C02.R5", "declared native amount equals attached funds before pricing (shared with C09.R3)", 3),
        ("C02.R6", "payout: at most one transfer, asset = ask pool info, amount = priced return, recipient = to or the trader; reported attributes from the same values", 4),
        ("C02.R7", "swap handler is called only from the two swap arms", 2),
        ("C02.R8", "trader identity: sender argument is info.sender (direct) / the cw20 envelope's sender (hook); recipient override only from the message's `to`", 4),
        ("C02.L1", "support lemmas: AssetInfo::equal is equality, is_native_token tests the variant, transfer constructor builds plain transfers", 5),
    ]:
        R[iid] = ctx.inst(iid, desc, floor)
    try:
        pr = roles.PairRoles(P)
    except AnchorMissing as e:
        for r in R.values():
            r.fail("%s:anchor" % r.id, "-", "-", "anchor-missing: %s" % e)
        return
    lem = R["C02.L1"]
    lemmas.check_equal(ctx, lem)
    lemmas.check_is_native(ctx, lem)
    tc = lemmas.check_transfer_ctor(ctx, lem)

    swap = pr.swap_handler
    recv, hedge, hregion, _, hcall = pr.swap_hook
    rinfo = param(recv, INFO_TY)
    cw20_i = common.param_index_of_type(recv, r"^cw20::\S*Cw20ReceiveMsg$")
    if cw20_i is None:
        R["C02.R1"].fail("C02.R1:anchor", recv.path, recv.span, "anchor-missing: Receive handler has no Cw20ReceiveMsg parameter")
        return
    hv = P.val_call(recv, recv.body, hcall)
    offer_i = common.param_index_of_type(swap, "^%s$" % ctx.N.rx("Asset"))
    sender_i = common.param_access(P, swap, r"^cosmwasm_std::\S*Addr$")
    to_i = common.param_access(P, swap, r"^std::option::Option<cosmwasm_std::\S*Addr>$")
    sinfo = param(swap, INFO_TY)
    if None in (offer_i, sender_i, to_i):
        R["C02.R6"].fail("C02.R6:anchor", swap.path, swap.span, "anchor-missing: swap handler parameters (Asset, Addr, Option<Addr>) not unique")
        return
    hook_offer = set(ctx.roots(hv[4][offer_i]))
    if len(hook_offer) != 1 or not list(hook_offer)[0].startswith("C:cosmwasm_std::from_binary@"):
        R["C02.R1"].fail("C02.R1:offer-origin", recv.path, common.span_of_block_term(recv, hcall), "hook path: offer asset handed to the swap handler ⊢ %s, expected the decoded hook message's offer_asset" % sorted(hook_offer))
        return
    offer_root = list(hook_offer)[0]

    # ---- R1 amount binding ----------------------------------------------------------------------
    r = R["C02.R1"]
    found = False
    for g in guards_in_region(ctx, recv, hregion):
        c = g.cond
        if c[0] == "cmp" and c[1] in ("eq", "ne") and len(c[2]) == 2:
            a, b = set(ctx.roots(c[2][0])), set(ctx.roots(c[2][1]))
            want = [{offer_root + ".amount"}, {P_(recv, cw20_i, ".amount")}]
            if [a, b] == want or [b, a] == want:
                truth = c[1] == "eq"
                if check_guard_protects_call(ctx, r, recv, g.edge(truth), g.edge(not truth), hcall, "hook amount", "C02.R1"):
                    r.site("eq(offer_asset.amount, cw20_msg.amount) at %s dominates the swap call" % common.span_of_block_term(recv, g.b))
                found = True
    if not found:
        r.fail("C02.R1:no-guard", recv.path, recv.span, "no equality check between the hook's offer_asset.amount and the cw20 amount received before the swap handler is called")

    # ---- R3 asset binding ---------------------------------------------------------------------------
    r3 = R["C02.R3"]
    r3_ok = False
    want_tok = "A:%s::Token{contract_addr=%s}" % (ctx.N.AssetInfo, P_(recv, rinfo, ".sender"))
    # (a) the asset info handed over is built from info.sender
    if set(ctx.roots(hv[4][offer_i], (("f", "info"),))) == {want_tok}:
        r3_ok = True
        r3.site("offer asset info is constructed from info.sender")
    for g in guards_in_region(ctx, recv, hregion):
        c = g.cond
        if c[0] == "cmp" and c[1] in ("eq", "ne", "equal") and len(c[2]) == 2:
            a, b = set(ctx.roots(c[2][0])), set(ctx.roots(c[2][1]))
            wants = [[{offer_root + ".info"}, {want_tok}],
                     [{offer_root + ".info~Token.contract_addr"}, {P_(recv, rinfo, ".sender")}]]
            if any([a, b] == w or [b, a] == w for w in wants):
                truth = c[1] in ("eq", "equal")
                if check_guard_protects_call(ctx, r3, recv, g.edge(truth), g.edge(not truth), hcall, "hook asset binding", "C02.R3"):
                    r3.site("equal(offer_asset.info, Token{info.sender}) at %s dominates the swap call" % common.span_of_block_term(recv, g.b))
                    r3_ok = True
    if not r3_ok and r3.status == "pass":
        r3.fail("C02.R3:no-binding", recv.path, recv.span,
                "the asset named in the cw20 hook is never compared with the token contract that sent it (info.sender): a Send of token B naming token A would be priced as an offer of A")

    # ---- R2 hook origin (flag idiom, or implied by R3 + the handler's pool-membership test) ---------------
    r2 = R["C02.R2"]
    fg = flag_guard(ctx, recv, hregion, hcall)
    if fg is not None:
        g, flag, sets, te, fe = fg
        ok, why = common.fail_edge_only_errors(P, recv, fe, [hcall])
        if not ok:
            r2.fail("C02.R2:flag-fail-edge", recv.path, common.span_of_block_term(recv, g.b), "the unauthorised branch does not reject: %s" % why)
        good_sets = 0
        for sb in sets:
            inner = None
            for g2 in common.bool_guards(P, recv):
                c = g2.cond
                if c[0] == "cmp" and c[1] in ("eq", "ne") and len(c[2]) == 2:
                    a, b = set(ctx.roots(c[2][0])), set(ctx.roots(c[2][1]))
                    truth = c[1] == "eq"
                    if recv.body.edge_dominates(g2.edge(truth), sb):
                        sides = [a, b]
                        # the stored (raw) asset list compared directly: human(asset_infos[i]~Token.contract_addr) == info.sender,
                        # or asset_infos[i]~Token.contract_addr == canonicalize(info.sender)
                        SND_ = P_(recv, rinfo, ".sender")
                        for sa_, sb_ in ((a, b), (b, a)):
                            if len(sb_) != 1:
                                continue
                            o_ = list(sb_)[0]
                            m_h = re.match(r"^human\((.+)~Token\.contract_addr\)$", o_) if sa_ == {SND_} else \
                                (re.match(r"^(.+)~Token\.contract_addr$", o_) if sa_ == {"canon(%s)" % SND_} else None)
                            if m_h:
                                lp_ = [l for l in common.loops(P, recv) if l["item_root"] == m_h.group(1)]
                                if lp_:
                                    ads_, kind_, src_ = common.iter_chain(lp_[0]["iter"])
                                    if not ads_ and kind_ == "iter" and set(ctx.roots(src_)) == {"load(%s).asset_infos" % ctx.N.PAIR_INFO}:
                                        inner = (g2, "stored")
                        if {P_(recv, rinfo, ".sender")} in sides:
                            other = sides[1 - sides.index({P_(recv, rinfo, ".sender")})]
                            if len(other) == 1 and re.search(r"\.info~Token\.contract_addr$", list(other)[0]):
                                inner = (g2, list(other)[0])
                            # the stored asset list itself, humanised: `asset_info.to_normal(api)?` of PAIR_INFO.asset_infos[i]
                            m_ = re.match(r"^C:(\S+)@%s:bb(\d+)~Token\.contract_addr$" % re.escape(recv.path), list(other)[0]) if len(other) == 1 else None
                            if m_ and ctx.N.is_fn(m_.group(1), "info_to_normal"):
                                tv_ = P.val_call(recv, recv.body, int(m_.group(2)))
                                ar_ = set(ctx.roots(tv_[4][0]))
                                lp_ = [l for l in common.loops(P, recv) if ar_ == {l["item_root"]}]
                                if lp_:
                                    ads_, kind_, src_ = common.iter_chain(lp_[0]["iter"])
                                    if not ads_ and kind_ == "iter" and set(ctx.roots(src_)) == {"load(%s).asset_infos" % ctx.N.PAIR_INFO}:
                                        inner = (g2, "stored")
            if inner is None:
                r2.fail("C02.R2:flag-set-unguarded", recv.path, common.span_of_block_term(recv, sb),
                        "the authorisation flag is set without comparing a pool token's contract address with info.sender")
                continue
            # the compared pool element must come from the pair's own pools
            g2, other = inner
            lp = [l for l in common.loops(P, recv) if other.startswith(l["item_root"])]
            src_ok = False
            if other == "stored":
                src_ok = True       # every element of the pair's stored asset list (what query_pools reports, without the balances)
            elif lp:
                ads, kind, src = common.iter_chain(lp[0]["iter"])
                sr = set(ctx.roots(src))
                if not ads and kind == "iter" and len(sr) == 1 and re.match(r"^C:%s@" % ctx.N.rx("query_pools"), list(sr)[0]):
                    src_ok = True
            elif re.match(r"^C:%s@" % ctx.N.rx("query_pools"), other):
                src_ok = True
            if not src_ok:
                r2.fail("C02.R2:flag-source", recv.path, common.span_of_block_term(recv, g2.b), "authorisation compares info.sender with %s, which is not an element of the pair's own pools" % other)
            else:
                good_sets += 1
        if good_sets and r2.status == "pass":
            r2.site("flag idiom: `%s` set only under pool[i].Token.contract_addr == info.sender; tested at %s before the swap call" % (
                recv.body.names.get(flag, "_%d" % flag), common.span_of_block_term(recv, g.b)))
        elif not sets:
            r2.fail("C02.R2:flag-never-set", recv.path, recv.span, "authorisation flag is never set")
    else:
        # implied: R3 binds the named asset to the caller and the handler rejects assets that are not in the pool
        g19 = pool_membership(ctx, swap, offer_i)
        if r3_ok and g19:
            r2.site("implied: named asset == Token{info.sender} (R3) and the swap handler rejects assets outside the pair's pools")
        else:
            r2.fail("C02.R2:no-origin-check", recv.path, recv.span, "no check that the hook caller is one of the pair's own cw20 assets")

    # ---- R4 direct swap native only ------------------------------------------------------------------------------
    r4 = R["C02.R4"]
    ex, dedge, dregion, _, dcall = pr.swap_direct
    dv = P.val_call(ex, ex.body, dcall)
    exm = pr.execute          # the entry point holding the message (== ex unless the arm goes through a thin per-variant handler)
    msg_i = common.param_index_of_type(exm, "^%s$" % re.escape(ctx.N.exec_enum("pair")))
    direct_offer = set(ctx.roots(dv[4][offer_i]))
    want_direct = {P_(exm, msg_i, "~Swap.offer_asset")}
    if direct_offer != want_direct:
        r4.fail("C02.R4:offer-origin", ex.path, common.span_of_block_term(ex, dcall), "direct path: offer asset ⊢ %s, expected the message's offer_asset" % sorted(direct_offer))
    found = False
    for g in guards_in_region(ctx, ex, dregion):
        c = g.cond
        if c[0] == "cmp" and c[1] == "is_native_token" and set(ctx.roots(c[2][0])) in (want_direct, {P_(exm, msg_i, "~Swap.offer_asset.info")}):
            if check_guard_protects_call(ctx, r4, ex, g.edge(True), g.edge(False), dcall, "native-offer", "C02.R4"):
                r4.site("is_native_token(offer_asset) at %s dominates the direct swap call" % common.span_of_block_term(ex, g.b))
            found = True
    if not found:
        # the same test written as a match on the asset kind: `if let AssetInfo::Token {..} = &offer_asset.info { return Err(..) }`
        for sb_, blk_ in enumerate(ex.body.blocks):
            if blk_["cleanup"] or sb_ not in dregion or blk_["term"]["k"] != "switch":
                continue
            c_ = common.switch_cond(P, ex, sb_)
            if not c_ or c_[0] != "discr" or set(ctx.roots(c_[1])) != {P_(exm, msg_i, "~Swap.offer_asset.info")}:
                continue
            ty_ = common.discr_place_ty(ex, sb_)
            t_ = blk_["term"]
            tgt_ = {}
            for val_, tb_ in t_["arms"]:
                tgt_[common.variant_name(P, ty_, val_)] = tb_
            rest_ = [x_ for x_ in (common.all_variants(P, ty_) or []) if x_ not in tgt_]
            if len(rest_) == 1 and ex.body.blocks[t_["otherwise"]]["term"]["k"] != "unreachable":
                tgt_[rest_[0]] = t_["otherwise"]
            if set(tgt_) == {"Token", "NativeToken"}:
                if check_guard_protects_call(ctx, r4, ex, (sb_, tgt_["NativeToken"]), (sb_, tgt_["Token"]), dcall, "native-offer", "C02.R4"):
                    r4.site("match on offer_asset.info at %s: Token => Err, NativeToken dominates the direct swap call" % common.span_of_block_term(ex, sb_))
                found = True
    if not found:
        r4.fail("C02.R4:no-guard", ex.path, common.span_of_block_term(ex, dcall), "the direct Swap arm reaches the swap handler without requiring a native offer asset (a cw20 offer would be credited without being delivered)")
    else:
        r4.site("direct offer asset ⊢ ExecuteMsg::Swap.offer_asset")
    # a native offer is bound to the attached funds (R5), but the reserve credited must be the one of that very asset:
    # the handler has to reject a named asset that is neither of its pools
    if pool_membership(ctx, swap, offer_i):
        r4.site("swap handler: named asset is matched against pools[0] and pools[1] by equality, neither => Err")
    else:
        r4.fail("C02.R4:pool-membership", swap.path, swap.span,
                "the swap handler does not reject an offer asset that equals neither pool: a foreign native coin attached to a direct swap is priced as an offer of a pool asset the pair did not receive")

    # ---- R5 shared with C09.R3 ---------------------------------------------------------------------------------------
    r5 = R["C02.R5"]
    sub = type(ctx)(ctx.prop, P)
    c09.run(sub)
    for i in sub.instances:
        if i.id == "C09.R3":
            r5.sites.extend(i.sites)
            r5.evaluations += i.evaluations
            for f in i.failures:
                r5.fail("C02.R5:" + f["key"], f["fn"], f["span"], f["reason"])
        if i.id == "C09.R1":
            for f in i.failures:
                r5.fail("C02.R5:" + f["key"], f["fn"], f["span"], f["reason"])

    # ---- R6 payout ---------------------------------------------------------------------------------------------------------
    r6 = R["C02.R6"]
    sinks = roles.sink_blocks(P, swap)
    pays = pr.calls_to(swap, tc) if tc is not None else []
    others = [(b, d) for (b, d) in sinks if b not in pays]
    role_items = ctx.N.role_items()
    for b, d in others:
        m_ = re.match(r"^store \w+ (\S+)$", d)
        if m_ and m_.group(1) not in role_items and m_.group(1).startswith("I:"):
            r6.site("%s: a storage item none of the properties speaks about (no payout, no pricing input)" % d)
            continue
        r6.fail("C02.R6:extra-effect:%s" % d, swap.path, common.span_of_block_term(swap, b), "swap handler has an effect besides the single payout: %s" % d)
    if len(pays) != 1:
        r6.fail("C02.R6:payout-count", swap.path, swap.span, "swap handler builds %d payout transfers, expected exactly one" % len(pays))
    pricing_root = None
    for cb in pays:
        cv = P.val_call(swap, swap.body, cb)
        where = common.span_of_block_term(swap, cb)
        amt = set(ctx.roots(cv[4][0], (("f", "amount"),)))
        inf = set(ctx.roots(cv[4][0], (("f", "info"),)))
        rec = set(ctx.roots(cv[4][1]))
        m = [re.match(r"^C:([\w:<>]+)@%s:bb(\d+)\.0$" % re.escape(swap.path), x) for x in amt]
        if len(amt) != 1 or not m[0] or not roles.is_workspace_fn(P, m[0].group(1)):
            r6.fail("C02.R6:amount-origin", swap.path, where, "payout amount ⊢ %s, expected component .0 of the pricing function's result (identity flow)" % sorted(amt))
        else:
            pricing_root = list(amt)[0][:-2]
            r6.site("payout amount ⊢ %s" % list(amt)[0])
        if not inf or not all(re.match(r"^C:%s@%s:bb\d+\[[01*]\]\.info$" % (ctx.N.rx("query_pools"), re.escape(swap.path)), x) for x in inf):
            r6.fail("C02.R6:asset-origin", swap.path, where, "payout asset ⊢ %s, expected the info of one of the pair's own pools" % sorted(inf))
        else:
            r6.site("payout asset ⊢ pools[k].info")
        want_rec = "or(%s;%s)" % (to_i.some_root(), sender_i.root())
        if rec != {want_rec}:
            r6.fail("C02.R6:recipient-origin", swap.path, where, "payout recipient ⊢ %s, expected `to` or else the trader (%s)" % (sorted(rec), want_rec))
        else:
            r6.site("payout recipient ⊢ to.unwrap_or(sender)")
        # the payout may be skipped only for an empty return (a zero-amount transfer is refused by the chain): every other
        # condition the payout sits under must be one the successful exit sits under as well
        pay_cs = lemmas.cond_strings(ctx, common.control_conditions(P, swap, cb))
        ok_cs = None
        exits_ = common.exit_sites(P, swap)
        oks_ = [e_ for e_ in exits_ if e_[2] == "ok"] or [e_ for e_ in exits_ if e_[2] != "err"]
        for (ob, _i, cls_, _v) in oks_:
            s_ = lemmas.cond_strings(ctx, common.control_conditions(P, swap, ob))
            ok_cs = s_ if ok_cs is None else (ok_cs & s_)
        zero_rx = r"(K:0|C:cosmwasm_std::(\S*::)?Uint128::zero@[^|,]*)"
        for c_ in sorted(pay_cs - (ok_cs or set())):
            m_z = re.match(r"^is_zero\((.+)\) is \[False\]$", c_) or re.match(r"^lt\(%s, (.+)\)$" % zero_rx, c_)
            if m_z and amt and m_z.group(m_z.lastindex) == "|".join(sorted(amt)):
                r6.site("payout skipped only when the priced return is zero")
            else:
                r6.fail("C02.R6:payout-gate:%s" % c_[:80], swap.path, where,
                        "the payout is built only under %s, which the successful exit is not under: a swap can succeed without paying the priced return" % c_)
    # reported attributes
    if pricing_root:
        attrs = {}
        for b, blk in enumerate(swap.body.blocks):
            if blk["cleanup"]:
                continue
            for i, st in enumerate(blk["stmts"]):
                if st["k"] == "assign" and st["rv"]["k"] == "agg" and st["rv"]["agg"] == "tuple" and len(st["rv"]["ops"]) == 2:
                    v = P.val_rvalue(swap, swap.body, (b, i), st["rv"])
                    k = v[3][0][1]
                    if k[0] == "const" and k[1] == "str":
                        attrs[k[2]] = (set(ctx.roots(v[3][1][1])), st["span"])
        want = {"return_amount": {pricing_root + ".0"}, "offer_amount": {P_(swap, offer_i, ".amount")},
                "spread_amount": {pricing_root + ".1"}, "commission_amount": {pricing_root + ".2"}}
        for k, w in want.items():
            if k in attrs:
                if attrs[k][0] != w:
                    r6.fail("C02.R6:attr:%s" % k, swap.path, attrs[k][1].replace("!x", ""), "reported %s ⊢ %s, expected %s" % (k, sorted(attrs[k][0]), sorted(w)))
                else:
                    r6.site("attribute %s ⊢ %s" % (k, sorted(w)[0]))

    # ---- R7 who may call -------------------------------------------------------------------------------------------------------
    r7 = R["C02.R7"]
    for c, cb in P.callers(swap.path):
        if "::tests::" in c.path:
            continue
        if (c.path == recv.path and cb in hregion) or (c.path == ex.path and cb in dregion):
            r7.site("%s at %s" % (c.path, common.span_of_block_term(c, cb)))
        else:
            r7.fail("C02.R7:extra-caller:%s" % c.path, c.path, common.span_of_block_term(c, cb), "swap handler is also called from %s" % c.path)

    # ---- R8 trader identity and recipient override -------------------------------------------------------------------------------
    r8 = R["C02.R8"]
    exi = param(ex, INFO_TY)
    checks = [
        ("direct sender", sender_i.arg_roots(ctx.R, dv), {P_(ex, exi, ".sender")}, ex, dcall),
        ("hook sender", sender_i.arg_roots(ctx.R, hv), {P_(recv, cw20_i, ".sender")}, recv, hcall),
        ("direct to", to_i.arg_roots(ctx.R, dv), {"A:std::option::Option::None{}", "A:std::option::Option::Some{0=valid(%s)}" % P_(exm, msg_i, "~Swap.to~Some.0")}, ex, dcall),
        ("hook to", to_i.arg_roots(ctx.R, hv), {"A:std::option::Option::None{}", "A:std::option::Option::Some{0=valid(%s~Swap.to~Some.0)}" % offer_root.split("~Swap")[0]}, recv, hcall),
    ]
    for label, got, want, f, cb in checks:
        # `to` may also be forwarded unvalidated / as-is
        alt = {x.replace("valid(", "").replace(")}", "}") for x in want}
        whole = set()
        if label.endswith("to"):
            # the message's optional field handed over as it is (the handler validates it itself)
            whole = {re.sub(r"~Some\.0\)?\}$", "", x.split("{0=", 1)[1].replace("valid(", "")) for x in want if "{0=" in x}
        if got == want or got == alt or (whole and got == whole) or (label.endswith("to") and got <= want | alt and any("Some" in g for g in got)):
            r8.site("%s ⊢ %s" % (label, sorted(got)))
        else:
            r8.fail("C02.R8:%s" % label.replace(" ", "-"), f.path, common.span_of_block_term(f, cb), "%s passed to the swap handler ⊢ %s, expected %s" % (label, sorted(got), sorted(want)))
    ctx.assumptions.append("the cw20 contract moved `amount` to the pair before invoking the hook and reports the true sender (cw20-base semantics)")
    ctx.assumptions.append("extra coins of other denoms attached to a direct swap stay with the pair (a donation by the caller)")


def pool_membership(ctx, swap, offer_i):
    """The swap handler errs unless the named offer info equals pools[0].info or pools[1].info (G19)."""
    from .. import selection
    P = ctx.P
    qp = [b for b, p, fr, t in P.calls(swap) if ctx.N.is_fn(p, "query_pools")]
    if len(qp) != 1:
        return False
    QP = "C:%s@%s:bb%d" % (ctx.N.cpath("query_pools"), swap.path, qp[0])
    try:
        return selection.PoolSelection(ctx, swap, offer_i, QP).rejects_foreign()
    except AnchorMissing:
        return False
