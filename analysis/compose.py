"""Composition of rule instances across properties: a property that rests on a clause decided for another
property imports that clause's verdict (sites and failures) under its own instance id."""
import re


def pull(ctx, inst, mod, ids, prefix, key_rx=None, max_sites=8):
    sub = type(ctx)(ctx.prop, ctx.P)
    sub.P_release = ctx.P_release
    mod.run(sub)
    for i in sub.instances:
        if i.id in ids:
            inst.sites.extend("%s: %s" % (i.id, s) for s in i.sites[:max_sites])
            inst.evaluations += i.evaluations
            for f in i.failures:
                if key_rx is None or re.search(key_rx, f["key"]):
                    inst.fail("%s:%s" % (prefix, f["key"]), f["fn"], f["span"], "[%s] %s" % (i.id, f["reason"]))
