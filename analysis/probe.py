import sys, time
sys.path.insert(0, '/verif')
from analysis import facts, mir
t=time.time()
d = facts.build_facts()
P = mir.Program(facts.load_facts(d))
print("loaded %.2fs, fns=%d prod=%d" % (time.time()-t, len(P.fns), len(list(P.prod_fns()))))
def aggs(fn, pred):
    for b, blk in enumerate(fn.body.blocks):
        if blk['cleanup']: continue
        for i, st in enumerate(blk['stmts']):
            if st['k']=='assign' and st['rv']['k']=='agg' and pred(st['rv']):
                yield b, i, st
if __name__ == '__main__':
    f = P.fn(sys.argv[1])
    pat = sys.argv[2]
    for b,i,st in aggs(f, lambda rv: rv.get('agg')=='adt' and pat in rv['adt']+'::'+rv['variant']):
        v = P.val_rvalue(f, f.body, (b,i), st['rv'])
        print(st['span'], mir.show(v, maxdepth=int(sys.argv[3]) if len(sys.argv)>3 else 6))
