"""Core program model over the JSON MIR facts: CFG, reachability / edge dominance,
reaching definitions, and a lazily evaluated value graph (provenance).

Values are hashable tuples:
  ('param', fn, i)                         i-th argument (0-based) of fn (or closure)
  ('const', kind, v)                       kind in int/str/fn/zst/item/other ; 'item' = named const/static item path
  ('call', fn, bb, callee, args)           result of the call terminating block bb of fn
  ('agg', kind, name, ((field, v), ...))   kind adt/tuple/array/closure; name 'path::Variant' | closure path
  ('proj', base, elem)                     elem ('f', name|idx) | ('i', k) | ('ix', v) | ('v', Variant)
  ('binop', op, a, b) ('unop', op, a) ('cast', castkind, v, ty) ('discr', v)
  ('upd', prev, elems, newv)               prev with the sub-place elems overwritten by newv
  ('mut', prev, fn, bb, idx)               prev, possibly mutated through the &mut borrow taken at (bb, idx)
  ('phi', (v, ...))                        several reaching definitions
  ('cycle', fn, local, tag, bb, idx, kind) reference to the value of that definition site (loop-carried)
  ('uninit',) ('unknown', why)
References and dereferences are transparent (&x == x == *x)."""
import re
import sys

sys.setrecursionlimit(10000)


def strip_span(sp):
    return sp[:-2] if sp.endswith("!x") else sp


class Body:
    def __init__(self, fn, j, tag=""):
        self.fn = fn
        self.tag = tag
        self.arg_count = j["arg_count"]
        self.locals = j["locals"]
        self.blocks = j["blocks"]
        self.names = {}
        self.debug = j["debug"]
        for d in j["debug"]:
            if "place" in d and not d["place"]["p"]:
                self.names.setdefault(d["place"]["l"], d["name"])
        n = len(self.blocks)
        self.succs = [[] for _ in range(n)]
        self.preds = [[] for _ in range(n)]
        for b, blk in enumerate(self.blocks):
            if blk["cleanup"]:
                continue
            for t in self._targets(blk["term"]):
                if not self.blocks[t]["cleanup"]:
                    self.succs[b].append(t)
                    self.preds[t].append(b)
        self._reach_cache = {}
        self._defs = None
        self._in_cache = {}

    @staticmethod
    def _targets(t):
        k = t["k"]
        if k == "goto":
            return [t["target"]]
        if k == "switch":
            return [b for _, b in t["arms"]] + [t["otherwise"]]
        if k in ("call", "drop", "assert"):
            return [t["target"]] if t.get("target") is not None else []
        return []

    # ---- reachability / dominance -------------------------------------------------
    def reachable_from(self, start, cut_edges=(), cut_blocks=()):
        """Blocks reachable from `start` (inclusive) avoiding the given edges / blocks."""
        key = (start, tuple(sorted(cut_edges)), tuple(sorted(cut_blocks)))
        r = self._reach_cache.get(key)
        if r is not None:
            return r
        cut_e = set(cut_edges)
        cut_b = set(cut_blocks)
        seen = set()
        if start in cut_b:
            self._reach_cache[key] = seen
            return seen
        stack = [start]
        seen.add(start)
        while stack:
            b = stack.pop()
            for s in self.succs[b]:
                if (b, s) in cut_e or s in cut_b or s in seen:
                    continue
                seen.add(s)
                stack.append(s)
        self._reach_cache[key] = seen
        return seen

    def reachable_cp(self, start):
        """Blocks reachable from `start` with constant propagation of bool / small-int locals assigned literal constants
        (the `matches!` / flag idiom): a switch on a local whose value is known follows only the matching target."""
        seen = set()
        out = set()
        stack = [(start, frozenset())]
        while stack:
            b, facts = stack.pop()
            if (b, facts) in seen or len(seen) > 4000:
                continue
            seen.add((b, facts))
            out.add(b)
            f = dict(facts)
            blk = self.blocks[b]
            for st in blk["stmts"]:
                if st["k"] != "assign":
                    continue
                p = st["place"]
                if p["p"]:
                    continue
                rv = st["rv"]
                if rv["k"] == "use" and rv["op"]["k"] == "const" and "int" in rv["op"] and rv["op"]["ty"] in ("bool", "u8", "usize", "isize", "u32", "i32"):
                    f[p["l"]] = int(rv["op"]["int"])
                elif rv["k"] == "use" and rv["op"]["k"] in ("copy", "move") and not rv["op"]["place"]["p"] and rv["op"]["place"]["l"] in f:
                    f[p["l"]] = f[rv["op"]["place"]["l"]]
                elif rv["k"] == "unop" and rv["op"] == "Not" and rv["a"]["k"] in ("copy", "move") and not rv["a"]["place"]["p"] and rv["a"]["place"]["l"] in f:
                    f[p["l"]] = 0 if f[rv["a"]["place"]["l"]] else 1
                else:
                    f.pop(p["l"], None)
            t = blk["term"]
            if t["k"] == "call" and not t["dest"]["p"]:
                f.pop(t["dest"]["l"], None)
            nf = frozenset(f.items())
            succs = self.succs[b]
            if t["k"] == "switch" and t["discr"]["k"] in ("copy", "move") and not t["discr"]["place"]["p"] and t["discr"]["place"]["l"] in f:
                val = f[t["discr"]["place"]["l"]]
                tgt = None
                for x, tb in t["arms"]:
                    if int(x) == val:
                        tgt = tb
                if tgt is None:
                    tgt = t["otherwise"]
                succs = [tgt] if not self.blocks[tgt]["cleanup"] else []
            for s in succs:
                stack.append((s, nf))
        return out

    def edge_dominates(self, edge, block):
        """Every path entry -> block passes through `edge` (block reachable at all is not required)."""
        return block not in self.reachable_from(0, cut_edges=(edge,))

    def block_dominates(self, a, b):
        if a == b:
            return True
        return b not in self.reachable_from(0, cut_blocks=(a,))

    def loc_dominates(self, la, lb):
        """Location (block, idx) la dominates lb."""
        if la[0] == lb[0]:
            return la[1] <= lb[1]
        return self.block_dominates(la[0], lb[0])

    def return_blocks(self):
        return [b for b, blk in enumerate(self.blocks) if not blk["cleanup"] and blk["term"]["k"] == "return"]

    def back_edges(self):
        res = []
        for b in range(len(self.blocks)):
            for s in self.succs[b]:
                if self.block_dominates(s, b) and b in self.reachable_from(0):
                    res.append((b, s))
        return res

    # ---- definitions ---------------------------------------------------------------
    def defs(self):
        """local -> list of (bb, idx, kind) ; idx == len(stmts) for the terminator.
        kind: 'full' | 'partial' | 'mutborrow' | 'call'"""
        if self._defs is not None:
            return self._defs
        d = {}
        for b, blk in enumerate(self.blocks):
            if blk["cleanup"]:
                continue
            for i, st in enumerate(blk["stmts"]):
                if st["k"] == "assign":
                    p = st["place"]
                    derefs = any(e["k"] == "deref" for e in p["p"])
                    if not p["p"]:
                        d.setdefault(p["l"], []).append((b, i, "full"))
                    elif not derefs:
                        d.setdefault(p["l"], []).append((b, i, "partial"))
                    rv = st["rv"]
                    if rv["k"] in ("ref", "rawptr") and rv.get("mut", rv["k"] == "rawptr"):
                        rp = rv["place"]
                        if not any(e["k"] == "deref" for e in rp["p"]):
                            d.setdefault(rp["l"], []).append((b, i, "mutborrow"))
                elif st["k"] == "setdiscr":
                    p = st["place"]
                    d.setdefault(p["l"], []).append((b, i, "partial"))
            t = blk["term"]
            if t["k"] == "call":
                p = t["dest"]
                n = len(blk["stmts"])
                if not p["p"]:
                    d.setdefault(p["l"], []).append((b, n, "call"))
                elif not any(e["k"] == "deref" for e in p["p"]):
                    d.setdefault(p["l"], []).append((b, n, "partial"))
        self._defs = d
        return d

    def reaching(self, loc, local):
        """Definition sites of `local` reaching location loc=(bb, idx) (idx exclusive).
        Returns a sorted list of (bb, idx, kind) or 'entry'."""
        b, i = loc
        ds = self.defs().get(local, [])
        here = [x for x in ds if x[0] == b and x[1] < i]
        if here:
            return [max(here, key=lambda x: x[1])]
        ins = self._block_in(local)
        return sorted(ins[b], key=lambda x: (0, 0, "") if x == "entry" else x)

    def _block_in(self, local):
        r = self._in_cache.get(local)
        if r is not None:
            return r
        n = len(self.blocks)
        ds = self.defs().get(local, [])
        gen = {}
        for x in ds:
            if x[0] not in gen or gen[x[0]][1] < x[1]:
                gen[x[0]] = x
        ins = [set() for _ in range(n)]
        outs = [set() for _ in range(n)]
        ins[0].add("entry")
        changed = True
        order = list(range(n))
        while changed:
            changed = False
            for b in order:
                if self.blocks[b]["cleanup"]:
                    continue
                newin = set(ins[b])
                for p in self.preds[b]:
                    newin |= outs[p]
                newout = {gen[b]} if b in gen else newin
                if newin != ins[b] or newout != outs[b]:
                    ins[b], outs[b] = newin, newout
                    changed = True
        self._in_cache[local] = ins
        return ins


class Fn:
    def __init__(self, crate, j):
        self.crate = crate
        self.j = j
        self.path = j["path"]
        self.kind = j["kind"]
        self.span = strip_span(j["span"])
        self.derived = j.get("derived", False)
        self.from_expansion = j.get("from_expansion", False)
        self.parent = j.get("parent")
        self.name = j.get("name")
        self.impl_trait = j.get("impl_trait")
        self.impl_self = j.get("impl_self")
        self.sig = j.get("sig")
        self.body = Body(self, j["body"]) if "body" in j else None
        self.promoted = [Body(self, p, "promoted[%d]" % i) for i, p in enumerate(j.get("promoted", []))]

    @property
    def file(self):
        return self.span.split(":")[0]

    def __repr__(self):
        return "<Fn %s>" % self.path


def callee_of(term):
    """(path, fnref dict) of a call terminator, resolved instance when available."""
    f = term["func"]
    if f.get("k") == "const" and "fn" in f:
        fr = f["fn"]
        return (fr.get("rpath") or fr["path"]), fr
    return None, None


def generic_path(p):
    """Strip generic argument lists so `Item::<'a, T>::load` matches `Item::load`."""
    out = []
    depth = 0
    i = 0
    while i < len(p):
        c = p[i]
        if c == "<" and (i >= 2 and p[i - 2:i] == "::"):
            # turbofish-like segment `::<...>` : drop it entirely, including the leading ::
            depth = 1
            j = i + 1
            while j < len(p) and depth:
                if p[j] == "<":
                    depth += 1
                elif p[j] == ">":
                    depth -= 1
                j += 1
            out = out[:-2]
            i = j
            continue
        out.append(c)
        i += 1
    return "".join(out)


class Program:
    def __init__(self, facts):
        self.facts = facts
        self.fns = {}
        self.adts = {}
        self.consts = {}
        self.impls = []
        self.crate_meta = {}
        for crate, f in facts.items():
            self.crate_meta[crate] = {k: f.get(k) for k in ("overflow_checks", "opt_level", "rustc", "nonce")}
            for j in f["fns"]:
                fn = Fn(crate, j)
                # several `const _` items share a path: keep the first real one
                if fn.path in self.fns and self.fns[fn.path].body is not None and fn.kind != "fn":
                    continue
                self.fns[fn.path] = fn
            for a in f["adts"]:
                self.adts[a["path"]] = a
            for c in f["consts"]:
                self.consts[c["path"]] = c
            for i in f["impls"]:
                i["crate"] = crate
                self.impls.append(i)
        self._val_memo = {}
        self._in_progress = set()
        self._prefer = None      # (fn path, frozenset(blocks)): branch-restricted evaluation
        self._closure_sites = None
        self._callers = None

    # ---- lookup helpers --------------------------------------------------------------
    _ENV_TY = re.compile(r"cosmwasm_std::(\S*::)?(DepsMut|Deps|Env|QuerierWrapper|Storage|Api)\b")

    def bundle_layout(self, f):
        """[(synthetic index, k, field name, field type)] — the fields of private parameter structs of a contract function
        (`fn swap(deps, env, info, params: SwapParams)`), numbered after the real parameters.  A bundle is a struct defined in a
        contract crate that is neither a wire / stored type (no serde impl) nor a context bundle (no deps / env / info field);
        its fields are then addressable like parameters: param_index_of_type finds them, val_call appends what the call
        site puts into them, Roots reads ("param", f, synthetic) as the field of the struct parameter."""
        memo = self.__dict__.setdefault("_bundle_memo", {})
        if f.path in memo:
            return memo[f.path]
        out = []
        if f.body is not None and f.kind in ("fn", "assoc_fn") and f.crate in ("halo_pair", "halo_factory", "halo_router", "haloswap"):
            nxt = f.body.arg_count
            serde = {i_.get("self") for i_ in self.impls if str(i_.get("trait", "")).endswith(("Deserialize", "Serialize", "Deserialize<'de>"))}
            for k in range(f.body.arg_count):
                ty = f.body.locals[k + 1]["ty"].strip()
                while ty.startswith("&"):
                    ty = re.sub(r"^&\s*('\w+\s+)?(mut\s+)?", "", ty)
                a = self.adts.get(ty) or self.adts.get(re.sub(r"<.*$", "", ty))
                if a is None or a["kind"] != "struct" or not a["path"].startswith(("halo_pair::", "halo_factory::", "halo_router::", "haloswap::")):
                    continue
                if a["path"] in serde or any(self._ENV_TY.search(x["ty"]) for x in a["variants"][0]["fields"]):
                    continue
                for x in a["variants"][0]["fields"]:
                    out.append((nxt, k, x["name"], x["ty"]))
                    nxt += 1
        memo[f.path] = out
        return out

    def clone_fn(self, f, tag, site=None):
        """A per-call-site copy of a thin forwarding function shared by several dispatch arms (roles.descend_intermediate):
        same body under its own path, so that its parameters can stand for one arm's arguments.  Clones are found by
        fn() only; scans over all functions see the original once."""
        if not hasattr(self, "_clones"):
            self._clones = {}
        path = "%s@%s" % (f.path, tag)
        c = self._clones.get(path)
        if c is None:
            c = Fn(f.crate, dict(f.j, path=path))
            c.clone_of = f.path
            c.clone_site = site
            self._clones[path] = c
        return c

    def fn(self, path):
        f = self.fns.get(path)
        if f is None and isinstance(path, str) and "@" in path:
            f = getattr(self, "_clones", {}).get(path)
        if f is None and isinstance(path, str) and "bignumber::" in path:
            # `bignumber` re-exports its `math` module's items at the crate root
            f = self.fns.get(re.sub(r"bignumber::(?!math::)", "bignumber::math::", path))
        return f

    def prod_fns(self):
        """Production functions with bodies: not derived, not mock_querier, not test modules."""
        for f in self.fns.values():
            if f.body is None or f.derived:
                continue
            if f.kind not in ("fn", "assoc_fn", "closure"):
                continue
            if "::mock_querier::" in f.path or "::tests::" in f.path:
                continue
            if f.from_expansion:
                continue
            yield f

    def calls(self, fn):
        """Yield (bb, callee_path, fnref, term) for every call terminator in fn's body."""
        for b, blk in enumerate(fn.body.blocks):
            if blk["cleanup"]:
                continue
            t = blk["term"]
            if t["k"] == "call":
                p, fr = callee_of(t)
                yield b, p, fr, t

    def callers(self, path):
        if self._callers is None:
            c = {}
            for f in self.fns.values():
                if f.body is None:
                    continue
                for b, p, fr, t in self.calls(f):
                    if p:
                        c.setdefault(generic_path(p), []).append((f, b))
            self._callers = c
        return self._callers.get(generic_path(path), [])

    def closure_site(self, closure_path):
        """(parent Fn, bb, idx, rvalue) where the closure aggregate is built."""
        if self._closure_sites is None:
            cs = {}
            for f in self.fns.values():
                if f.body is None:
                    continue
                for b, blk in enumerate(f.body.blocks):
                    for i, st in enumerate(blk["stmts"]):
                        if st["k"] == "assign" and st["rv"]["k"] == "agg" and st["rv"].get("agg") == "closure":
                            cs[st["rv"]["closure"]] = (f, b, i, st["rv"])
            self._closure_sites = cs
        return self._closure_sites.get(closure_path)

    # ---- value graph -----------------------------------------------------------------
    def const_value(self, fn, o):
        if "fn" in o:
            fr = o["fn"]
            return ("const", "fn", fr.get("rpath") or fr["path"])
        if "promoted" in o:
            # a promoted rvalue: evaluate the promoted body's return value
            pb = fn.promoted[o["promoted"]] if o["promoted"] < len(fn.promoted) else None
            if pb is None:
                return ("unknown", "promoted")
            return self._promoted_value(fn, pb)
        if "uneval" in o:
            if "int" in o:
                return ("const", "int", int(o["int"]))
            return ("const", "item", o["uneval"])
        if "int" in o:
            return ("const", "int", int(o["int"]))
        if "str" in o:
            return ("const", "str", o["str"])
        if o.get("zst"):
            return ("const", "zst", o["ty"])
        return ("const", "other", o["s"])

    def _promoted_value(self, fn, pb):
        key = ("prom", fn.path, pb.tag)
        if key in self._val_memo:
            return self._val_memo[key]
        rets = pb.return_blocks()
        v = ("unknown", "promoted")
        if rets:
            rb = rets[0]
            v = self.val_local_in(fn, pb, (rb, len(pb.blocks[rb]["stmts"])), 0)
        self._val_memo[key] = v
        return v

    def val_operand(self, fn, loc, o, body=None):
        body = body or fn.body
        k = o["k"]
        if k in ("copy", "move"):
            return self.val_place(fn, loc, o["place"], body)
        if k == "const":
            return self.const_value(fn, o)
        return ("unknown", "operand")

    def val_place(self, fn, loc, p, body=None):
        body = body or fn.body
        v = self.val_local_in(fn, body, loc, p["l"])
        for e in p["p"]:
            v = self.apply_proj(fn, body, loc, v, e)
        return v

    def apply_proj(self, fn, body, loc, v, e):
        k = e["k"]
        if k in ("deref", "opaque_cast", "unwrap_binder"):
            return v
        if k == "field":
            nm = e.get("name", e["i"])
            if isinstance(nm, str) and nm.isdigit():
                nm = int(nm)      # tuple-struct / tuple-variant payloads: same key as tuple fields
            return proj(v, ("f", nm))
        if k == "downcast":
            return proj(v, ("v", e["variant"]))
        if k == "cindex":
            return proj(v, ("i", -1 - e["i"] if e["from_end"] else e["i"]))
        if k == "index":
            iv = self.val_local_in(fn, body, loc, e["local"])
            if iv[0] == "const" and iv[1] == "int":
                return proj(v, ("i", iv[2]))
            return proj(v, ("ix", iv))
        if k == "subslice":
            return proj(v, ("sub", e["from"], e["to"], e["from_end"]))
        return ("unknown", "proj:" + k)

    def val_operand_in(self, fn, loc, o, prefer_blocks, body=None):
        """Value of operand `o` as seen along paths through `prefer_blocks`: wherever several definitions reach a use,
        only those located in prefer_blocks are kept (if any)."""
        old = self._prefer
        self._prefer = (fn.path, frozenset(prefer_blocks))
        try:
            return self.val_operand(fn, loc, o, body)
        finally:
            self._prefer = old

    def val_rvalue_in(self, fn, loc, rv, prefer_blocks, body=None):
        """Value of an rvalue as seen along paths through `prefer_blocks` (see val_operand_in)."""
        old = self._prefer
        self._prefer = (fn.path, frozenset(prefer_blocks))
        try:
            return self.val_rvalue(fn, body or fn.body, loc, rv)
        finally:
            self._prefer = old

    def val_local_in(self, fn, body, loc, local):
        sites = body.reaching(loc, local)
        if self._prefer is not None and self._prefer[0] == fn.path and not body.tag and len(sites) > 1:
            inn = [s for s in sites if s != "entry" and s[0] in self._prefer[1]]
            if inn:
                sites = inn
        vals = []
        for s in sites:
            if s == "entry":
                if 1 <= local <= body.arg_count and not body.tag:
                    # closure environment: upvars are resolved lazily in proj()
                    vals.append(("param", fn.path, local - 1))
                else:
                    vals.append(("uninit",))
            else:
                vals.append(self.val_def(fn, body, s, local))
        return phi(vals)

    def alts_with_sites(self, fn, loc, place, body=None, depth=0):
        """[(def site (bb, idx, kind) | 'entry', value)] of a place: follows plain copies/moves back to the
        definitions of the first local that has several reaching definitions (so each alternative keeps its block)."""
        body = body or fn.body
        sites = body.reaching(loc, place["l"])
        out = []
        for s in sites:
            if s == "entry":
                v = self.val_local_in(fn, body, (0, 0), place["l"])
                for e in place["p"]:
                    v = self.apply_proj(fn, body, loc, v, e)
                out.append(("entry", v))
                continue
            b, i, kind = s
            if kind == "full" and depth < 12:
                rv = body.blocks[b]["stmts"][i]["rv"]
                src = None
                if rv["k"] == "use" and rv["op"]["k"] in ("copy", "move"):
                    src = rv["op"]["place"]
                elif rv["k"] == "ref":
                    src = rv["place"]
                if src is not None and len(sites) == 1:
                    inner = self.alts_with_sites(fn, (b, i), src, body, depth + 1)
                    for (s2, v2) in inner:
                        for e in place["p"]:
                            v2 = self.apply_proj(fn, body, loc, v2, e)
                        out.append((s2, v2))
                    continue
            v = self.val_def(fn, body, s, place["l"])
            for e in place["p"]:
                v = self.apply_proj(fn, body, loc, v, e)
            out.append((s, v))
        return out

    def val_def(self, fn, body, site, local):
        b, i, kind = site
        key = (fn.path, body.tag, b, i, kind, local, self._prefer)
        if key in self._val_memo:
            return self._val_memo[key]
        if key in self._in_progress:
            # a reference to the value of this very definition (loop-carried); resolved lazily by consumers
            return ("cycle", fn.path, local, body.tag, b, i, kind)
        self._in_progress.add(key)
        try:
            blk = body.blocks[b]
            if kind == "call":
                v = self.val_call(fn, body, b)
            elif kind == "full":
                v = self.val_rvalue(fn, body, (b, i), blk["stmts"][i]["rv"])
            elif kind == "partial":
                prev = self.val_local_in(fn, body, (b, i), local)
                if i == len(blk["stmts"]):
                    t = blk["term"]
                    place = t["dest"]
                    newv = self.val_call(fn, body, b)
                else:
                    st = blk["stmts"][i]
                    place = st["place"]
                    if st["k"] == "setdiscr":
                        newv = ("const", "int", st["vi"])
                    else:
                        newv = self.val_rvalue(fn, body, (b, i), st["rv"])
                elems = []
                for e in place["p"]:
                    if e["k"] == "field":
                        nm = e.get("name", e["i"])
                        elems.append(("f", int(nm) if isinstance(nm, str) and nm.isdigit() else nm))
                    elif e["k"] == "downcast":
                        elems.append(("v", e["variant"]))
                    elif e["k"] == "cindex":
                        elems.append(("i", e["i"]))
                    elif e["k"] == "index":
                        iv = self.val_local_in(fn, body, (b, i), e["local"])
                        elems.append(("i", iv[2]) if iv[0] == "const" and iv[1] == "int" else ("ix", iv))
                    else:
                        elems.append(("?", e["k"]))
                v = ("upd", prev, tuple(elems), newv)
            elif kind == "mutborrow":
                prev = self.val_local_in(fn, body, (b, i), local)
                v = self._swap_partner(fn, body, b, i) or ("mut", prev, fn.path, b, i)
            else:
                v = ("unknown", "defkind")
        finally:
            self._in_progress.discard(key)
        self._val_memo[key] = v
        return v

    def val_call(self, fn, body, b):
        t = body.blocks[b]["term"]
        n = len(body.blocks[b]["stmts"])
        p, fr = callee_of(t)
        if p is None:
            callee = ("dyn", self.val_operand(fn, (b, n), t["func"], body))
        else:
            callee = p
        args = tuple(self.val_operand(fn, (b, n), a, body) for a in t["args"])
        if isinstance(callee, str) and callee.endswith("box_assume_init_into_vec_unsafe") and t["args"]:
            v = self._vec_macro_value(fn, body, b, t["args"][0])
            if v is not None:
                return v
        fnp = fn.path + ("#" + body.tag if body.tag else "")
        if isinstance(callee, str) and len(args) == 2 and re.search(r"array::<impl \[T; N\]>::map$", callee):
            am = self._array_map_value(fn, body, b, t, fnp, args)
            if am is not None:
                return am
        if isinstance(callee, str):
            perm = getattr(self, "_arg_perm", None)
            if perm:
                pm = perm.get(generic_path(callee))
                if pm is not None and len(pm) == len(args):
                    args = tuple(args[j] for j in pm)      # a role function with reordered parameters: canonical slot order
            m = model_std_ctor(fnp, b, callee, args, fr)
            if m is not None:
                return m
            cf_ = self.fns.get(callee) or self.fns.get(generic_path(callee))
            if cf_ is not None and cf_.body is not None and cf_.crate in ("halo_pair", "halo_factory", "halo_router", "haloswap"):
                lay = self.bundle_layout(cf_)
                if lay and len(args) == cf_.body.arg_count:
                    args = args + tuple(proj(args[k_], ("f", nm_)) for (_i, k_, nm_, _t) in lay)      # the bundle's fields as arguments
        return ("call", fnp, b, callee, args)

    def _swap_partner(self, fn, body, b, i):
        """`std::mem::swap(&mut a, &mut b)` on two plain locals: the borrow at (b, i) feeds a swap whose other operand is a
        borrow of local `other` in the same block — after the call this local holds `other`'s previous value."""
        blk = body.blocks[b]
        t = blk["term"]
        if t["k"] != "call":
            return None
        p, fr = callee_of(t)
        if not p or not re.search(r"^(core|std)::mem::swap$", generic_path(p)) or len(t["args"]) != 2:
            return None
        st = blk["stmts"][i]
        if st["place"]["p"]:
            return None
        temps = []
        for a in t["args"]:
            if a["k"] not in ("copy", "move") or a["place"]["p"]:
                return None
            temps.append(a["place"]["l"])
        # two-phase borrows: `_a = &mut x; _b = &mut *_a; swap(move _b, ..)`
        def base(tl):
            for st2 in blk["stmts"]:
                if st2["k"] == "assign" and not st2["place"]["p"] and st2["place"]["l"] == tl and st2["rv"]["k"] == "ref" and st2["rv"].get("mut"):
                    pp = st2["rv"]["place"]
                    if len(pp["p"]) == 1 and pp["p"][0]["k"] == "deref":
                        return pp["l"]
            return tl
        temps = [base(tl) for tl in temps]
        if st["place"]["l"] not in temps or temps[0] == temps[1]:
            return None
        other_t = temps[1 - temps.index(st["place"]["l"])]
        for j, st2 in enumerate(blk["stmts"]):
            if st2["k"] == "assign" and not st2["place"]["p"] and st2["place"]["l"] == other_t and st2["rv"]["k"] == "ref" and st2["rv"].get("mut") \
                    and not st2["rv"]["place"]["p"]:
                return self.val_local_in(fn, body, (b, j), st2["rv"]["place"]["l"])
        return None

    def _array_map_value(self, fn, body, b, t, fnp, args):
        """`arr.map(f)` on a fixed-size array is the array literal [f(arr[0]), .., f(arr[N-1])] (N from the operand's type,
        N <= 4): a closure with one success exit is applied by substitution, a function item by a call value."""
        a0 = t["args"][0]
        ty = None
        if a0["k"] in ("copy", "move"):
            ty = a0["place"].get("ty") or body.locals[a0["place"]["l"]]["ty"]
        elif a0["k"] == "const":
            ty = a0.get("ty")
        m = re.search(r"; (\d+)\]$", ty or "")
        if not m or not (1 <= int(m.group(1)) <= 4):
            return None
        n = int(m.group(1))
        f = args[1]
        from . import common
        elems = []
        for k in range(n):
            el = proj(args[0], ("i", k))
            if f[0] == "agg" and f[1] == "closure":
                cf = self.fn(f[2])
                if cf is None or cf.body is None or cf.body.back_edges():
                    return None
                exs = [x for x in common.exit_sites(self, cf) if x[2] != "err"]
                if len(exs) != 1:
                    return None
                elems.append((k, common.subst_params(exs[0][3], {("param", cf.path, 1): el, ("param", cf.path, 0): f})))
            elif f[0] == "const" and f[1] == "fn":
                elems.append((k, ("call", fnp, b, f[2], (el,))))
            else:
                return None
        return ("agg", "array", "array", tuple(elems))

    def _vec_macro_value(self, fn, body, b, arg):
        """`vec![a, b, ..]` lowers to Box::new_uninit + a write of the array through a raw pointer +
        box_assume_init_into_vec_unsafe: recover the array aggregate as the vector's value."""
        if arg["k"] not in ("copy", "move"):
            return None
        # locals that alias the box: follow plain moves backwards
        boxes = {arg["place"]["l"]}
        changed = True
        while changed:
            changed = False
            for l in list(boxes):
                for (db, di, kind) in body.defs().get(l, []):
                    if kind == "full":
                        rv = body.blocks[db]["stmts"][di]["rv"]
                        if rv["k"] == "use" and rv["op"]["k"] in ("copy", "move") and not rv["op"]["place"]["p"]:
                            if rv["op"]["place"]["l"] not in boxes:
                                boxes.add(rv["op"]["place"]["l"])
                                changed = True
        ptrs = set()
        for l, ds in body.defs().items():
            for (db, di, kind) in ds:
                if kind == "full":
                    rv = body.blocks[db]["stmts"][di]["rv"]
                    if rv["k"] == "cast" and rv["op"]["k"] in ("copy", "move") and rv["op"]["place"]["l"] in boxes:
                        ptrs.add(l)
        found = []
        for db, blk in enumerate(body.blocks):
            if blk["cleanup"]:
                continue
            for di, st in enumerate(blk["stmts"]):
                if st["k"] == "assign" and st["place"]["l"] in ptrs and st["place"]["p"] and st["place"]["p"][0]["k"] == "deref":
                    found.append((db, di, st))
        if len(found) != 1:
            return None
        db, di, st = found[0]
        v = self.val_rvalue(fn, body, (db, di), st["rv"])
        if v[0] == "agg" and v[1] == "array":
            return ("agg", "array", "vec", v[3])
        return None

    def val_rvalue(self, fn, body, loc, rv):
        k = rv["k"]
        if k == "use":
            return self.val_operand(fn, loc, rv["op"], body)
        if k in ("ref", "rawptr"):
            return self.val_place(fn, loc, rv["place"], body)
        if k == "cast":
            inner = self.val_operand(fn, loc, rv["op"], body)
            if rv["kind"].startswith("PointerCoercion") or rv["kind"] in ("Transmute", "PtrToPtr"):
                return inner
            return ("cast", rv["kind"], inner, rv["ty"])
        if k == "binop":
            return ("binop", rv["op"], self.val_operand(fn, loc, rv["a"], body), self.val_operand(fn, loc, rv["b"], body))
        if k == "unop":
            return ("unop", rv["op"], self.val_operand(fn, loc, rv["a"], body))
        if k == "discr":
            return ("discr", self.val_place(fn, loc, rv["place"], body))
        if k == "agg":
            a = rv["agg"]
            ops = [self.val_operand(fn, loc, o, body) for o in rv["ops"]]
            if a == "adt":
                name = rv["adt"] + ("::" + rv["variant"] if rv["is_enum"] else "")
                names = [int(n) if n.isdigit() else n for n in rv["fields"]]
                if "active_field" in rv:
                    names = [names[rv["active_field"]]]
                return ("agg", "adt", name, tuple(zip(names, ops)))
            if a == "closure":
                return ("agg", "closure", rv["closure"], tuple(enumerate(ops)))
            if a in ("tuple", "array"):
                return ("agg", a, a, tuple(enumerate(ops)))
            return ("agg", a, a, tuple(enumerate(ops)))
        if k == "repeat":
            return ("agg", "repeat", "repeat", ((0, self.val_operand(fn, loc, rv["op"], body)),))
        return ("unknown", "rvalue:" + rv.get("s", k)[:40])


# ---------------------------------------------------------------------------------------
# value constructors / simplifiers

def phi(vals):
    flat = []
    for v in vals:
        if v[0] == "phi":
            flat.extend(v[1])
        else:
            flat.append(v)
    uniq = []
    for v in flat:
        if v not in uniq:
            uniq.append(v)
    real = [v for v in uniq if v[0] != "uninit"]
    if real:
        uniq = real
    if len(uniq) == 1:
        return uniq[0]
    if not uniq:
        return ("uninit",)
    return ("phi", tuple(uniq))


def proj(v, e):
    k = v[0]
    if k == "phi":
        return phi([proj(x, e) for x in v[1]])
    if k == "agg":
        if e[0] in ("f", "i"):
            for name, fv in v[3]:
                if name == e[1]:
                    return fv
            if v[1] == "repeat":
                return v[3][0][1]
            # tuple-struct style numeric fields: names may be "0","1"
            for name, fv in v[3]:
                if str(name) == str(e[1]):
                    return fv
            return ("proj", v, e)
        if e[0] == "v":
            # downcast of an enum aggregate to its own variant
            return v
        return ("proj", v, e)
    if k == "upd":
        prev, elems, newv = v[1], v[2], v[3]
        if elems and elems[0] == e:
            if len(elems) == 1:
                return newv
            return ("upd", proj(prev, e), elems[1:], newv)
        if elems and elems[0][0] == e[0] and elems[0][0] in ("f", "i") and elems[0][1] != e[1] and elems[0][0] != "ix":
            return proj(prev, e)
        if e[0] == "v":
            return ("upd", proj(prev, e), elems, newv) if False else ("proj", v, e)
        return ("proj", v, e)
    return ("proj", v, e)


def walk(v, seen=None):
    """Yield every sub-value of v (pre-order)."""
    if seen is None:
        seen = set()
    if id(v) in seen:
        return
    seen.add(id(v))
    yield v
    k = v[0]
    if k == "phi":
        for x in v[1]:
            yield from walk(x, seen)
    elif k == "call":
        if isinstance(v[3], tuple) and v[3] and v[3][0] == "dyn":
            yield from walk(v[3][1], seen)
        for x in v[4]:
            yield from walk(x, seen)
    elif k == "agg":
        for _, x in v[3]:
            yield from walk(x, seen)
    elif k == "proj":
        yield from walk(v[1], seen)
        if v[2][0] == "ix":
            yield from walk(v[2][1], seen)
    elif k == "binop":
        yield from walk(v[2], seen)
        yield from walk(v[3], seen)
    elif k in ("unop", "discr"):
        yield from walk(v[-1] if k == "discr" else v[2], seen)
    elif k == "cast":
        yield from walk(v[2], seen)
    elif k == "upd":
        yield from walk(v[1], seen)
        yield from walk(v[3], seen)
    elif k == "mut":
        yield from walk(v[1], seen)


def show(v, depth=0, maxdepth=6):
    """Compact human-readable rendering of a value (for reports and evidence)."""
    if depth > maxdepth:
        return "…"
    k = v[0]
    d = depth + 1
    if k == "param":
        return "%s#arg%d" % (v[1].split("::")[-1], v[2])
    if k == "const":
        return "%s" % (v[2],) if v[1] != "str" else repr(v[2])
    if k == "call":
        c = v[3] if isinstance(v[3], str) else "dyn"
        return "%s(%s)@bb%d" % (short_path(c), ", ".join(show(a, d, maxdepth) for a in v[4]), v[2])
    if k == "agg":
        return "%s{%s}" % (short_path(str(v[2])), ", ".join("%s: %s" % (n, show(x, d, maxdepth)) for n, x in v[3]))
    if k == "proj":
        e = v[2]
        if e[0] == "f":
            return "%s.%s" % (show(v[1], d, maxdepth), e[1])
        if e[0] == "i":
            return "%s[%s]" % (show(v[1], d, maxdepth), e[1])
        if e[0] == "ix":
            return "%s[%s]" % (show(v[1], d, maxdepth), show(e[1], d, maxdepth))
        if e[0] == "v":
            return "(%s as %s)" % (show(v[1], d, maxdepth), e[1])
        return "%s.<%s>" % (show(v[1], d, maxdepth), e[0])
    if k == "binop":
        return "%s(%s, %s)" % (v[1], show(v[2], d, maxdepth), show(v[3], d, maxdepth))
    if k == "unop":
        return "%s(%s)" % (v[1], show(v[2], d, maxdepth))
    if k == "cast":
        return "(%s as %s)" % (show(v[2], d, maxdepth), v[3])
    if k == "discr":
        return "discr(%s)" % show(v[1], d, maxdepth)
    if k == "phi":
        return "φ(%s)" % " | ".join(show(x, d, maxdepth) for x in v[1])
    if k == "upd":
        return "%s{%s:=%s}" % (show(v[1], d, maxdepth), ".".join(str(e[1]) for e in v[2]), show(v[3], d, maxdepth))
    if k == "mut":
        return "mut(%s)@bb%d" % (show(v[1], d, maxdepth), v[3])
    if k == "cycle":
        return "↺_%d" % v[2]
    return str(v[:2])


def short_path(p):
    p = generic_path(p)
    m = re.match(r"^<(.+) as (.+)>::(\w+)$", p)
    if m:
        return "<%s as %s>::%s" % (m.group(1).split("::")[-1], m.group(2).split("::")[-1].split("<")[0], m.group(3))
    parts = p.split("::")
    return "::".join(parts[-2:]) if len(parts) > 2 else p


# ---------------------------------------------------------------------------------------------------------------------------
# cosmwasm-std convenience constructors, modelled as the aggregates they build (trusted base: their documented bodies are
# one struct literal each).  The message rules then see `wasm_execute(..)?`, `coins(..)`, `x.into()` and
# `SubMsg::reply_on_success(..)` exactly like the spelled-out literals.
_MSG_WRAP = (("WasmMsg", "Wasm"), ("BankMsg", "Bank"), ("StakingMsg", "Staking"), ("DistributionMsg", "Distribution"),
             ("IbcMsg", "Ibc"), ("GovMsg", "Gov"))


def _wrap_cosmos(arg):
    if arg[0] == "agg" and arg[1] == "adt":
        for short, var in _MSG_WRAP:
            if re.match(r"^cosmwasm_std::(\S*::)?%s::\w+$" % short, str(arg[2])):
                return ("agg", "adt", "cosmwasm_std::CosmosMsg::%s" % var, ((0, arg),))
    return arg


def model_std_ctor(fnp, b, callee, args, fr):
    g = generic_path(callee)
    if re.match(r"^cosmwasm_std::(\S*::)?wasm_execute$", g) and len(args) == 3:
        tb = ("call", fnp, b, "cosmwasm_std::to_binary", (args[1],))
        agg = ("agg", "adt", "cosmwasm_std::WasmMsg::Execute", (("contract_addr", args[0]), ("msg", tb), ("funds", args[2])))
        return ("agg", "adt", "std::result::Result::Ok", ((0, agg),))
    if re.match(r"^cosmwasm_std::(\S*::)?coins?$", g) and len(args) == 2:
        coin = ("agg", "adt", "cosmwasm_std::Coin", (("denom", args[1]), ("amount", args[0])))
        return coin if g.endswith("::coin") else ("agg", "array", "vec", ((0, coin),))
    if fr and fr.get("path") in ("std::convert::Into::into", "core::convert::Into::into", "std::convert::From::from", "core::convert::From::from") and len(args) == 1:
        a = fr.get("args") or []
        if len(a) == 2:
            src, dst = (a[0], a[1]) if fr["path"].endswith("into") else (a[1], a[0])
            if re.match(r"^cosmwasm_std::(\S*::)?CosmosMsg(<.*>)?$", dst):
                for short, var in _MSG_WRAP:
                    if re.match(r"^cosmwasm_std::(\S*::)?%s$" % short, src):
                        return ("agg", "adt", "cosmwasm_std::CosmosMsg::%s" % var, ((0, args[0]),))
    m = re.match(r"^cosmwasm_std::(\S*::)?SubMsg::(new|reply_on_success|reply_on_error|reply_always)$", g)
    if m and len(args) in (1, 2):
        kind = m.group(2)
        rid = ("const", "int", 0) if kind == "new" else (args[1] if len(args) == 2 else None)
        if rid is not None:
            ro = {"new": "Never", "reply_on_success": "Success", "reply_on_error": "Error", "reply_always": "Always"}[kind]
            return ("agg", "adt", "cosmwasm_std::SubMsg", (("id", rid), ("msg", _wrap_cosmos(args[0])), ("gas_limit", ("agg", "adt", "std::option::Option::None", ())),
                                                            ("reply_on", ("agg", "adt", "cosmwasm_std::ReplyOn::%s" % ro, ()))))
    return None


# ---------------------------------------------------------------------------------------------------------------------------
# MIR-level inlining of single-call-site helpers (a semantics-preserving normalisation the engine may retry a rule under)

def _shift_json(o, loff, boff, poff):
    """Deep copy of a MIR JSON fragment with locals shifted by loff, block indices by boff and promoted indices by poff."""
    if isinstance(o, list):
        return [_shift_json(x, loff, boff, poff) for x in o]
    if not isinstance(o, dict):
        return o
    out = {}
    is_place = "l" in o and "p" in o and isinstance(o.get("l"), int)
    for k, v in o.items():
        if is_place and k == "l":
            out[k] = v + loff
        elif k == "local" and o.get("k") == "index" and isinstance(v, int) and not isinstance(v, bool):
            out[k] = v + loff
        elif k in ("target", "unwind", "otherwise") and isinstance(v, int) and not isinstance(v, bool) and "k" in o:
            out[k] = v + boff
        elif k == "arms" and o.get("k") == "switch":
            out[k] = [[a, (t + boff if isinstance(t, int) else t)] for a, t in v]
        elif k == "promoted" and o.get("k") == "const" and isinstance(v, int):
            out[k] = v + poff
        else:
            out[k] = _shift_json(v, loff, boff, poff)
    return out


def inline_call_json(caller_j, callee_j, call_bb):
    """caller_j with the call in block call_bb replaced by the callee's body (both are Fn JSON objects with bodies)."""
    import copy
    cj = copy.deepcopy(caller_j)
    body, gb = cj["body"], callee_j["body"]
    loff, boff, poff = len(body["locals"]), len(body["blocks"]), len(cj.get("promoted", []))
    blk = body["blocks"][call_bb]
    t = blk["term"]
    assert t["k"] == "call" and len(t["args"]) == gb["arg_count"]
    span = t.get("span", "")
    body["locals"].extend(copy.deepcopy(gb["locals"]))
    for i, a in enumerate(t["args"]):
        blk["stmts"].append({"k": "assign", "place": {"l": loff + 1 + i, "p": [], "ty": gb["locals"][1 + i]["ty"]}, "rv": {"k": "use", "op": a}, "span": span})
    dest, target = t.get("dest"), t.get("target")
    blk["term"] = {"k": "goto", "target": boff, "span": span}
    direct = dest is not None and not dest.get("p")          # a plain destination local takes the callee's return place itself:
    #                                                            `_0 = Err(e)` in the callee is then `_0 = Err(e)` of the caller, as if written there

    def _retmap(o):
        if isinstance(o, list):
            return [_retmap(x) for x in o]
        if isinstance(o, dict):
            o2 = {k: _retmap(v) for k, v in o.items()}
            if "l" in o2 and "p" in o2 and o2["l"] == loff:
                o2["l"] = dest["l"]
            return o2
        return o
    for gblk in gb["blocks"]:
        nb = _shift_json(gblk, loff, boff, poff)
        if direct:
            nb = _retmap(nb)
        if nb["term"]["k"] == "return":
            if dest is not None and not direct:
                nb["stmts"].append({"k": "assign", "place": dest, "rv": {"k": "use", "op": {"k": "move", "place": {"l": loff, "p": [], "ty": gb["locals"][0]["ty"]}}},
                                    "span": nb["term"].get("span", span)})
            nb["term"] = {"k": "goto", "target": target, "span": nb["term"].get("span", span)} if isinstance(target, int) else {"k": "unreachable", "span": span}
        body["blocks"].append(nb)
    for dv in gb.get("debug", []):
        d2 = _shift_json(dv, loff, boff, poff)
        d2.pop("arg", None)
        body.setdefault("debug", []).append(d2)
    if callee_j.get("promoted"):
        cj.setdefault("promoted", []).extend(copy.deepcopy(callee_j["promoted"]))
    return cj


_DEPS_TY = re.compile(r"cosmwasm_std::(\S*::)?Deps(Mut)?\b")


def inline_single_call_helpers(facts, rounds=2):
    """(new facts, [inlined paths]) — every free function of a contract crate that takes no Deps / DepsMut, does not return
    Result<(), _> (checks are anchors of their own), and has exactly one call site in production code of the same crate is
    merged into its caller; closures it defines are re-parented.  The program means the same; rules that anchor on `the
    function that does X` then see X where a refactoring had moved it out."""
    import copy
    facts = {m: dict(j, fns=list(j["fns"])) for m, j in facts.items()}
    done = []
    for _ in range(rounds):
        changed = False
        for m in ("halo_pair", "halo_factory", "halo_router"):
            fns = facts[m]["fns"]
            by_path = {f["path"]: f for f in fns}
            sites = {}
            for f in fns:
                if "body" not in f:
                    continue
                test = "::tests::" in f["path"] or "mock_querier" in f["path"] or "::testing::" in f["path"]
                for b, blk in enumerate(f["body"]["blocks"]):
                    t = blk["term"]
                    if t["k"] == "call" and isinstance(t.get("func"), dict) and "fn" in t["func"]:
                        fr = t["func"]["fn"]
                        p = fr.get("rpath") or fr.get("path")
                        if p in by_path:
                            sites.setdefault(p, []).append((f["path"], b, test, bool(blk.get("cleanup"))))
            for p, ss in sorted(sites.items()):
                g = by_path.get(p)
                prod = [s for s in ss if not s[2]]
                if g is None or "body" not in g or g.get("kind") != "fn" or g.get("derived") or len(prod) != 1 or "::tests::" in p:
                    continue
                cpath, cb, _t, cleanup = prod[0]
                if cleanup or cpath == p or cpath not in by_path:
                    continue
                gb = g["body"]
                if any(_DEPS_TY.search(gb["locals"][i]["ty"]) for i in range(1, gb["arg_count"] + 1)):
                    continue
                # a *public* check returning Result<(), _> is an anchor of its own (the spread / slippage / route guards); a private
                # one is a stage of whatever calls it
                if (re.match(r"^std::result::Result<\(\), ", gb["locals"][0]["ty"]) and str(g.get("vis") or "Public").startswith("Public")) or len(gb["blocks"]) > 400:
                    continue
                caller = by_path[cpath]
                t = caller["body"]["blocks"][cb]["term"]
                if t["k"] != "call" or len(t["args"]) != gb["arg_count"]:
                    continue
                # the callee must not (transitively, directly here) call itself
                if any(s[0] == p for s in sites.get(p, [])):
                    continue
                new_caller = inline_call_json(caller, g, cb)
                fns[fns.index(caller)] = new_caller
                by_path[cpath] = new_caller
                if not [s for s in ss if s[2]]:
                    fns.remove(g)                      # no test calls it either: gone from the program
                    del by_path[p]
                for f in fns:
                    if f.get("parent") == p:
                        f["parent"] = cpath
                done.append(p)
                changed = True
                break                                  # block indices of other sites in this crate are stale: recompute
            # after one inlining in this crate, sites are recomputed in the next round
        if not changed:
            break
    return facts, done

