"""Shared numeric analyses (E-ROUND obligations) for the pricing, share, refund and guard functions."""
import re
from fractions import Fraction

from . import common, roles, eround, lemmas
from .eround import RF, Poly, Translator, Unsupported, D18, nonneg
from .roles import P_, AnchorMissing
from .mir import generic_path


def simplify_ratio(n, d):
    """If n == k*d for a constant k return Fraction k, else None."""
    if n.is_zero():
        return Fraction(0)
    m0 = next(iter(d.t))
    if m0 not in n.t:
        return None
    k = n.t[m0] / d.t[m0]
    if (n - d * Poly.const(k)).is_zero():
        return k
    return None


def short_origin(o):
    return o.split(" at ")[0]


class Obl:
    """Result of one obligation."""

    def __init__(self, ok, text, key_suffix="", evaluations=0):
        self.ok, self.text, self.key_suffix, self.evaluations = ok, text, key_suffix, evaluations


def decide(T, term, box=(), subst=None):
    """Decide term >= 0; on failure compute the blamed rounding step(s) and the excess at the failing vertex."""
    vd = nonneg(T.floors, term, box=box, subst=subst)
    if vd.ok:
        return Obl(True, "holds (%d vertices)" % vd.evaluations, evaluations=vd.evaluations)
    evals = vd.evaluations
    if vd.vertex is None:
        return Obl(False, vd.reason, "undecided", evals)
    # blame: single rounding symbols whose removal (eps := 0) makes the obligation hold
    blame = []
    for e in sorted(vd.eps):
        v2 = nonneg(T.floors, term, box=box, subst=(subst or []) + [(e, RF(0))])
        evals += v2.evaluations
        if v2.ok:
            blame.append(e)
    # excess at the failing vertex
    rf, eps = T.floors.expand(term)
    for atom, repl in (subst or []):
        r2, _ = T.floors.expand(repl)
        rf = rf.subst(atom, r2)
    for b, val in vd.vertex.items():
        rf = rf.subst(b, RF(val))
    k = simplify_ratio(-rf.n, rf.d) if not rf.d.is_const() else None
    if rf.d.is_const():
        excess = (-rf.n * Poly.const(1 / rf.d.const_value())).show()
    elif k is not None:
        excess = str(k)
    else:
        excess = RF(-rf.n, rf.d).show()[:200]
    ones = sorted(short_origin(vd.eps[e]) for e, val in vd.vertex.items() if val != 0 and e in vd.eps)
    bl = sorted({short_origin(vd.eps[e]) for e in blame})
    text = "fails at vertex {%s}: excess %s; rounding steps at 1: %s; removing the truncation of %s restores it" % (
        ", ".join("%s=%s" % kv for kv in sorted(vd.vertex.items())), excess, ones, bl if bl else "no single step")
    where = [vd.eps[e] for e in blame]
    return Obl(False, text + (" [%s]" % "; ".join(where) if where else ""), "blame=%s:excess=%s" % ("+".join(bl) if bl else "multiple", excess), evals)


def run_obligation(inst, key, fn, T, term, desc, box=(), subst=None, role=None):
    """`role`: rename-stable label used in the violation key instead of the function's Rust path."""
    o = decide(T, term, box, subst)
    inst.evaluations += o.evaluations
    if o.ok:
        inst.site("%s: %s" % (desc, o.text))
    else:
        inst.fail("%s:%s:%s" % (key, role or fn.path, o.key_suffix), fn.path, fn.span, "%s — %s" % (desc, o.text))
    return o.ok


# ---------------------------------------------------------------------------------------
# pricing function

def pricing_fn(ctx, pr):
    """Role: callee of the swap handler whose tuple result .0 flows (identity) into the payout amount."""
    P = ctx.P
    swap = pr.swap_handler
    tc = lemmas.transfer_ctor(P)
    pays = pr.calls_to(swap, tc)
    cands = set()
    for cb in pays:
        cv = P.val_call(swap, swap.body, cb)
        for r in ctx.roots(cv[4][0], (("f", "amount"),)):
            m = re.match(r"^C:([\w:<>]+)@%s:bb(\d+)\.0$" % re.escape(swap.path), r)
            if m and roles.is_workspace_fn(P, m.group(1)):
                cands.add((m.group(1), int(m.group(2))))
    if len(cands) != 1:
        raise AnchorMissing("pricing function (callee whose .0 is paid out by the swap handler): %d candidates" % len(cands))
    path, bb = list(cands)[0]
    return P.fn(path) or P.fn(generic_path(path)), bb


class Pricing:
    """compute_swap-like function translated: n (return), s (spread), k (commission) over x, y, a, c(raw)."""

    def __init__(self, ctx, f):
        P = ctx.P
        self.f = f
        self.T = Translator(P)
        self.T.lenient = True     # the spread component is only needed by C06.I2
        self.x, self.y, self.a, self.c = (self.T.var(n) for n in ("x", "y", "a", "c"))
        env = {("param", f.path, i): v for i, v in enumerate((self.x, self.y, self.a, self.c))}
        ex = common.exit_sites(P, f)
        if len(ex) != 1:
            raise Unsupported("pricing function has %d exits" % len(ex))
        comps = self.T.components(ex[0][3], env)
        if comps is None or len(comps) != 3:
            raise Unsupported("pricing function does not return a 3-tuple")
        if comps[0] is None or comps[2] is None:
            raise Unsupported("cannot interpret the return / commission component of the pricing function")
        self.n, self.s, self.k = comps
        self.ideal = self.y * self.a / (self.x + self.a)
        self.beta = RF.var("beta")          # commission rate in [0,1]; c = D*beta
        self.csub = [("c", RF(D18) * self.beta)]


def mono(T, term, var, kappa_ok=None):
    """Monotonicity of term in `var` over non-negative reals: +1 non-decreasing, -1 non-increasing, 0 constant, None unknown.
    Structural rules only (sums, products/quotients of non-negative monotone terms, floors)."""
    term = eround._rf(term)

    def m_rf(rf):
        if var not in _all_atoms(T, rf):
            return 0
        # floor atom alone
        if rf.is_poly() and len(rf.n.t) == 1:
            (mm, c), = rf.n.t.items()
            if len(mm) == 1 and mm[0][1] == 1:
                a = mm[0][0]
                if a == var:
                    return 1 if c > 0 else -1
                if a.startswith("F"):
                    s = m_rf(T.floors.arg_of(a))
                    return None if s is None else (s if c > 0 else -s)
        if rf.is_poly():
            # sum of monomials: each monomial = c * prod atoms (atoms non-negative)
            tot = 0
            for mm, c in rf.n.t.items():
                s = 0
                for a, e in mm:
                    sa = 1 if a == var else (m_rf(RF.var(a)) if a.startswith("F") else 0)
                    if sa is None:
                        return None
                    if sa != 0:
                        if s != 0 and s != sa:
                            return None
                        s = sa
                s = s if c > 0 else -s
                if s != 0:
                    if tot != 0 and tot != s:
                        # special lemma: A - floor(A*kappa)
                        return None
                    tot = s
            return tot
        # quotient N/Dn with Dn > 0: if N monotone s1 and Dn monotone s2 (both non-negative): N/Dn monotone when s1 == -s2 or one is 0
        s1, s2 = m_rf(RF(rf.n)), m_rf(RF(rf.d))
        if s1 is None or s2 is None:
            return None
        if s2 == 0:
            return s1
        if s1 == 0:
            return -s2
        if s1 == -s2:
            return s1
        # both increasing: decide by the sign of the derivative numerator N'D - ND' when both are linear in var
        if rf.n.degree_in(var) <= 1 and rf.d.degree_in(var) <= 1 and not any(a.startswith("F") for a in rf.atoms()):
            n1 = rf.n.subst(var, Poly.const(1)) - rf.n.subst(var, Poly.const(0))
            n0 = rf.n.subst(var, Poly.const(0))
            d1 = rf.d.subst(var, Poly.const(1)) - rf.d.subst(var, Poly.const(0))
            d0 = rf.d.subst(var, Poly.const(0))
            w = n1 * d0 - n0 * d1
            if all(c >= 0 for c in w.t.values()):
                return 1
            if all(c <= 0 for c in w.t.values()):
                return -1
        return None
    return m_rf(term)


def _all_atoms(T, rf):
    out = set()
    todo = list(rf.atoms())
    while todo:
        a = todo.pop()
        if a in out:
            continue
        out.add(a)
        if a.startswith("F"):
            todo += list(T.floors.arg_of(a).atoms())
    return out


def mono_minus_floor_fraction(T, n, var):
    """n = A - floor(A*kappa/D) with A integral, kappa independent of var: n is non-decreasing in A (lemma), so mono(n) = mono(A)."""
    n = eround._rf(n)
    if not n.is_poly() or len(n.n.t) != 2:
        return None
    items = list(n.n.t.items())
    pos = [(m, c) for m, c in items if c == 1]
    neg = [(m, c) for m, c in items if c == -1]
    if len(pos) != 1 or len(neg) != 1:
        return None
    (mp, _), (mn, _) = pos[0], neg[0]
    if len(mp) != 1 or len(mn) != 1 or mp[0][1] != 1 or mn[0][1] != 1 or not mn[0][0].startswith("F"):
        return None
    A = RF.var(mp[0][0])
    arg = T.floors.arg_of(mn[0][0])
    # arg must be A * kappa with kappa free of var and of A
    kappa = arg.subst(mp[0][0], RF(1))
    if not arg.equals(A * kappa) or var in _all_atoms(T, kappa) or mp[0][0] in kappa.atoms():
        return None
    return mono(T, A, var)


# ---------------------------------------------------------------------------------------
# arithmetic base: the E-ROUND obligations of a property are proved over the reference summaries of the
# bignumber operations; the summaries themselves are verified against math.rs by C08.  A property whose
# formulas use an operation is only as good as that operation, so it imports C08's verdict for exactly the
# operations its translators applied (and the bignumber functions those call).

def _bignum_closure(P, paths):
    seen = set()
    todo = list(paths)
    while todo:
        p = todo.pop()
        if p in seen:
            continue
        seen.add(p)
        f = P.fn(p)
        if f is None or f.body is None:
            continue
        for b, cp, fr, t in P.calls(f):
            if cp:
                g = P.fn(cp) or P.fn(generic_path(cp)) or common.resolve_conversion(P, fr)
                if g is not None and g.crate == "bignumber" and g.path not in seen:
                    todo.append(g.path)
    return seen


def arith_base(ctx, iid):
    """Instance `iid`: every bignumber operation used by this run's formulas conforms to its exact-or-abort summary (C08.S, C08.R1)."""
    from .rules import c08
    P = ctx.P
    inst = ctx.inst(iid, "arithmetic base: the 256-bit operations these formulas use conform to their exact-or-abort reference summaries, their zero tests and width conversions are exact (shared with C08.S / R1 / R4 / Z)", floor=1)
    used = set()
    for T in getattr(P, "_translators", [])[ctx._tr_mark:]:
        used |= T.used_bignum
    if not used:
        inst.site("no bignumber operation is used by this property's formulas")
        return inst
    clo = _bignum_closure(P, used)
    cache = getattr(P, "_c08_cache", None)
    if cache is None:
        sub = type(ctx)("C08", P)
        sub.P_release = ctx.P_release
        c08.run(sub)
        cache = [(i.id, f) for i in sub.instances if i.id in ("C08.S", "C08.R1", "C08.R4", "C08.Z") for f in i.failures]
        P._c08_cache = cache
    for cid, f in cache:
        if f["fn"] in clo or f["fn"] == "-":
            inst.fail("%s:%s" % (iid, f["key"]), f["fn"], f["span"], "[%s] %s" % (cid, f["reason"]))
    for u in sorted(used):
        inst.site("uses %s (summary verified by C08.S)" % common.short_path(u))
    return inst
