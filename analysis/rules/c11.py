"""C11 — router delivers at least minimum_receive or the whole route reverts (DESIGN §5 C11)."""
import re
from .. import common, roles, lemmas
from ..roles import P_, param, INFO_TY, ENV_TY, AnchorMissing
from ..mir import generic_path
from ..lemmas import cond_strings

def ASSERT_VARIANT(ctx):
    return ctx.N.exec_enum("router") + "::AssertMinimumReceive"


def option_edges(ctx, fn, value_root, all_tests=False):
    """(some_edge, none_edge) of the switch on discr(value) where roots(value) == {value_root}; with all_tests, the list
    of all such pairs (an option may be tested more than once: once to describe it in an attribute, once to act on it)."""
    P = ctx.P
    found = []
    for s, blk in enumerate(fn.body.blocks):
        if blk["cleanup"] or blk["term"]["k"] != "switch":
            continue
        c = common.switch_cond(P, fn, s)
        if c and c[0] == "discr" and set(ctx.roots(c[1])) == {value_root}:
            ty = common.discr_place_ty(fn, s)
            some = none = None
            t = blk["term"]
            for x, tb in t["arms"]:
                nm = common.variant_name(P, ty, x)
                if nm == "Some":
                    some = (s, tb)
                elif nm == "None":
                    none = (s, tb)
            o = t["otherwise"]
            if fn.body.blocks[o]["term"]["k"] != "unreachable":
                if some is None:
                    some = (s, o)
                elif none is None:
                    none = (s, o)
            if some and none:
                if not all_tests:
                    return some, none
                found.append((some, none))
    return found if all_tests else None


def flat(rs):
    """Expand `or(a;b)` roots (unwrap_or forms) into their alternatives, so `to.unwrap_or(sender)` == `if let Some(to) = to {to} else {sender}`."""
    out = set()
    for r in rs:
        m = re.match(r"^or\((.*);(.*)\)$", r)
        if m and m.group(1).count("(") == m.group(1).count(")"):
            out |= flat(set(m.group(1).split("|"))) | flat(set(m.group(2).split("|")))
        else:
            out.add(r)
    return out


def target_asset_lemma(ctx, inst):
    """SwapOperation::get_target_asset_info returns the operation's ask asset."""
    P = ctx.P
    try:
        f = ctx.N.target_asset
    except AnchorMissing as e:
        inst.fail("%s:target-lemma:anchor" % inst.id, "-", "-", "anchor-missing: %s" % e)
        return None
    ex = common.exit_sites(P, f)
    rs = set()
    for (b, i, cls, v) in ex:
        rs |= set(ctx.roots(v))
    if rs != {P_(f, 0, "~HaloSwap.ask_asset_info")}:
        inst.fail("%s:target-lemma" % inst.id, f.path, f.span, "get_target_asset_info returns %s, expected the operation's ask_asset_info" % sorted(rs))
        return None
    inst.site("get_target_asset_info ⊢ self.ask_asset_info")
    return f


def run(ctx):
    P = ctx.P
    r1 = ctx.inst("C11.R1", "when minimum_receive is given, exactly one AssertMinimumReceive self-message is appended after the hop messages on every success path", floor=3)
    r2 = ctx.inst("C11.R2", "assertion message fields: asset = last hop's ask asset, prev_balance = recipient's balance of it sampled now, minimum = the parameter, receiver = the hops' recipient", floor=5)
    r3 = ctx.inst("C11.R3", "dispatch hands the four message fields to the assertion in matching roles", floor=4)
    r4 = ctx.inst("C11.R4", "assertion: (current balance of (asset, receiver) - prev_balance, aborting) < minimum => error; strict, this operand order", floor=3)
    r5 = ctx.inst("C11.R5", "the router never swallows a failure: no sub-message with a reply, messages only via add_message(s)", floor=3)
    r6 = ctx.inst("C11.R6", "both entry points hand minimum_receive / to / sender to the same acceptor unchanged", floor=6)
    try:
        rr = roles.RouterRoles(P)
    except AnchorMissing as e:
        for r in (r1, r2, r3, r4, r5, r6):
            r.fail("%s:anchor" % r.id, "-", "-", "anchor-missing: %s" % e)
        return
    acc = rr.acceptor
    body = acc.body
    env = param(acc, ENV_TY)
    ops_i = common.param_index_of_type(acc, r"^std::vec::Vec<%s>$" % ctx.N.rx("SwapOperation"))
    min_i = common.param_index_of_type(acc, r"^std::option::Option<cosmwasm_std::\S*Uint128>$")
    to_i = common.param_index_of_type(acc, r"^std::option::Option<cosmwasm_std::\S*Addr>$")
    snd_i = common.param_index_of_type(acc, r"^cosmwasm_std::\S*Addr$")
    if None in (ops_i, min_i, to_i, snd_i):
        r1.fail("C11.R1:anchor", acc.path, acc.span, "anchor-missing: acceptor parameters (Vec<SwapOperation>, Option<Uint128>, Option<Addr>, Addr)")
        return
    recipient = {P_(acc, to_i), P_(acc, snd_i)}

    # ---- R1 ------------------------------------------------------------------------------------
    asserts = [(fn, b, i, v, span) for (fn, b, i, adt, var, v, span) in common.message_sites(P) if adt + "::" + var == ASSERT_VARIANT(ctx)]
    if len(asserts) != 1 or asserts[0][0].path != acc.path:
        r1.fail("C11.R1:assert-sites", acc.path, acc.span, "AssertMinimumReceive is built at %d site(s) %s; expected exactly one, in the route acceptor" % (
            len(asserts), [a[0].path for a in asserts]))
        return
    afn, ab, ai, av, aspan = asserts[0]
    # `minimum_receive.filter(|m| !m.is_zero())`: a minimum of zero is met by every outcome (a balance difference, computed by
    # aborting subtraction, is never negative), so dropping exactly the zero minimum keeps the guarantee; any other predicate
    # (a route length, a flag) would drop minimums the caller relies on
    zero_drop = False
    for fb, fp, ffr, ft in P.calls(acc):
        if not fp or not generic_path(fp).endswith("option::Option::filter"):
            continue
        fv = P.val_call(acc, body, fb)
        if set(ctx.roots(fv[4][0])) != {P_(acc, min_i)}:
            continue
        clo = fv[4][1]
        cf_ = P.fn(clo[2]) if clo[0] == "agg" and clo[1] == "closure" else None
        okz = False
        if cf_ is not None and cf_.body is not None:
            exs_ = common.exit_sites(P, cf_)
            if len(exs_) == 1:
                c_ = common.cond_of_value(exs_[0][3], exs_[0][0])
                cs_ = cond_strings(ctx, [{"cond": c_, "allowed": [not common._cond_negated(c_)], "sw": exs_[0][0], "ty": None}]) if c_[0] == "cmp" else set()
                pm = P_(cf_, 1)
                zero_rx = r"(K:0|C:cosmwasm_std::(\S*::)?Uint128::zero@[^|,]*)"
                okz = any(x == "is_zero(%s) is [False]" % pm or re.match(r"^lt\(%s, %s\)$" % (zero_rx, re.escape(pm)), x) for x in cs_)
        if not okz:
            r1.fail("C11.R1:minimum-filtered", acc.path, common.span_of_block_term(acc, fb),
                    "minimum_receive is dropped by a filter whose predicate is not `the minimum is non-zero`: a requested minimum would go unchecked")
            return
        zero_drop = True
        r1.site("a zero minimum (met by every outcome) is dropped before the assertion is built at %s" % common.span_of_block_term(acc, fb))
    if zero_drop:
        ctx.R = common.Roots(P, extra_transparent=lambda callee: 0 if isinstance(callee, str) and generic_path(callee).endswith("option::Option::filter") else None)
    oes = option_edges(ctx, acc, P_(acc, min_i), all_tests=True)
    oe = oes[0] if oes else None
    if oe is None:
        r1.fail("C11.R1:no-option-test", acc.path, acc.span, "no test of minimum_receive being Some/None found: unrecognised-idiom")
        return
    some_e, none_e = oe
    # the response's message list
    adds = [(b, p) for b, p, fr, t in P.calls(acc) if p and re.search(r"Response::add_(message|messages|submessage|submessages)$", generic_path(p))]
    if len(adds) != 1 or not generic_path(adds[0][1]).endswith("add_messages"):
        r1.fail("C11.R1:response-shape", acc.path, acc.span, "expected a single add_messages call building the response, found %s: unrecognised-idiom" % [common.last_seg(p) for _, p in adds])
        return
    addv = P.val_call(acc, body, adds[0][0])
    msgs = addv[4][1]
    # decompose the message list: hop messages (one per operation, in order) followed by pushes
    vb = common.vec_build(P, acc, msgs)
    if vb is None:
        r1.fail("C11.R1:hop-list", acc.path, common.span_of_block_term(acc, adds[0][0]), "response messages are not a list built by collect / push: unrecognised-idiom")
        return
    base_v, ops_ = vb
    loop_pushes = [(op, cv_, lp) for op, cv_, lp in ops_ if lp]
    tail_ops = [(op, cv_, lp) for op, cv_, lp in ops_ if not lp]
    hop_anchor = None       # block after which the hop list is complete
    if base_v[0] == "call" and isinstance(base_v[3], str) and common.last_seg(base_v[3]) == "collect" and not loop_pushes:
        ads, kind, src = common.iter_chain(base_v[4][0])
        if [a for a, _ in ads] not in (["map"], ["map", "enumerate"]) or kind != "into_iter" or set(ctx.roots(src)) != {P_(acc, ops_i)}:
            r1.fail("C11.R1:hop-order", acc.path, common.span_of_block_term(acc, base_v[2]),
                    "hop messages are not built one per operation in route order (adaptors %s over %s)" % ([a for a, _ in ads], sorted(ctx.roots(src))))
        else:
            r1.site("hop list = operations.into_iter().map(hop message).collect() at %s" % common.span_of_block_term(acc, base_v[2]))
        hop_anchor = ("block", base_v[2])
    elif common.is_empty_vec_base(base_v) and len(loop_pushes) == 1 and loop_pushes[0][0] == "push":
        pcv = loop_pushes[0][1]
        lps_ = [l for l in common.loops(P, acc) if l["is_loop"] and body.edge_dominates(l["some_edge"], pcv[2])]
        okl = False
        if len(lps_) == 1:
            ads, kind, src = common.iter_chain(lps_[0]["iter"])
            lb_ = body.reachable_from(lps_[0]["some_edge"][1], cut_edges=(lps_[0]["none_edge"],))
            conds_ = [c for c in common.control_conditions(P, acc, pcv[2]) if c["sw"] in lb_ and c["sw"] != lps_[0]["switch"]]
            conds_ = [c for c in conds_ if not (c["cond"][0] == "discr" and c["allowed"] in (["Continue"], ["Ok"]))]
            if [a for a, _ in ads] in ([], ["enumerate"]) and kind == "into_iter" and set(ctx.roots(src)) == {P_(acc, ops_i)} and not conds_:
                okl = True
                hop_anchor = ("edge", lps_[0]["none_edge"])
        if not okl:
            r1.fail("C11.R1:hop-order", acc.path, common.span_of_block_term(acc, pcv[2]), "hop messages are not pushed one per operation, unconditionally, in route order")
        else:
            r1.site("hop list = one push per operation in a loop over operations.into_iter() at %s" % common.span_of_block_term(acc, pcv[2]))
    else:
        r1.fail("C11.R1:hop-list", acc.path, common.span_of_block_term(acc, adds[0][0]), "response messages are not `hop list (collected or pushed per operation) + pushes`: unrecognised-idiom")
        return
    pushes = []
    for op, cv_, lp in tail_ops:
        if op != "push":
            r1.fail("C11.R1:message-list-mutation", acc.path, common.span_of_block_term(acc, cv_[2]), "the message list is modified by %s (only a push of the assertion is expected): unrecognised-idiom" % op)
        else:
            pushes.append(cv_[2])
    if len(pushes) != 1:
        r1.fail("C11.R1:push-count", acc.path, acc.span, "%d pushes onto the message list after the hops, expected exactly one (the assertion)" % len(pushes))
    else:
        pb = pushes[0]
        pv = P.val_call(acc, body, pb)
        pushed = "|".join(sorted(ctx.roots(pv[4][1])))
        if not pushed.startswith("A:cosmwasm_std::CosmosMsg::Wasm{0=A:cosmwasm_std::WasmMsg::Execute{contract_addr=%s,msg=bin(A:%s{" % (P_(acc, env, ".contract.address"), ASSERT_VARIANT(ctx))):
            r1.fail("C11.R1:pushed-message", acc.path, common.span_of_block_term(acc, pb), "the appended message is not the router's own AssertMinimumReceive: %s" % pushed[:200])
        elif not any(body.edge_dominates(se, pb) for se, _ in oes):
            r1.fail("C11.R1:push-region", acc.path, common.span_of_block_term(acc, pb), "the assertion is appended outside the `minimum_receive is Some` region")
        else:
            # on the Some region every success exit passes the push
            some_e = [se for se, _ in oes if body.edge_dominates(se, pb)][0]
            bad = False
            for (b, i, cls, v) in common.ok_exit_blocks(P, acc):
                if b in body.reachable_from(some_e[1], cut_blocks=(pb,)):
                    bad = True
                    r1.fail("C11.R1:push-skippable", acc.path, common.span_of_block_term(acc, b), "with minimum_receive given, a success exit is reachable without appending the assertion")
            # the push comes after the hop list is complete
            after = body.block_dominates(hop_anchor[1], pb) if hop_anchor and hop_anchor[0] == "block" else (hop_anchor is not None and body.edge_dominates(hop_anchor[1], pb))
            if not after:
                bad = True
                r1.fail("C11.R1:push-order", acc.path, common.span_of_block_term(acc, pb), "the assertion is appended before the hop list is complete")
            # add_messages consumes the list after the push
            if pb not in body.reachable_from(0) or adds[0][0] not in body.reachable_from(pb):
                bad = True
                r1.fail("C11.R1:push-unused", acc.path, common.span_of_block_term(acc, pb), "the list with the assertion does not reach the response")
            if not bad:
                r1.site("single push of AssertMinimumReceive at %s, in the Some region, after the hop list, before add_messages" % common.span_of_block_term(acc, pb))
    # the response must carry the list on all Ok exits
    for (b, i, cls, v) in common.ok_exit_blocks(P, acc):
        rs = set(ctx.roots(v, (("v", "Ok"), ("f", 0))))
        if not any("add_messages" in r for r in rs):
            r1.fail("C11.R1:response-origin", acc.path, common.span_of_block_term(acc, b), "a success exit returns %s, not the response carrying the message list" % sorted(rs))
        else:
            r1.site("success exit returns Response::add_messages(list)")

    # ---- R2 fields ----------------------------------------------------------------------------------------
    tfn = target_asset_lemma(ctx, r2)
    f = dict(av[3])
    asset_roots = set(ctx.roots(f["asset_info"]))
    tgt_calls = [x for x in common.walk(f["asset_info"]) if x[0] == "call" and isinstance(x[3], str) and tfn is not None and generic_path(x[3]) == tfn.path]
    ok_asset = False
    if len(tgt_calls) == 1 and len(asset_roots) == 1:
        arg = set(ctx.roots(tgt_calls[0][4][0]))
        lastc = [x for x in common.walk(tgt_calls[0][4][0]) if x[0] == "call" and isinstance(x[3], str) and common.last_seg(x[3]) == "last"]
        if len(lastc) == 1 and set(ctx.roots(lastc[0][4][0])) == {P_(acc, ops_i)}:
            ok_asset = True
    if not ok_asset:
        r2.fail("C11.R2:asset", acc.path, aspan.replace("!x", ""), "asset_info ⊢ %s, expected target asset of operations.last()" % sorted(asset_roots))
    else:
        r2.site("asset_info ⊢ get_target_asset_info(operations.last())")
    prev = [x for x in common.walk(f["prev_balance"]) if x[0] == "call" and ctx.N.is_fn(x[3], "query_pool")]
    pr_roots = set(ctx.roots(f["prev_balance"]))
    if len(prev) != 1 or len(pr_roots) != 1 or not list(pr_roots)[0].startswith("C:%s@" % ctx.N.cpath("query_pool")):
        r2.fail("C11.R2:prev-origin", acc.path, aspan.replace("!x", ""), "prev_balance ⊢ %s, expected a balance query made in this call" % sorted(pr_roots))
    else:
        q = prev[0]
        qa, qacct = set(ctx.roots(q[4][0])), flat(set(ctx.roots(q[4][3])))
        if qa != asset_roots:
            r2.fail("C11.R2:prev-asset", acc.path, common.span_of_block_term(acc, q[2]), "prev_balance is sampled for asset %s, the assertion names %s" % (sorted(qa), sorted(asset_roots)))
        elif qacct != recipient:
            r2.fail("C11.R2:prev-account", acc.path, common.span_of_block_term(acc, q[2]), "prev_balance is sampled for account %s, expected the route's recipient %s" % (sorted(qacct), sorted(recipient)))
        else:
            r2.site("prev_balance ⊢ query_pool(target asset, recipient) at %s" % common.span_of_block_term(acc, q[2]))
    mn = set(ctx.roots(f["minimum_receive"]))
    if mn != {P_(acc, min_i)}:
        r2.fail("C11.R2:minimum", acc.path, aspan.replace("!x", ""), "minimum_receive ⊢ %s, expected the caller's minimum_receive" % sorted(mn))
    else:
        r2.site("minimum_receive ⊢ parameter")
    rc = flat(set(ctx.roots(f["receiver"])))
    if rc != recipient:
        r2.fail("C11.R2:receiver", acc.path, aspan.replace("!x", ""), "receiver ⊢ %s, expected to-or-sender %s" % (sorted(rc), sorted(recipient)))
    else:
        r2.site("receiver ⊢ to or sender")
    # the last hop's recipient is the same value
    hops = [(fn, v, span) for (fn, b, i, adt, var, v, span) in common.message_sites(P) if adt + "::" + var == ctx.N.exec_enum("router") + "::ExecuteSwapOperation"]
    for fn, v, span in hops:
        tov = dict(v[3])["to"]
        if fn.path != acc.path and not (fn.kind == "closure" and fn.parent == acc.path):
            _, tov = common.lift_value(P, fn, tov)
        to_roots = set(ctx.roots(tov))
        somes = {r for r in to_roots if r.startswith("A:std::option::Option::Some{0=")}
        inner = set()
        for s_ in somes:
            inner |= flat(set(s_[len("A:std::option::Option::Some{0="):-1].split("|")))
        if inner != recipient:
            r2.fail("C11.R2:hop-recipient", fn.path, span.replace("!x", ""), "the hop message's recipient ⊢ %s differs from the assertion's receiver %s" % (sorted(inner), sorted(recipient)))
        else:
            r2.site("hop `to` carries the same recipient")

    # ---- R4 the assertion (also fixes the roles of the two Uint128 parameters) --------------------------------------
    h = rr.assert_handler
    asset_p = common.param_index_of_type(h, "^%s$" % ctx.N.rx("AssetInfo"))
    recv_p = common.param_index_of_type(h, r"^cosmwasm_std::\S*Addr$")
    if recv_p is None:
        recv_p = common.param_index_of_type(h, r"^std::string::String$")      # validated inside the handler instead of in the dispatcher
    prev_p = min_p = None
    found = False
    for g in common.bool_guards(P, h):
        c = g.cond
        if c[0] != "cmp" or c[1] not in ("lt", "le", "gt", "ge") or len(c[2]) != 2:
            continue
        # which edge rejects?
        err_true = common.fail_edge_only_errors(P, h, g.edge(True))[0]
        err_false = common.fail_edge_only_errors(P, h, g.edge(False))[0]
        if err_true == err_false:
            continue
        a, b = c[2]
        kind = c[1]
        if kind in ("gt", "ge"):
            a, b = b, a
            kind = {"gt": "lt", "ge": "le"}[kind]
        if err_false:
            # rejects when NOT (a kind b):  not(a < b) == b <= a ; not(a <= b) == b < a
            a, b = b, a
            kind = {"lt": "le", "le": "lt"}[kind]
        # now: rejects iff  a (kind) b ; expected  growth < minimum
        a_raw = a
        a, b = common.inline_helpers(P, a), common.inline_helpers(P, b)      # `received_since(cur, prev)?` is its checked_sub
        subs = [x for x in common.walk(a) if x[0] == "call" and isinstance(x[3], str) and generic_path(x[3]).endswith("Uint128::checked_sub")]
        ar, br = set(ctx.roots(a)), set(ctx.roots(b))
        if len(subs) != 1 or len(ar) != 1 or not list(ar)[0].startswith("C:cosmwasm_std::Uint128::checked_sub@"):
            # maybe the roles are the other way round (minimum <(=) growth rejecting): report as operand confusion below
            subs2 = [x for x in common.walk(b) if x[0] == "call" and isinstance(x[3], str) and generic_path(x[3]).endswith("Uint128::checked_sub")]
            if len(subs2) == 1:
                found = True
                r4.fail("C11.R4:direction", h.path, common.span_of_block_term(h, g.b), "the assertion rejects when minimum %s growth (expected: reject iff growth < minimum)" % ("<" if kind == "lt" else "<="))
            continue
        found = True
        sub = subs[0]
        bal = [x for x in common.walk(sub[4][0]) if x[0] == "call" and ctx.N.is_fn(x[3], "query_pool")]
        pm = re.match(r"^P:%s#(\d+)$" % re.escape(h.path), "|".join(sorted(ctx.roots(sub[4][1]))))
        mm = re.match(r"^P:%s#(\d+)$" % re.escape(h.path), "|".join(sorted(br)))
        where = common.span_of_block_term(h, g.b)
        if kind != "lt":
            r4.fail("C11.R4:non-strict", h.path, where, "rejects when growth <= minimum (an exactly sufficient delivery would be rejected)")
        elif not bal or set(ctx.roots(bal[0][4][0])) != {P_(h, asset_p)} or set(ctx.roots(bal[0][4][3])) not in ({P_(h, recv_p)}, {"valid(%s)" % P_(h, recv_p)}) or len(set(ctx.roots(sub[4][0]))) != 1:
            r4.fail("C11.R4:balance", h.path, where, "the minuend is not the current balance of (asset_info, receiver): %s" % ctx.show(sub[4][0], 4))
        elif not pm or not mm or pm.group(1) == mm.group(1):
            r4.fail("C11.R4:operands", h.path, where, "compares %s with %s: expected (balance - prev_balance) < minimum with two distinct parameters" % (sorted(ar), sorted(br)))
        else:
            prev_p, min_p = int(pm.group(1)), int(mm.group(1))
            sub_ok = True
            if str(sub[1]) == h.path:
                pg = common.propagated(P, h, sub[2])
                sub_ok = pg is not None and common.fail_edge_only_errors(P, h, pg[2])[0]
            else:
                # the subtraction lives in a helper: its error must leave the helper and the helper's error the handler
                hf_ = P.fn(str(sub[1]))
                pg = common.propagated(P, hf_, sub[2]) if hf_ is not None else None
                sub_ok = pg is not None and common.fail_edge_only_errors(P, hf_, pg[2])[0]
                hc_ = [x for x in common.walk(a_raw) if x[0] == "call" and isinstance(x[3], str) and generic_path(x[3]) == str(sub[1]) and str(x[1]) == h.path]
                pg2 = common.propagated(P, h, hc_[0][2]) if len(hc_) == 1 else None
                sub_ok = sub_ok and pg2 is not None and common.fail_edge_only_errors(P, h, pg2[2])[0]
            if not sub_ok:
                r4.fail("C11.R4:sub-unchecked", h.path, where, "the balance difference can underflow silently (checked_sub error not turned into a failure)")
            pe = g.edge(not err_true)
            for (b2, i2, cls, v2) in common.ok_exit_blocks(P, h):
                if not h.body.edge_dominates(pe, b2):
                    r4.fail("C11.R4:ok-unguarded", h.path, common.span_of_block_term(h, b2), "a success exit is reachable without passing the minimum-receive comparison")
            if r4.status == "pass":
                r4.site("rejects iff query_pool(asset, receiver) - arg%d < arg%d, at %s" % (prev_p, min_p, where))
                r4.site("difference by aborting checked_sub, error turned into a failure")
                r4.site("all success exits behind the comparison")
    if not found:
        r4.fail("C11.R4:no-comparison", h.path, h.span, "no comparison of a balance difference with the minimum found in the assertion handler")

    # ---- R3 dispatch wiring --------------------------------------------------------------------------------------------
    ex, edge, region, _, callbb = rr.assertion
    cv = P.val_call(ex, ex.body, callbb)
    msg_i = common.param_index_of_type(rr.execute, "^%s$" % re.escape(ctx.N.exec_enum("router")))
    base = P_(rr.execute, msg_i, "~AssertMinimumReceive")       # in the entry point's terms, also behind a thin per-variant handler
    wants = []
    if asset_p is not None:
        wants.append((asset_p, {base + ".asset_info"}, "asset_info"))
    if recv_p is not None:
        wants.append((recv_p, {"valid(%s.receiver)" % base}, "receiver"))
    if prev_p is not None:
        wants.append((prev_p, {base + ".prev_balance"}, "prev_balance"))
    if min_p is not None:
        wants.append((min_p, {base + ".minimum_receive"}, "minimum_receive"))
    for pi, want, name in wants:
        got = set(ctx.roots(cv[4][pi]))
        if got != want and got != {x.replace("valid(", "").rstrip(")") for x in want}:
            r3.fail("C11.R3:%s" % name, ex.path, common.span_of_block_term(ex, callbb), "the assertion's %s role receives %s, expected the message field %s" % (name, sorted(got), sorted(want)))
        else:
            r3.site("%s <- message.%s" % (name, name))

    # ---- R5 no reply / no swallowed errors ----------------------------------------------------------------------------------
    n_sub = 0
    for (fn, b, i, adt, var, v, span) in common.message_sites(P):
        if fn.crate == "halo_router" and common.adt_short(adt) == "SubMsg":
            n_sub += 1
            ro = "|".join(sorted(ctx.roots(dict(v[3])["reply_on"])))
            if "ReplyOn::Never" not in ro:
                r5.fail("C11.R5:submsg-reply:%s" % fn.path, fn.path, span.replace("!x", ""), "router builds a SubMsg with reply_on ⊢ %s: a failing hop could be swallowed" % ro)
    for fn in P.prod_fns():
        if fn.crate != "halo_router":
            continue
        for b, p, fr, t in P.calls(fn):
            g = generic_path(p) if p else ""
            if re.search(r"(Response::add_submessages?$|SubMsg::(reply_on_success|reply_on_error|reply_always)$)", g):
                r5.fail("C11.R5:submessage-call:%s" % fn.path, fn.path, common.span_of_block_term(fn, b), "router attaches a sub-message (%s); replies can swallow failures" % common.last_seg(g))
            elif re.search(r"Response::add_messages?$", g):
                r5.site("%s %s" % (common.span_of_block_term(fn, b), common.last_seg(g)))
    try:
        roles.entry(P, "router", "reply")
        r5.fail("C11.R5:reply-entry", "halo_router", "-", "router exports a reply entry point")
    except AnchorMissing:
        r5.site("router has no reply entry point")

    # ---- R6 entry wiring ------------------------------------------------------------------------------------------------------
    ex, edge, region, _, callbb = rr.accept
    dv = P.val_call(ex, ex.body, callbb)
    exi = param(ex, INFO_TY)
    dbase = P_(rr.execute, msg_i, "~ExecuteSwapOperations")      # in the entry point's terms, also behind a thin forwarder
    recvf, hedge, hregion, _, hcall = rr.hook
    hv = P.val_call(recvf, recvf.body, hcall)
    cw20_i = common.param_index_of_type(rr.recv_fn, r"^cw20::\S*Cw20ReceiveMsg$")
    hroot = [r for r in ctx.roots(hv[4][ops_i])]
    hbase = hroot[0].rsplit(".operations", 1)[0] if len(hroot) == 1 and hroot[0].endswith(".operations") else None
    if hbase is None or not hbase.startswith("C:cosmwasm_std::from_binary@"):
        r6.fail("C11.R6:hook-decode", recvf.path, common.span_of_block_term(recvf, hcall), "hook path: operations ⊢ %s, expected the decoded hook message" % sorted(hroot))
    else:
        for label, v, base_, f_, cb_, sender_want in (("direct", dv, dbase, ex, callbb, {P_(ex, exi, ".sender")}),
                                                        ("hook", hv, hbase, recvf, hcall, {"valid(%s)" % P_(rr.recv_fn, cw20_i, ".sender")})):
            got_ops = set(ctx.roots(v[4][ops_i]))
            got_min = set(ctx.roots(v[4][min_i]))
            got_to = set(ctx.roots(v[4][to_i]))
            got_snd = set(ctx.roots(v[4][snd_i]))
            where = common.span_of_block_term(f_, cb_)
            if got_ops != {base_ + ".operations"}:
                r6.fail("C11.R6:%s:operations" % label, f_.path, where, "%s entry passes operations ⊢ %s" % (label, sorted(got_ops)))
            if got_min != {base_ + ".minimum_receive"}:
                r6.fail("C11.R6:%s:minimum" % label, f_.path, where, "%s entry passes minimum_receive ⊢ %s, expected the message's own field" % (label, sorted(got_min)))
            else:
                r6.site("%s: minimum_receive ⊢ message field" % label)
            if got_snd != sender_want:
                r6.fail("C11.R6:%s:sender" % label, f_.path, where, "%s entry passes sender ⊢ %s, expected %s" % (label, sorted(got_snd), sorted(sender_want)))
            else:
                r6.site("%s: sender ⊢ %s" % (label, sorted(sender_want)[0]))
            # `to` goes through the optional validator helper
            tv = v[4][to_i]
            inner = [x for x in common.walk(tv) if x[0] == "call" and isinstance(x[3], str) and roles.is_workspace_fn(P, x[3])]
            ok_to = False
            if len(inner) == 1 and set(ctx.roots(inner[0][4][1])) == {base_ + ".to"}:
                vf = P.fn(inner[0][3]) or P.fn(generic_path(inner[0][3]))
                rets = set()
                for (b2, i2, cls, v2) in common.ok_exit_blocks(P, vf):
                    rets |= set(ctx.roots(v2, (("v", "Ok"), ("f", 0))))
                api_i, s_i = 0, 1
                if rets <= {"A:std::option::Option::None{}", "A:std::option::Option::Some{0=valid(%s)}" % P_(vf, 1, "~Some.0"), "A:std::option::Option::Some{0=valid(%s)}" % P_(vf, 1)} and any("Some" in r for r in rets):
                    ok_to = True
            elif got_to == {base_ + ".to"}:
                ok_to = True
            elif got_to <= {"A:std::option::Option::None{}", "A:std::option::Option::Some{0=valid(%s.to~Some.0)}" % base_, "A:std::option::Option::Some{0=valid(%s.to)}" % base_} \
                    and any("Some" in r_ for r_ in got_to):
                ok_to = True        # the same validation written in place: `to.map(|a| api.addr_validate(&a)).transpose()?`
            if not ok_to:
                r6.fail("C11.R6:%s:to" % label, f_.path, where, "%s entry passes `to` ⊢ %s, expected the (validated) message field" % (label, sorted(got_to)))
            else:
                r6.site("%s: to ⊢ validated message field" % label)
    ctx.assumptions.append("a failing message aborts and reverts the whole transaction (platform); messages attached with add_message(s) have reply_on = Never (cosmwasm-std)")
