"""C18 — decimal and integer text, JSON and width conversions are lossless (DESIGN §5 C18).
Round-trip equality over all values is a value-level statement; static analysis decides the agreement of
the writer's and the reader's tables and the fit guards (necessary conditions), and says so."""
import math
import json, re
from .. import common, roles, lemmas
from ..roles import P_
from ..mir import generic_path
from . import c08

BN = "bignumber::math::"
DEC, U = BN + "Decimal256", BN + "Uint256"
SCALE_ITEM = ("const", "item", "bignumber::math::Decimal256::DECIMAL_FRACTIONAL")


def trait_fn(P, self_ty, trait_suffix, name):
    hits = [f for f in P.fns.values() if f.crate == "bignumber" and f.body is not None and f.kind == "assoc_fn" and f.name == name and
            f.impl_self == self_ty and (f.impl_trait or "").endswith(trait_suffix) and not f.derived and "::tests::" not in f.path]
    return hits[0] if len(hits) == 1 else None


def calls_named(P, f, name):
    return [(b, P.val_call(f, f.body, b)) for b, p, fr, t in P.calls(f) if p and common.last_seg(p) == name]


def calls_named_inl(P, f, name):
    """calls_named, plus the calls of that name inside private helpers f calls, seen with the helpers' parameters replaced
    by the arguments (a renderer split into `split_whole_fractional()` / `pad_fractional(x)` is one renderer)."""
    out = list(calls_named(P, f, name))
    have = [v for _, v in out]
    for b, p, fr, t in P.calls(f):
        h = (P.fn(p) or P.fn(generic_path(p))) if p else None
        if h is None or h.crate != "bignumber" or h.body is None or h.derived or h.impl_trait is not None or "::tests::" in h.path:
            continue
        cv = P.val_call(f, f.body, b)
        iv = common.inline_helpers(P, cv)
        if iv == cv:
            continue
        for x in common.walk(iv):
            if x[0] == "call" and isinstance(x[3], str) and common.last_seg(x[3]) == name and x not in have:
                have.append(x)
                out.append((b, x))
    return out


def helper_closure(P, f):
    """f and the private free functions of bignumber it (transitively) calls: a parser split into helpers is one parser."""
    out, todo = [f], [f]
    while todo:
        g = todo.pop()
        for b, p, fr, t in P.calls(g):
            h = (P.fn(p) or P.fn(generic_path(p))) if p else None
            if h is not None and h.crate == "bignumber" and h.body is not None and h.kind == "fn" and h.impl_trait is None and not h.derived and \
                    "::tests::" not in h.path and h.path not in [x.path for x in out]:
                out.append(h)
                todo.append(h)
    return out


def uint_text_wrappers(ctx):
    """Inherent helpers of Uint256 that are its text parser under another name (`fn parse_dec(val: &str) -> Result<Self, String>`):
    one `U256::from_dec_str` on the helper's own input, Ok exactly when it returned Ok (with that value), every other exit an
    error (further tests on the error side only choose the message).  {path: Fn}"""
    P = ctx.P
    out = {}
    for g in P.fns.values():
        if g.crate != "bignumber" or g.impl_self != U or g.impl_trait is not None or g.body is None or g.derived or "::tests::" in g.path or g.body.back_edges():
            continue
        ps = calls_named(P, g, "from_dec_str")
        if len(ps) != 1 or g.body.arg_count != 1 or set(ctx.roots(ps[0][1][4][0])) != {P_(g, 0)}:
            continue
        pv = ps[0][1]
        PR = "C:%s@%s:bb%d" % (generic_path(pv[3]), g.path, pv[2])
        good, n_ok = True, 0
        for (b, i, cls, v) in common.exit_sites(P, g):
            cs_ = lemmas.cond_strings(ctx, common.control_conditions(P, g, b))
            if cls == "ok":
                n_ok += 1
                rs = set(ctx.roots(v, (("v", "Ok"), ("f", 0)))) | set(ctx.roots(v, (("v", "Ok"), ("f", 0), ("f", 0))))
                if cs_ != {"discr(%s) in ['Ok']" % PR} or not any(PR in r for r in rs):
                    good = False
            elif cls == "err":
                if "discr(%s) in ['Err']" % PR not in cs_:
                    good = False
            else:
                good = False
        if good and n_ok:
            out[g.path] = g
    return out


def calls_named_deep(P, fns, name):
    return [(b, v) for f in fns for (b, v) in calls_named(P, f, name)]


def fn_of(P, v):
    return P.fn(str(v[1])) or P.fn(str(v[1]).rsplit("#", 1)[0])


def run(ctx):
    P = ctx.P
    t1 = ctx.inst("C18.T1", "one scale in renderer and parser: pad width == max fractional digits == log10(DECIMAL_FRACTIONAL) == 18; radix 10; split by / and % of the constant the parser multiplies by; same separator; pad char == trimmed char", floor=7)
    t2 = ctx.inst("C18.T2", "serde pairs: Serialize writes to_string(); the visitors accept exactly what FromStr / from_dec_str accept (no extra condition) and return that value", floor=6)
    t3 = ctx.inst("C18.T3", "width conversions are guarded and agree on limb order (shared with C08.R4)", floor=3)
    t4 = ctx.inst("C18.T4", "Decimal <-> Decimal256 go through to_string -> from_str of two 18-digit types; Uint256 text paths all use from_dec_str / U256 Display", floor=5)
    c = P.consts.get("bignumber::math::Decimal256::DECIMAL_FRACTIONAL")
    scale = int.from_bytes(bytes.fromhex(c["bytes_le_hex"]), "little") if c and "bytes_le_hex" in c else None
    lg = None
    if scale and scale > 0:
        lg = round(math.log10(scale))
        if 10 ** lg != scale:
            lg = None
    if lg is None:
        t1.fail("C18.T1:scale", "bignumber::math", "-", "DECIMAL_FRACTIONAL (%s) is not a power of ten" % scale)
        return
    t1.site("DECIMAL_FRACTIONAL = 10^%d (evaluated)" % lg)
    disp = trait_fn(P, DEC, "fmt::Display", "fmt")
    pars = trait_fn(P, DEC, "str::FromStr", "from_str")
    if disp is None or pars is None:
        t1.fail("C18.T1:anchor", "-", "-", "anchor-missing: Display / FromStr for Decimal256")
        return
    # ---- renderer -------------------------------------------------------------------------------------
    divs = [v for b, v in calls_named_inl(P, disp, "div") if "U256" in v[3]]
    rems = [v for b, v in calls_named_inl(P, disp, "rem") if "U256" in v[3]]
    SELF0 = P_(disp, 0, ".0")
    if len(divs) != 1 or len(rems) != 1 or divs[0][4][1] != SCALE_ITEM or rems[0][4][1] != SCALE_ITEM or \
            set(ctx.roots(divs[0][4][0])) != {SELF0} or set(ctx.roots(rems[0][4][0])) != {SELF0}:
        t1.fail("C18.T1:display-split", disp.path, disp.span, "renderer does not split the raw value by / and % of DECIMAL_FRACTIONAL")
    else:
        t1.site("Display: whole = raw / SCALE, fractional = raw % SCALE")
    reps = calls_named_inl(P, disp, "repeat")
    pad = None
    pad_char = None
    if len(reps) == 1:
        rv = reps[0][1]
        a0, a1 = rv[4]
        if a0[0] == "const" and a0[1] == "str" and len(a0[2]) == 1:
            pad_char = a0[2]
        x = a1
        if x[0] == "proj" and x[2] == ("f", 0):
            x = x[1]
        if x[0] == "binop" and x[1].startswith("Sub") and x[2][0] == "const" and x[2][1] == "int":
            lens = [y for y in common.walk(x[3]) if y[0] == "call" and isinstance(y[3], str) and common.last_seg(y[3]) == "len"]
            ts = [y for y in common.walk(x[3]) if y[0] == "call" and isinstance(y[3], str) and common.last_seg(y[3]) == "to_string"]
            if lens and ts and ts[0][4][0] == rems[0] if rems else False:
                pad = x[2][2]
    if pad is None or pad_char is None:
        t1.fail("C18.T1:display-pad", disp.path, disp.span, "renderer does not left-pad the fractional digits with `pad.repeat(WIDTH - len(fractional.to_string()))`: unrecognised-idiom")
    elif pad != lg:
        t1.fail("C18.T1:display-width", disp.path, common.span_of_block_term(disp, reps[0][0]), "renderer pads the fraction to %d digits but the scale is 10^%d" % (pad, lg))
    else:
        t1.site("Display: fraction padded to %d digits with '%s'" % (pad, pad_char))
    seps = [v for b, v in calls_named_inl(P, disp, "write_char")]
    dsep = seps[0][4][1][2] if len(seps) == 1 and seps[0][4][1][0] == "const" else None
    trims = [v for b, v in calls_named_inl(P, disp, "trim_end_matches")]
    tchar = trims[0][4][1][2] if len(trims) == 1 and trims[0][4][1][0] == "const" else None
    if tchar is None or pad_char is None or tchar != ord(pad_char):
        t1.fail("C18.T1:display-trim", disp.path, disp.span, "renderer trims %r but pads with %r" % (chr(tchar) if isinstance(tchar, int) else tchar, pad_char))
    else:
        t1.site("Display: trailing '%s' trimmed (== pad char)" % pad_char)
    # both renderings of whole / fractional go through U256's Display (radix 10 axiom): to_string of the U256 quotient / remainder
    # ---- parser ------------------------------------------------------------------------------------------
    PF = helper_closure(P, pars)
    spl = [v for b, v in calls_named_deep(P, PF, "split")]
    psep = spl[0][4][1][2] if len(spl) == 1 and spl[0][4][1][0] == "const" else None
    if dsep is None or psep is None or dsep != psep:
        t1.fail("C18.T1:separator", pars.path, pars.span, "renderer separator %r differs from parser separator %r" % (dsep, psep))
    else:
        t1.site("separator %r in both" % chr(dsep))
    cs = [v for b, v in calls_named_deep(P, PF, "checked_sub")]
    pmax = None
    lens = []
    if len(cs) == 1 and cs[0][4][0][0] == "const":
        lens = [y for y in common.walk(cs[0][4][1]) if y[0] == "call" and isinstance(y[3], str) and common.last_seg(y[3]) == "len"]
        if lens:
            pmax = cs[0][4][0][2]
    BF = fn_of(P, cs[0]) if len(cs) == 1 else pars          # the function holding the bound check (the parser or one of its helpers)
    if pmax is None:
        t1.fail("C18.T1:parser-max", pars.path, pars.span, "parser does not bound the fractional digits by `MAX.checked_sub(len(fraction))`: unrecognised-idiom")
    elif pmax != lg:
        t1.fail("C18.T1:parser-width", BF.path, common.span_of_block_term(BF, cs[0][2]), "parser accepts up to %d fractional digits but the scale is 10^%d" % (pmax, lg))
    else:
        t1.site("FromStr: at most %d fractional digits (checked_sub => error beyond)" % pmax)
    # the digit bound guards EVERY accepted numeral with a fractional part: each success exit reachable after the
    # fractional part was parsed is dominated by the success edge of the bound check (no early return around it)
    if pmax is not None and lens:
        def shape(v):
            """value without the block numbers of its calls: two reads of the same element compare equal"""
            if isinstance(v, tuple):
                if v and v[0] == "call":
                    return ("call", v[3], tuple(shape(x) for x in v[4]))
                return tuple(shape(x) for x in v)
            return v

        def same_elem(a, b_):
            return shape(a) == shape(b_)
        frac_elem = lens[0][4][0]
        fparses = [(b, v) for b, v in calls_named(P, BF, "from_dec_str") if same_elem(v[4][0], frac_elem)]

        def passed_bound(b2):
            """b2 is only reached when the bound check produced a value (`?` / match Some / if let Some)."""
            for c in common.control_conditions(P, BF, b2, False):
                cd = c["cond"]
                if cd[0] == "discr" and set(c["allowed"]) <= {"Some", "Continue", "Ok"} and cs[0] in list(common.walk(cd[1])):
                    return True
            return False
        if not fparses:
            t1.fail("C18.T1:parser-bound-shape", BF.path, BF.span, "cannot relate the digit bound to the parse of the fractional part: unrecognised-idiom")
        else:
            bad = []
            for fb, fv in fparses:
                reach = BF.body.reachable_from(fb)
                for (b2, i2, cls2, v2) in common.ok_exit_blocks(P, BF):
                    if b2 in reach and not passed_bound(b2):
                        bad.append(b2)
            if BF.path != pars.path:
                # the helper's verdict must reach the parser's result: its call is inspected and a failure ends the parse
                hcalls = [b for f_ in PF for b, p_, fr_, t_ in P.calls(f_) if p_ and generic_path(p_) == BF.path and f_.path != BF.path]
                for hb in hcalls:
                    hf_ = [f_ for f_ in PF if any(b == hb and p_ and generic_path(p_) == BF.path for b, p_, fr_, t_ in P.calls(f_))][0]
                    pg_ = common.propagated(P, hf_, hb)
                    if pg_ is None or not common.fail_edge_only_errors(P, hf_, pg_[2])[0]:
                        t1.fail("C18.T1:parser-bound-dropped", hf_.path, common.span_of_block_term(hf_, hb), "the result of %s (which holds the digit bound) is not propagated" % BF.path)
                if len(hcalls) != 1:
                    t1.fail("C18.T1:parser-bound-shape", BF.path, BF.span, "the helper holding the digit bound is called %d times: unrecognised-idiom" % len(hcalls))
            if bad:
                t1.fail("C18.T1:parser-bound-bypass", BF.path, common.span_of_block_term(BF, bad[0]),
                        "a numeral with a fractional part is accepted on a path that does not pass the %d-digit bound check (early return): strings with more than %d fractional digits can parse" % (pmax, pmax))
            else:
                t1.site("FromStr: every success after parsing the fractional part passes the digit bound")
    pows = [v for b, v in calls_named_deep(P, PF, "pow")]
    radix = None
    if len(pows) == 1:
        base = pows[0][4][0]
        while base[0] == "call" and isinstance(base[3], str) and common.transparent_arg(base[3]) == 0:
            base = base[4][0]
        if base[0] == "const":
            radix = base[2]
        exp_ok = cs and cs[0] in list(common.walk(pows[0][4][1]))
        if not exp_ok:
            t1.fail("C18.T1:parser-exponent", fn_of(P, pows[0]).path, common.span_of_block_term(fn_of(P, pows[0]), pows[0][2]), "fraction is not scaled by RADIX^(MAX - len(fraction))")
    if radix != 10:
        t1.fail("C18.T1:radix", pars.path, pars.span, "parser scales the fraction by powers of %s, expected 10" % radix)
    else:
        t1.site("FromStr: fraction * 10^(18 - len)")
    # through private helpers: look at the (inlined) result values
    from .. import selection
    inl_exits = [(b, cls, selection.resolve(common.inline_helpers(P, v))) for (b, i, cls, v) in common.exit_sites(P, pars)]
    muls, fdecs = [], []
    for b, cls, v in inl_exits:
        for y in common.walk(v):
            if y[0] == "call" and isinstance(y[3], str) and common.last_seg(y[3]) == "mul" and "U256" in y[3] and y not in muls:
                muls.append(y)
            if y[0] == "call" and isinstance(y[3], str) and common.last_seg(y[3]) == "from_dec_str" and y not in fdecs:
                fdecs.append(y)
    whole_muls = [v for v in muls if v[4][1] == SCALE_ITEM]
    if len(whole_muls) < 1 or len(fdecs) < 2:
        t1.fail("C18.T1:parser-whole", pars.path, pars.span, "parser does not compute whole * DECIMAL_FRACTIONAL from from_dec_str parts")
    else:
        t1.site("FromStr: whole * SCALE (+ fraction), parts via U256::from_dec_str (radix 10)")
    # results: exactly the two Ok shapes
    for (b, cls, v) in inl_exits:
        if cls == "ok":
            val = v[3][0][1]
            inner = val[3][0][1] if val[0] == "agg" else val
            okv = False
            if inner[0] == "call" and common.last_seg(inner[3]) == "mul" and inner in whole_muls:
                okv = True
            if inner[0] == "call" and common.last_seg(inner[3]) == "add" and "U256" in inner[3]:
                parts = list(inner[4])
                def unwrap(x):
                    while x[0] == "proj" or (x[0] == "agg" and x[1] == "adt" and len(x[3]) == 1 and re.search(r"(Continue|Ok)$", str(x[2]))):
                        x = x[1] if x[0] == "proj" else x[3][0][1]
                    return x
                parts = [unwrap(p_) for p_ in parts]
                if any(p_ in whole_muls for p_ in parts) and any(p_[0] == "call" and common.last_seg(p_[3]) == "mul" and pows and
                                                                 (p_[4][1] == pows[0] or (p_[4][1][0] == "call" and isinstance(p_[4][1][3], str) and common.last_seg(p_[4][1][3]) == "pow" and len(pows) == 1))
                                                                 for p_ in parts):
                    okv = True
            if not okv:
                t1.fail("C18.T1:parser-value", pars.path, common.span_of_block_term(pars, b), "parser returns %s, expected whole*SCALE or whole*SCALE + fraction*10^(18-len)" % ctx.show(inner, 4)[:200])
    # ---- T2 serde ----------------------------------------------------------------------------------------------
    for ty, parse_callee in ((DEC, "from_str"), (U, "from_dec_str")):
        ser = trait_fn(P, ty, "Serialize", "serialize")
        short = ty.split("::")[-1]
        if ser is None:
            t2.fail("C18.T2:ser-anchor:%s" % short, "-", "-", "anchor-missing: Serialize for %s" % short)
        else:
            ex = common.exit_sites(P, ser)
            okser = False
            if len(ex) == 1 and ex[0][3][0] == "call" and common.last_seg(ex[0][3][3]) == "serialize_str":
                arg = ex[0][3][4][1]
                ts = [y for y in common.walk(arg) if y[0] == "call" and isinstance(y[3], str) and common.last_seg(y[3]) == "to_string"]
                if len(ts) == 1 and set(ctx.roots(ts[0][4][0])) == {P_(ser, 0)} and set(ctx.roots(arg)) == {P_(ser, 0)}:
                    okser = True
            if okser:
                t2.site("%s: Serialize = serialize_str(self.to_string())" % short)
            else:
                t2.fail("C18.T2:serialize:%s" % short, ser.path, ser.span, "Serialize does not write exactly self.to_string()")
        # the visitor is the type Deserialize hands to deserialize_str (role, not name)
        de = trait_fn(P, ty, "Deserialize<'de>", "deserialize") or trait_fn(P, ty, "Deserialize", "deserialize")
        vis_ty = None
        if de is not None:
            ex = common.exit_sites(P, de)
            if len(ex) == 1 and ex[0][3][0] == "call" and common.last_seg(ex[0][3][3]) == "deserialize_str" and len(ex[0][3][4]) == 2:
                va = ex[0][3][4][1]
                if va[0] == "agg" and va[1] == "adt" and str(va[2]).startswith("bignumber::"):
                    vis_ty = va[2]
        if vis_ty is None:
            t2.fail("C18.T2:deserialize:%s" % short, de.path if de else "-", de.span if de else "-", "Deserialize does not delegate to deserialize_str with the type's visitor")
            continue
        t2.site("%s: Deserialize = deserialize_str(%s)" % (short, vis_ty.split("::")[-1]))
        vis = [f for f in P.fns.values() if f.crate == "bignumber" and f.name == "visit_str" and f.impl_self == vis_ty and f.body is not None]
        if len(vis) != 1:
            t2.fail("C18.T2:visitor-anchor:%s" % short, "-", "-", "anchor-missing: %s::visit_str" % vis_ty)
            continue
        vf = vis[0]
        parses = [(b, v) for b, v in calls_named(P, vf, parse_callee)]
        if not parses and ty == U:
            # the visitor may go through the type's own verified text parser (`Uint256::parse_dec(v)`)
            wr = uint_text_wrappers(ctx)
            parses = [(b, P.val_call(vf, vf.body, b)) for b, p, fr, t in P.calls(vf) if p and ((P.fn(p) or P.fn(generic_path(p))) is not None and (P.fn(p) or P.fn(generic_path(p))).path in wr)]
            if len(parses) == 1:
                parse_callee = common.last_seg(parses[0][1][3])
        if len(parses) != 1 or set(ctx.roots(parses[0][1][4][0])) != {P_(vf, 1)}:
            t2.fail("C18.T2:visitor-parse:%s" % short, vf.path, vf.span, "visitor does not parse its input with %s" % parse_callee)
            continue
        pv = parses[0][1]
        PR = "C:%s@%s:bb%d" % (generic_path(pv[3]), vf.path, pv[2])
        good = True
        exits_v = common.exit_sites(P, vf)
        if len(exits_v) == 1 and isinstance(exits_v[0][2], tuple) and exits_v[0][2][0] == "forward":
            # combinator form: parse(v).map(Ctor).map_err(..) returned as is — Ok exactly when the parser returned Ok, with that value
            x = exits_v[0][3]
            okc = not lemmas.cond_strings(ctx, common.control_conditions(P, vf, exits_v[0][0]))
            while okc and x[0] == "call" and isinstance(x[3], str) and common.last_seg(x[3]) in ("map_err", "map") and "result::Result" in x[3]:
                if common.last_seg(x[3]) == "map":
                    fn_arg = x[4][1]
                    okc = fn_arg[0] == "const" and fn_arg[1] == "fn" and fn_arg[2] == ty      # the tuple constructor of the type itself
                x = x[4][0]
            if okc and x == pv:
                t2.site("%sVisitor::visit_str == %s(v)[.map(%s)].map_err(..) (Ok => that value, Err => error; no other condition)" % (short, parse_callee, short))
            else:
                t2.fail("C18.T2:visitor-chain:%s" % short, vf.path, vf.span, "visitor forwards %s, which is not the parser's result mapped only by the type's constructor / map_err: unrecognised-idiom" % ctx.show(exits_v[0][3], 4)[:200])
            exits_v = []
            good = False
        for (b, i, cls, v) in exits_v:
            cs_ = lemmas.cond_strings(ctx, common.control_conditions(P, vf, b))
            want = {"discr(%s) in ['%s']" % (PR, "Ok" if cls == "ok" else "Err")}
            if cs_ != want:
                good = False
                t2.fail("C18.T2:visitor-condition:%s:%s" % (short, cls), vf.path, common.span_of_block_term(vf, b),
                        "visitor returns %s under {%s}; expected exactly {parser returned %s}: the JSON path would accept a different set of strings than the direct parser" % (
                            cls, "; ".join(sorted(cs_)), "Ok" if cls == "ok" else "Err"))
            if cls == "ok":
                rs = set(ctx.roots(v, (("v", "Ok"), ("f", 0))))
                rs2 = set(ctx.roots(v, (("v", "Ok"), ("f", 0), ("f", 0))))
                if not (rs == {PR + "~Ok.0"} or rs == {PR} or rs2 == {PR} or any(PR in r for r in rs)):
                    good = False
                    t2.fail("C18.T2:visitor-value:%s" % short, vf.path, common.span_of_block_term(vf, b), "visitor returns %s, expected the parsed value" % sorted(rs))
        if good:
            t2.site("%sVisitor::visit_str == %s(v) (Ok => that value, Err => error; no other condition)" % (short, parse_callee))
    # ---- T3 ---------------------------------------------------------------------------------------------------------
    sub = type(ctx)(ctx.prop, P)
    c08.run(sub)
    for i in sub.instances:
        if i.id == "C08.R4":
            t3.sites.extend("%s: %s" % (i.id, s) for s in i.sites)
            for f in i.failures:
                t3.fail("C18.T3:%s" % f["key"], f["fn"], f["span"], "[%s] %s" % (i.id, f["reason"]))
    # ---- T4 ------------------------------------------------------------------------------------------------------------
    for target, source, via in (("bignumber::math::Decimal256", "cosmwasm_std::Decimal", "from_str"), ("cosmwasm_std::Decimal", "bignumber::math::Decimal256", "from_str")):
        f = None
        for g in P.fns.values():
            if g.crate == "bignumber" and g.body is not None and g.kind == "assoc_fn" and g.name == "from" and g.impl_self == target and ("From<%s>" % source) in (g.j.get("impl_trait_full") or ""):
                f = g
        if f is None:
            t4.fail("C18.T4:anchor:%s" % target, "-", "-", "anchor-missing: From<%s> for %s" % (source, target))
            continue
        ok = False
        for (b, i, cls, v) in common.exit_sites(P, f):
            fs = [y for y in common.walk(v) if y[0] == "call" and isinstance(y[3], str) and common.last_seg(y[3]) == "from_str"]
            ts = [y for y in common.walk(v) if y[0] == "call" and isinstance(y[3], str) and common.last_seg(y[3]) == "to_string"]
            if len(fs) == 1 and len(ts) == 1 and set(ctx.roots(ts[0][4][0])) == {P_(f, 0)} and target.split("::")[-1] in fs[0][3]:
                ok = True
        if ok:
            t4.site("From<%s> for %s = %s::from_str(&x.to_string()).unwrap()" % (source.split("::")[-1], target.split("::")[-1], target.split("::")[-1]))
        else:
            t4.fail("C18.T4:%s" % target, f.path, f.span, "conversion does not go through to_string -> from_str of the target type")
    u_parsers = set(uint_text_wrappers(ctx))
    for p_ in sorted(u_parsers):
        t4.site("%s is Uint256's text parser (from_dec_str on its input, Ok exactly then)" % p_.split("::")[-1])
    def _callee(p_, fr_):
        # `input.parse::<Uint256>()` is `<Uint256 as FromStr>::from_str(input)`
        if p_ and re.search(r"str::(<impl str>::)?parse$", p_) and U in json.dumps((fr_ or {}).get("args") or []):
            return trait_fn(P, U, "str::FromStr", "from_str")
        return (P.fn(p_) or P.fn(generic_path(p_))) if p_ else None
    # two passes: first the entry points that parse with from_dec_str themselves, then those that hand their input to one
    # of them (in either direction: try_from -> from_str or from_str -> try_from; a forwarder is never a target, so no cycle)
    entry_points = []
    for name, tr_ in (("from_str", "str::FromStr"), ("try_from", "convert::TryFrom")):
        f = trait_fn(P, U, tr_, name) or next((g for g in P.fns.values() if g.crate == "bignumber" and g.name == name and g.impl_self == U and g.body is not None and (g.impl_trait or "").endswith(tr_)), None)
        if f is None:
            continue
        parses = calls_named(P, f, "from_dec_str")
        if len(parses) == 1 and set(ctx.roots(parses[0][1][4][0])) == {P_(f, 0)}:
            if f.path not in u_parsers:
                t4.site("Uint256::%s parses with U256::from_dec_str" % name)
            u_parsers.add(f.path)
        else:
            entry_points.append((name, f, parses))
    for name, f, parses in entry_points:
        if not parses and any(p_ and _callee(p_, fr_) is not None and _callee(p_, fr_).path in u_parsers and
                                set(ctx.roots(P.val_call(f, f.body, b_)[4][0])) == {P_(f, 0)} for b_, p_, fr_, t_ in P.calls(f)) and \
                all(set(ctx.roots(v_, (("v", "Ok"), ("f", 0)))) <= {r_ for b_, p_, fr_, t_ in P.calls(f) for r_ in ctx.roots(P.val_call(f, f.body, b_), (("v", "Ok"), ("f", 0)))} | set()
                    for (b2_, i2_, cls_, v_) in common.ok_exit_blocks(P, f)):
            t4.site("Uint256::%s forwards to a verified Uint256 text parser" % name)
        else:
            t4.fail("C18.T4:uint-%s" % name, f.path, f.span, "Uint256::%s does not parse with U256::from_dec_str" % name)
    ud = trait_fn(P, U, "fmt::Display", "fmt")
    if ud is not None:
        ex = common.exit_sites(P, ud)
        shown = ctx.show(ex[0][3], 6) if ex else ""
        if "new_display" in shown and any(set(ctx.roots(y[4][0])) == {P_(ud, 0, ".0")} for y in common.walk(ex[0][3]) if y[0] == "call" and isinstance(y[3], str) and common.last_seg(y[3]) == "new_display"):
            t4.site("Uint256 Display renders the inner U256 (radix 10)")
        else:
            t4.fail("C18.T4:uint-display", ud.path, ud.span, "Uint256 Display does not render its inner U256 directly")
    ctx.assumptions.append("NOT decided: parse(render(v)) == v for all v, canonical form of the rendered numeral, the exact acceptance set of the parser (value-level); "
                           "bigint::U256 Display / from_dec_str are radix-10 inverses; cosmwasm_std::Decimal has 18 decimal places (external constant, version in trusted_base)")
