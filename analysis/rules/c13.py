"""C13 — router is a pure pass-through and delivers what it quoted (DESIGN §5 C13)."""
import re
from .. import common, roles, lemmas
from ..roles import P_, param, INFO_TY, ENV_TY, AnchorMissing
from ..mir import generic_path
from . import c07, c02

def HOP_VARIANT(ctx):
    return ctx.N.exec_enum("router") + "::ExecuteSwapOperation"


def import_instances(ctx, inst, mod, ids, prefix):
    sub = type(ctx)(ctx.prop, ctx.P)
    mod.run(sub)
    for i in sub.instances:
        if i.id in ids:
            inst.sites.extend("%s: %s" % (i.id, s) for s in i.sites)
            inst.evaluations += i.evaluations
            for f in i.failures:
                inst.fail("%s:%s" % (prefix, f["key"]), f["fn"], f["span"], "[%s] %s" % (i.id, f["reason"]))


def upvar_index(v, closure_path):
    """k if v == (closure env).k else None"""
    if v[0] == "proj" and v[1] == ("param", closure_path, 0) and v[2][0] == "f" and isinstance(v[2][1], int):
        return v[2][1]
    return None


def then_form_r2(ctx, r2, rr, hop, ops_i):
    """R2 when the hop closure is mapped over `operations.into_iter().enumerate()` and the recipient is attached with
    `(index + 1 == len).then(|| ..)` / `then_some(..)`.  Returns False when the hop's `to` is not of that form."""
    P = ctx.P
    acc = rr.acceptor
    cf, hb, hi, hv, hspan = hop
    tov = dict(hv[3]).get("to")
    is_then = tov is not None and tov[0] == "call" and isinstance(tov[3], str) and re.search(r"bool::(<impl bool>::)?then(_some)?$", generic_path(tov[3]))
    maps = [P.val_call(acc, acc.body, b) for b, p, fr, t in P.calls(acc) if p and common.last_seg(p) == "map" and "Iterator" in p]
    maps = [v for v in maps if v[4][1][0] == "agg" and v[4][1][2] == cf.path]
    ifelse_guard = None
    if not is_then:
        # `to: if index + 1 == len { Some(..) } else { None }` inside a closure mapped over `.enumerate()`
        if len(maps) != 1 or [a for a, _ in common.iter_chain(maps[0][4][0])[0]] != ["enumerate"]:
            return False
        cb_ = cf.body
        st_ = cb_.blocks[hb]["stmts"][hi]
        to_op_ = None
        for name_, op_ in zip(st_["rv"].get("fields") or [], st_["rv"]["ops"]):
            if name_ == "to":
                to_op_ = op_
        if not (to_op_ and to_op_["k"] in ("copy", "move")):
            return False
        # follow plain moves back to the local that is assigned Some(..) on one branch and None on the other
        alts_ = P.alts_with_sites(cf, (hb, hi), to_op_["place"])
        some_b = [s_[0] for s_, v_ in alts_ if s_ != "entry" and v_[0] == "agg" and str(v_[2]).endswith("Option::Some")]
        none_b = [s_[0] for s_, v_ in alts_ if s_ != "entry" and v_[0] == "agg" and str(v_[2]).endswith("Option::None")]
        if len(some_b) != 1 or len(none_b) != 1 or len(alts_) != 2:
            return False
        for g_ in common.bool_guards(P, cf):
            if cb_.edge_dominates(g_.edge(True), some_b[0]) and cb_.edge_dominates(g_.edge(False), none_b[0]):
                ifelse_guard = g_
        if ifelse_guard is None or ifelse_guard.cond[0] != "cmp" or ifelse_guard.cond[1] != "eq" or len(ifelse_guard.cond[2]) != 2:
            return False
    where = common.span_of_block_term(cf, tov[2]) if is_then else common.span_of_block_term(cf, ifelse_guard.b)
    if len(maps) != 1:
        r2.fail("C13.R2:map", acc.path, acc.span, "hop closure is not applied through a single Iterator::map: unrecognised-idiom")
        return True
    ads, kind, src = common.iter_chain(maps[0][4][0])
    if is_then and not ads and kind == "into_iter" and set(ctx.roots(src)) == {P_(acc, ops_i)}:
        return False        # `.then(..)` on a hand-kept hop counter, not on an enumerate index: the counter form decides
    if [a for a, _ in ads] != ["enumerate"] or kind != "into_iter" or set(ctx.roots(src)) != {P_(acc, ops_i)}:
        r2.fail("C13.R2:iteration", acc.path, common.span_of_block_term(acc, maps[0][2]), "hops are not generated one per operation in route order (adaptors %s)" % [a for a, _ in ads])
        return True
    r2.site("closure mapped over operations.into_iter().enumerate() without other adaptors")

    def strip(v):
        while v[0] == "cast" or (v[0] == "proj" and v[2] == ("f", 0) and v[1][0] == "binop"):
            v = v[2] if v[0] == "cast" else v[1]
        return v

    def is_index(v):
        return v == ("proj", ("param", cf.path, 1), ("f", 0))

    def is_len(v):
        rs = set(ctx.roots(v))
        if len(rs) != 1 or not list(rs)[0].startswith("C:std::vec::Vec::len@%s:" % acc.path):
            return False
        k = upvar_index(v, cf.path)
        site = P.closure_site(cf.path)
        if k is None or site is None:
            return False
        pf, sb, si, srv = site
        lv = P.val_operand(pf, (sb, si), srv["ops"][k], pf.body)
        lens = [x for x in common.walk(lv) if x[0] == "call" and isinstance(x[3], str) and generic_path(x[3]).endswith("Vec::len")]
        return len(lens) == 1 and set(ctx.roots(lens[0][4][0])) == {P_(acc, ops_i)}
    def parent_value(v):
        """a captured value, seen in the acceptor (e.g. `last_index = operations.len() - 1` computed before the closure)"""
        k = upvar_index(v, cf.path)
        site = P.closure_site(cf.path)
        if k is None or site is None:
            return None
        pf, sb, si, srv = site
        return P.val_operand(pf, (sb, si), srv["ops"][k], pf.body)

    def is_len_parent(v):
        lens = [x for x in common.walk(v) if x[0] == "call" and isinstance(x[3], str) and generic_path(x[3]).endswith("Vec::len")]
        rs = set(ctx.roots(v))
        return len(lens) == 1 and len(rs) == 1 and list(rs)[0].startswith("C:std::vec::Vec::len@%s:" % acc.path) and set(ctx.roots(lens[0][4][0])) == {P_(acc, ops_i)}
    cond = strip(tov[4][0]) if is_then else ("binop", "Eq", ifelse_guard.cond[2][0], ifelse_guard.cond[2][1])
    ok = False
    if cond[0] == "binop" and cond[1] == "Eq":
        a, b_ = strip(cond[2]), strip(cond[3])
        for x, y in ((a, b_), (b_, a)):
            # index == <captured len - 1>
            py = parent_value(y)
            if is_index(x) and py is not None:
                py = strip(py)
                if py[0] == "binop" and py[1] in ("Sub", "SubWithOverflow") and is_len_parent(strip(py[2])) and strip(py[3]) == ("const", "int", 1):
                    ok = True
            if x[0] == "binop" and x[1] in ("Add", "AddWithOverflow") and is_len(y):
                p, q = strip(x[2]), strip(x[3])
                if (is_index(p) and q == ("const", "int", 1)) or (is_index(q) and p == ("const", "int", 1)):
                    ok = True
            if is_index(x) and y[0] == "binop" and y[1] in ("Sub", "SubWithOverflow") and is_len(strip(y[2])) and strip(y[3]) == ("const", "int", 1):
                ok = True
    if not ok:
        r2.fail("C13.R2:guard-operands", cf.path, where, "the recipient is attached under %s; expected `index + 1 == operations.len()` (or `index == len - 1`) for the enumerate index" % ctx.show(cond, 4)[:200])
        return True
    r2.site("last-hop test `index + 1 == operations.len()` on the enumerate index at %s" % where)
    r2.site("compared with operations.len() of the same route")
    r2.site("`to` = Some(..) exactly when the test holds (%s), None otherwise" % ("bool::then" if is_then else "if / else"))
    # the hop message is built on every call of the closure
    conds = [c for c in common.control_conditions(P, cf, hb) if not (c["cond"][0] == "discr" and c["allowed"] in (["Continue"], ["Ok"]))]
    if conds:
        r2.fail("C13.R2:conditional-hop", cf.path, hspan.replace("!x", ""), "a hop message is skipped under some condition")
    else:
        r2.site("one hop message per operation, unconditionally")
    return True


def loop_form_r2(ctx, r2, rr, hop, ops_i):
    """R2 when the hop messages are produced by `for (i, op) in operations.into_iter().enumerate()` (possibly through a
    message-building helper): `to` is Some exactly when i + 1 == len (or i == len - 1)."""
    P = ctx.P
    acc = rr.acceptor
    body = acc.body
    hf, hb, hi, hv, hspan = hop
    # the place where the hop's `to` is decided, in the acceptor's context
    if hf.path == acc.path:
        st = body.blocks[hb]["stmts"][hi]
        to_op = [op for name, op in zip(st["rv"]["fields"], st["rv"]["ops"]) if name == "to"][0]
        site_loc = (hb, hi)
    else:
        cs = common.single_call_site(P, hf)
        to_param = None
        tv = dict(hv[3])["to"]
        if tv[0] == "param" and tv[1] == hf.path:
            to_param = tv[2]
        if cs is None or cs[0].path != acc.path or to_param is None:
            r2.fail("C13.R2:hop-site", hf.path, hspan.replace("!x", ""), "the hop message is built in %s, which is not the acceptor, its closure, or a helper called once from the acceptor with `to` as a parameter: unrecognised-idiom" % hf.path)
            return
        cb_ = cs[1]
        to_op = body.blocks[cb_]["term"]["args"][to_param]
        site_loc = (cb_, len(body.blocks[cb_]["stmts"]))
        # the helper puts its operation / to parameters into the message unchanged
        opv = dict(hv[3])["operation"]
        if not (opv[0] == "param" and opv[1] == hf.path):
            r2.fail("C13.R2:helper-operation", hf.path, hspan.replace("!x", ""), "the message helper does not forward its operation parameter")
    lps = [l for l in common.loops(P, acc) if l["is_loop"] and body.edge_dominates(l["some_edge"], site_loc[0])]
    if len(lps) != 1:
        r2.fail("C13.R2:loop", acc.path, acc.span, "the hop message is not produced inside a single loop over the operations: unrecognised-idiom")
        return
    l = lps[0]
    ads, kind, src = common.iter_chain(l["iter"])
    names = [a for a, _ in ads]
    if names not in (["enumerate"], []) or kind != "into_iter" or set(ctx.roots(src)) != {P_(acc, ops_i)}:
        r2.fail("C13.R2:iteration", acc.path, common.span_of_block_term(acc, l["next_bb"]), "hops are not generated one per operation in route order (adaptors %s over %s)" % (names, sorted(ctx.roots(src))))
        return
    r2.site("loop over operations.into_iter()%s, every element" % (".enumerate()" if names else ""))
    item = l["item_root"]
    if to_op["k"] not in ("copy", "move"):
        r2.fail("C13.R2:to-shape", acc.path, hspan.replace("!x", ""), "the hop's `to` is a constant")
        return
    alts = P.alts_with_sites(acc, site_loc, to_op["place"])
    somes = [(s, v) for s, v in alts if v[0] == "agg" and str(v[2]).endswith("Option::Some")]
    nones = [(s, v) for s, v in alts if v[0] == "agg" and str(v[2]).endswith("Option::None")]
    if len(somes) != 1 or len(nones) != 1 or len(alts) != 2:
        r2.fail("C13.R2:to-shape", acc.path, hspan.replace("!x", ""), "the hop's `to` is not `if <cond> {Some(..)} else {None}`: unrecognised-idiom")
        return
    guard = None
    for g in common.bool_guards(P, acc):
        if body.edge_dominates(g.edge(True), somes[0][0][0]) and body.edge_dominates(g.edge(False), nones[0][0][0]):
            guard = g
    if guard is None or guard.cond[0] != "cmp" or guard.cond[1] != "eq" or len(guard.cond[2]) != 2:
        r2.fail("C13.R2:guard", acc.path, hspan.replace("!x", ""), "the recipient is attached under a condition that is not a single equality test (expected: position of the hop == last position)")
        return
    where = common.span_of_block_term(acc, guard.b)

    def strip(v):
        while v[0] == "cast" or (v[0] == "proj" and v[2] == ("f", 0) and v[1][0] == "binop"):
            v = v[2] if v[0] == "cast" else v[1]
        return v

    def is_len(v):
        lens = [x for x in common.walk(v) if x[0] == "call" and isinstance(x[3], str) and generic_path(x[3]).endswith("Vec::len")]
        rs = set(ctx.roots(v))
        return len(rs) == 1 and list(rs)[0].startswith("C:std::vec::Vec::len@") and len(lens) == 1 and set(ctx.roots(lens[0][4][0])) == {P_(acc, ops_i)}

    def is_index(v):
        return set(ctx.roots(v)) == {item + ".0"}
    a, b_ = strip(guard.cond[2][0]), strip(guard.cond[2][1])
    ok = False
    for x, y in ((a, b_), (b_, a)):
        # index + 1 == len
        if x[0] == "binop" and x[1] in ("Add", "AddWithOverflow") and is_len(y):
            p, q = strip(x[2]), strip(x[3])
            if (is_index(p) and q == ("const", "int", 1)) or (is_index(q) and p == ("const", "int", 1)):
                ok = True
        # index == len - 1
        if is_index(x) and y[0] == "binop" and y[1] in ("Sub", "SubWithOverflow") and is_len(strip(y[2])) and strip(y[3]) == ("const", "int", 1):
            ok = True
    if not ok:
        r2.fail("C13.R2:guard-operands", acc.path, where, "last-hop test compares %s with %s; expected `index + 1 == operations.len()` (or `index == len - 1`) for the enumerate index of this loop" % (ctx.show(a, 4), ctx.show(b_, 4)))
        return
    r2.site("last-hop test `index + 1 == operations.len()` on the loop's enumerate index at %s" % where)
    r2.site("compared with operations.len() of the same route")
    r2.site("`to` = Some(..) on the equal edge, None otherwise")
    # the message is produced on every iteration (no condition other than `?`)
    lb = body.reachable_from(l["some_edge"][1], cut_edges=(l["none_edge"],))
    conds = [c for c in common.control_conditions(P, acc, site_loc[0]) if c["sw"] in lb and c["sw"] != l["switch"]]
    conds = [c for c in conds if not (c["cond"][0] == "discr" and c["allowed"] in (["Continue"], ["Ok"]))]
    if conds:
        r2.fail("C13.R2:conditional-hop", acc.path, common.span_of_block_term(acc, site_loc[0]), "a hop message is skipped under some condition")
    else:
        r2.site("one hop message per iteration, unconditionally")


def _run(ctx):
    P = ctx.P
    r1 = ctx.inst("C13.R1", "every hop offers the router's entire balance of the hop's offer asset (shared with C07.R4)", floor=4)
    r2 = ctx.inst("C13.R2", "only the last hop carries the recipient: `to` is Some exactly when a counter (0, +1 per hop, before the test) equals operations.len()", floor=5)
    r3 = ctx.inst("C13.R3", "intermediate proceeds return to the router: a pair pays `to` or else the swap's sender (shared with C02.R6/R8)", floor=3)
    r4 = ctx.inst("C13.R4", "route validation: empty routes and routes leaving != 1 dangling output are rejected before any message is built", floor=4)
    r5 = ctx.inst("C13.R5", "wire compatibility: the hook Swap message the router serialises for a native hop has the same shape as pair ExecuteMsg::Swap", floor=1)
    try:
        rr = roles.RouterRoles(P)
    except AnchorMissing as e:
        for r in (r1, r2, r3, r4, r5):
            r.fail("%s:anchor" % r.id, "-", "-", "anchor-missing: %s" % e)
        return
    import_instances(ctx, r1, c07, {"C07.R4"}, "C13.R1")
    import_instances(ctx, r3, c02, {"C02.R6", "C02.R8"}, "C13.R3")
    acc = rr.acceptor
    body = acc.body
    ops_i = common.param_index_of_type(acc, r"^std::vec::Vec<%s>$" % ctx.N.rx("SwapOperation"))

    # ---- R2 -------------------------------------------------------------------------------------------
    # R2 reasons about the statement that decides the hop's `to`: it needs the real construction site of the hop message
    # (inside a constructor helper, if there is one), not the site lifted into the caller
    hops = [(fn, b, i, v, span) for (fn, b, i, adt, var, v, span) in common.raw_message_sites(P, HOP_VARIANT(ctx))]
    if len(hops) == 1 and not (hops[0][0].kind == "closure" and hops[0][0].parent == acc.path):
        loop_form_r2(ctx, r2, rr, hops[0], ops_i)
    elif len(hops) != 1:
        r2.fail("C13.R2:hop-site", acc.path, acc.span, "expected the hop message to be built at exactly one site; found %s: unrecognised-idiom" % [h[0].path for h in hops])
    elif then_form_r2(ctx, r2, rr, hops[0], ops_i):
        pass
    else:
        cf, hb, hi, hv, hspan = hops[0]
        site = P.closure_site(cf.path)
        pf, sb, si, srv = site
        cb = cf.body
        # the guard deciding Some / None
        to_op = None
        st = cb.blocks[hb]["stmts"][hi]
        for name, op in zip(st["rv"]["fields"], st["rv"]["ops"]):
            if name == "to":
                to_op = op
        defs = cb.defs().get(to_op["place"]["l"], []) if to_op and to_op["k"] in ("copy", "move") else []
        some_b = [b for (b, i, k) in defs if k == "full" and cb.blocks[b]["stmts"][i]["rv"]["k"] == "agg" and cb.blocks[b]["stmts"][i]["rv"].get("variant") == "Some"]
        none_b = [b for (b, i, k) in defs if k == "full" and cb.blocks[b]["stmts"][i]["rv"]["k"] == "agg" and cb.blocks[b]["stmts"][i]["rv"].get("variant") == "None"]
        # `to: (counter == len).then(|| recipient)`: the same choice as `if counter == len { Some(..) } else { None }`
        tov_ = dict(hv[3]).get("to")
        then_guard = None
        if tov_ is not None and tov_[0] == "call" and isinstance(tov_[3], str) and re.search(r"bool::(<impl bool>::)?then(_some)?$", generic_path(tov_[3])) and str(tov_[1]) == cf.path:
            cv0 = tov_[4][0]
            while cv0[0] == "cast":
                cv0 = cv0[2]
            if cv0[0] == "binop" and cv0[1] == "Eq":
                then_guard = common.Guard(cf, tov_[2], ("cmp", "eq", (cv0[2], cv0[3]), False, tov_[2], "prim"), None, None)
        if then_guard is None and (len(some_b) != 1 or len(none_b) != 1 or len(defs) != 2):
            r2.fail("C13.R2:to-shape", cf.path, hspan.replace("!x", ""), "the hop's `to` is not `if <cond> {Some(..)} else {None}`: unrecognised-idiom")
        else:
            guard = then_guard
            for g in (common.bool_guards(P, cf) if then_guard is None else []):
                if cb.edge_dominates(g.edge(True), some_b[0]) and cb.edge_dominates(g.edge(False), none_b[0]):
                    guard = g
            if guard is None or guard.cond[0] != "cmp" or guard.cond[1] != "eq" or len(guard.cond[2]) != 2:
                r2.fail("C13.R2:guard", cf.path, hspan.replace("!x", ""),
                        "the recipient is attached under a condition that is not a single equality test (expected hop counter == number of operations)")
            else:
                a, b_ = guard.cond[2]
                ka, kb = upvar_index(a, cf.path), upvar_index(b_, cf.path)
                where = common.span_of_block_term(cf, guard.b)
                if ka is None or kb is None:
                    r2.fail("C13.R2:guard-operands", cf.path, where, "last-hop test compares %s with %s; expected the captured counter and the captured route length" % (ctx.show(a, 3), ctx.show(b_, 3)))
                else:
                    # which one is written in the closure?
                    writes = {}
                    for bb, blk in enumerate(cb.blocks):
                        if blk["cleanup"]:
                            continue
                        for ii, s_ in enumerate(blk["stmts"]):
                            if s_["k"] == "assign" and s_["place"]["p"] and s_["place"]["p"][0]["k"] == "deref" and len(s_["place"]["p"]) == 1:
                                base = P.val_local_in(cf, cb, (bb, ii), s_["place"]["l"])
                                k = upvar_index(base, cf.path)
                                if k is not None:
                                    writes.setdefault(k, []).append((bb, ii, s_))
                    cnt, ln = (ka, kb) if ka in writes else (kb, ka)
                    if cnt not in writes or ln in writes:
                        r2.fail("C13.R2:counter", cf.path, where, "neither compared capture is a counter incremented in the closure (or both are written)")
                    else:
                        ws = writes[cnt]
                        good = len(ws) == 1
                        if good:
                            wb, wi, ws_ = ws[0]
                            val = P.val_rvalue(cf, cb, (wb, wi), ws_["rv"])
                            # (AddWithOverflow(counter, 1)).0  or Add(counter, 1)
                            inner = val
                            if inner[0] == "proj" and inner[2] == ("f", 0):
                                inner = inner[1]
                            good = inner[0] == "binop" and inner[1] in ("AddWithOverflow", "Add") and upvar_index(inner[2], cf.path) == cnt and inner[3] == ("const", "int", 1)
                            # position where the comparison reads the counter: the `Eq` statement (primitive) or the eq call's block terminator
                            cmp_b = guard.cond[4] if len(guard.cond) > 4 and isinstance(guard.cond[4], int) else guard.b
                            cmp_pos = (cmp_b, len(cb.blocks[cmp_b]["stmts"]))
                            if len(guard.cond) > 5 and guard.cond[5] == "prim":
                                js = [j for j, s2 in enumerate(cb.blocks[cmp_b]["stmts"]) if s2["k"] == "assign" and s2["rv"]["k"] == "binop" and s2["rv"].get("op") in ("Eq", "Ne")]
                                if js:
                                    cmp_pos = (cmp_b, js[-1])
                                    # the operands are temporaries: the counter is *read* where they are defined
                                    for opk in ("a", "b"):
                                        o_ = cb.blocks[cmp_b]["stmts"][js[-1]]["rv"][opk]
                                        if o_["k"] in ("copy", "move") and not o_["place"]["p"]:
                                            for site_ in cb.reaching((cmp_b, js[-1]), o_["place"]["l"]):
                                                if site_ != "entry":
                                                    good = good and cb.loc_dominates((wb, wi), (site_[0], site_[1]))
                            good = good and cb.loc_dominates((wb, wi), cmp_pos)
                        if not good:
                            r2.fail("C13.R2:increment", cf.path, where, "the hop counter is not incremented by exactly 1, once, before the last-hop test")
                        else:
                            r2.site("counter += 1 at %s precedes the test at %s" % (ws[0][2]["span"].replace("!x", "").split("/")[-1], where))
                        # parent side: counter initialised 0, not touched otherwise; length = operations.len()
                        cap = srv["ops"]
                        cnt_op, len_op = cap[cnt], cap[ln]
                        ok_parent = True
                        if cnt_op["k"] in ("copy", "move"):
                            cv_ = P.val_operand(pf, (sb, si), cnt_op, pf.body)
                            rs = set(ctx.roots(cv_))
                            consts = {r for r in rs if r.startswith("K:")}
                            muts = {r for r in rs if r.startswith("M:")}
                            if consts != {"K:0"} or len(rs - consts - muts) != 0:
                                ok_parent = False
                                r2.fail("C13.R2:counter-init", pf.path, common.span_of_block_term(pf, sb), "hop counter starts from %s, expected the constant 0" % sorted(rs))
                            # the counter local: exactly one initialisation and one &mut borrow (for this closure)
                            tl = cnt_op["place"]["l"]
                            src = None
                            for (db, di, kk) in pf.body.defs().get(tl, []):
                                if kk == "full":
                                    rv_ = pf.body.blocks[db]["stmts"][di]["rv"]
                                    if rv_["k"] == "ref" and rv_["mut"] and not rv_["place"]["p"]:
                                        src = rv_["place"]["l"]
                            kinds = [kk for (_, _, kk) in pf.body.defs().get(src, [])] if src is not None else []
                            if src is None or sorted(kinds) != ["full", "mutborrow"]:
                                ok_parent = False
                                r2.fail("C13.R2:counter-alias", pf.path, common.span_of_block_term(pf, sb),
                                        "hop counter is written or borrowed elsewhere in the acceptor (definitions: %s; expected one initialisation and the closure's borrow)" % kinds)
                        lv = P.val_operand(pf, (sb, si), len_op, pf.body)
                        lr = set(ctx.roots(lv))
                        lens = [x for x in common.walk(lv) if x[0] == "call" and isinstance(x[3], str) and generic_path(x[3]).endswith("Vec::len")]
                        if len(lr) != 1 or not list(lr)[0].startswith("C:std::vec::Vec::len@") or len(lens) != 1 or set(ctx.roots(lens[0][4][0])) != {P_(acc, ops_i)}:
                            ok_parent = False
                            r2.fail("C13.R2:length", pf.path, common.span_of_block_term(pf, sb), "the counter is compared with %s, expected operations.len()" % sorted(lr))
                        if ok_parent:
                            r2.site("counter starts at 0 and is only advanced by the hop closure")
                            r2.site("compared with operations.len() of the same route")
                        # Some carries the recipient, None otherwise
                        r2.site("`to` = Some(..) on the equal edge, None otherwise")
        # the closure is applied once per operation, in order
        maps = [(b, p) for b, p, fr, t in P.calls(acc) if p and common.last_seg(p) == "map" and "Iterator" in p]
        mv = [P.val_call(acc, body, b) for b, _ in maps]
        mv = [v for v in mv if v[4][1][0] == "agg" and v[4][1][2] == cf.path]
        if len(mv) != 1:
            r2.fail("C13.R2:map", acc.path, acc.span, "hop closure is not applied through a single Iterator::map: unrecognised-idiom")
        else:
            ads, kind, src = common.iter_chain(mv[0][4][0])
            if ads or kind != "into_iter" or set(ctx.roots(src)) != {P_(acc, ops_i)}:
                r2.fail("C13.R2:iteration", acc.path, common.span_of_block_term(acc, mv[0][2]), "hops are not generated one per operation in route order (adaptors %s)" % [a for a, _ in ads])
            else:
                r2.site("closure mapped over operations.into_iter() without adaptors")

    # ---- R4 -----------------------------------------------------------------------------------------------------
    # (a) acceptor: empty guard + validator call dominate message construction
    msg_blocks = [b for (b, d) in roles.sink_blocks(P, acc)]
    empties = []
    for g in common.bool_guards(P, acc):
        c = g.cond
        if c[0] == "cmp" and c[1] in ("eq", "ne") and len(c[2]) == 2:
            def is_len_(x):
                while x[0] == "cast":
                    x = x[2]
                return x[0] == "call" and isinstance(x[3], str) and common.last_seg(x[3]) == "len" and set(ctx.roots(x[4][0])) == {P_(acc, ops_i)}
            a_, b_ = c[2]
            if (is_len_(a_) and b_ == ("const", "int", 0)) or (is_len_(b_) and a_ == ("const", "int", 0)):
                empties.append((g, c[1] == "eq"))
        elif c[0] == "cmp" and c[1] == "is_empty" and set(ctx.roots(c[2][0])) == {P_(acc, ops_i)}:
            empties.append((g, True))
    if not empties:
        # `let Some(last) = operations.last() else { return Err(..) }`: an empty route has no last element
        for c in [x for b_ in msg_blocks for x in common.control_conditions(P, acc, b_)]:
            cd = c["cond"]
            if cd[0] == "discr" and c["allowed"] == ["Some"] and cd[1][0] == "call" and isinstance(cd[1][3], str) and \
                    re.search(r"slice::<impl \[T\]>::(last|first)$|^(core|std)::slice::(last|first)$", generic_path(cd[1][3]) if False else cd[1][3]) and \
                    set(ctx.roots(cd[1][4][0])) == {P_(acc, ops_i)}:
                t_ = body.blocks[c["sw"]]["term"]
                some_t = [tb for v_, tb in t_["arms"] if common.variant_name(P, c["ty"], v_) == "Some"] if c.get("ty") else []
                others = [tb for tb in [tb for _, tb in t_["arms"]] + [t_["otherwise"]] if tb not in some_t and body.blocks[tb]["term"]["k"] != "unreachable"]
                if not some_t:
                    some_t = [t_["otherwise"]]
                    others = [tb for _, tb in t_["arms"] if body.blocks[tb]["term"]["k"] != "unreachable"]
                if len(others) == 1 and common.fail_edge_only_errors(P, acc, (c["sw"], others[0]), msg_blocks)[0] and \
                        all(body.edge_dominates((c["sw"], some_t[0]), b_) for b_ in msg_blocks):
                    empties = "last"
                    r4.site("operations.last() is None => Err at %s dominates %d message site(s)" % (common.span_of_block_term(acc, c["sw"]), len(msg_blocks)))
                    break
    if empties == "last":
        pass
    elif not empties:
        r4.fail("C13.R4:no-empty-guard", acc.path, acc.span, "empty routes are not rejected by the acceptor")
    else:
        g, when_true = empties[0]
        fe, pe = g.edge(when_true), g.edge(not when_true)
        ok, why = common.fail_edge_only_errors(P, acc, fe, msg_blocks)
        if not ok:
            r4.fail("C13.R4:empty-fail-edge", acc.path, common.span_of_block_term(acc, g.b), "an empty route is not rejected: %s" % why)
        for b in msg_blocks:
            if not body.edge_dominates(pe, b):
                r4.fail("C13.R4:empty-not-dominating", acc.path, common.span_of_block_term(acc, b), "a message is built without passing the empty-route check")
        if r4.status == "pass":
            r4.site("len == 0 => Err at %s dominates %d message site(s)" % (common.span_of_block_term(acc, g.b), len(msg_blocks)))
    validators = []
    for b, p, fr, t in P.calls(acc):
        if roles.is_workspace_fn(P, p):
            vf = P.fn(p) or P.fn(generic_path(p))
            if vf.sig and re.search(r"fn\(&'?\w* ?\[%s\]\) -> std::result::Result<\(\), cosmwasm_std::StdError>" % ctx.N.rx("SwapOperation"), vf.sig) \
                    and common.check_helper(P, vf) is None:      # a one-condition check helper (e.g. the empty-route test) is a guard, not the validator
                validators.append((b, vf))
    if len(validators) > 1:
        # further route checks of the same shape (hops must chain, no more than N hops, ..) only reject more routes: the
        # validator of the dangling-output rule is the one that keeps the set of produced-but-unconsumed assets
        keeps = [(b_, vf_) for b_, vf_ in validators if any(p_ and common.last_seg(p_) == "insert" and re.search(r"Hash(Map|Set)|BTree(Map|Set)", p_) for _b, p_, _fr, _t in P.calls(vf_))]
        if len(keeps) == 1:
            for b_, vf_ in validators:
                if vf_.path != keeps[0][1].path:
                    r4.site("additional route check %s (effect-free; it can only reject)" % vf_.path)
            validators = keeps
    if len(validators) != 1:
        r4.fail("C13.R4:validator-anchor", acc.path, acc.span, "anchor-missing: route validator call (fn(&[SwapOperation]) -> StdResult<()>): %d found" % len(validators))
    else:
        vb, vf = validators[0]
        vv = P.val_call(acc, body, vb)
        if set(ctx.roots(vv[4][0])) != {P_(acc, ops_i)}:
            r4.fail("C13.R4:validator-arg", acc.path, common.span_of_block_term(acc, vb), "validator is applied to %s, not to the route" % sorted(ctx.roots(vv[4][0])))
        pg = common.propagated(P, acc, vb)
        if pg is None:
            r4.fail("C13.R4:validator-dropped", acc.path, common.span_of_block_term(acc, vb), "result of the route validator is not inspected")
        else:
            s, cont, brk = pg
            ok, why = common.fail_edge_only_errors(P, acc, brk, msg_blocks)
            if not ok:
                r4.fail("C13.R4:validator-fail-edge", acc.path, common.span_of_block_term(acc, vb), "a rejected route does not abort: %s" % why)
            for b in msg_blocks:
                if not body.edge_dominates(cont, b):
                    r4.fail("C13.R4:validator-not-dominating", acc.path, common.span_of_block_term(acc, b), "a message is built without a successful route validation")
            if r4.status == "pass":
                r4.site("validator %s propagated before message construction" % vf.path)
        # (b) inside the validator
        vbody = vf.body
        lps = [l for l in common.loops(P, vf) if l["is_loop"]]
        if len(lps) != 1:
            r4.fail("C13.R4:validator-loop", vf.path, vf.span, "validator has %d loops, expected one over the operations: unrecognised-idiom" % len(lps))
        else:
            l = lps[0]
            ads, kind, src = common.iter_chain(l["iter"])
            if ads or kind not in ("iter", "into_iter") or set(ctx.roots(src)) != {P_(vf, 0)}:      # `for op in ops.iter()` / `for op in ops` over the &[T] parameter
                r4.fail("C13.R4:validator-iteration", vf.path, common.span_of_block_term(vf, l["next_bb"]), "validator does not visit every operation in order (adaptors %s)" % [a for a, _ in ads])
            rm = ins = None
            others = []
            for b, p, fr, t in P.calls(vf):
                g = generic_path(p) if p else ""
                if "HashMap" in g or "BTreeMap" in g or "HashSet" in g:
                    nm = common.last_seg(g)
                    if nm == "remove":
                        rm = (b, P.val_call(vf, vbody, b))
                    elif nm == "insert":
                        ins = (b, P.val_call(vf, vbody, b))
                    elif nm not in ("new", "keys", "len", "default", "with_capacity", "is_empty", "iter", "values"):
                        others.append((b, nm))
            item = l["item_root"]
            if rm is None or ins is None or others:
                r4.fail("C13.R4:validator-ops", vf.path, vf.span, "validator body is not `remove(offer); insert(ask)` (extra map operations: %s): unrecognised-idiom" % [n for _, n in others])
            else:
                rk, ik = set(ctx.roots(rm[1][4][1])), set(ctx.roots(ins[1][4][1]))
                if rk != {item + "~HaloSwap.offer_asset_info"}:
                    r4.fail("C13.R4:validator-remove-key", vf.path, common.span_of_block_term(vf, rm[0]), "removes key %s, expected the operation's offer asset" % sorted(rk))
                elif ik != {item + "~HaloSwap.ask_asset_info"}:
                    r4.fail("C13.R4:validator-insert-key", vf.path, common.span_of_block_term(vf, ins[0]), "inserts key %s, expected the operation's ask asset" % sorted(ik))
                elif not vbody.block_dominates(rm[0], ins[0]):
                    r4.fail("C13.R4:validator-order", vf.path, common.span_of_block_term(vf, ins[0]), "the ask asset is inserted before the offer asset is removed (a cycle back to an earlier output would be miscounted)")
                elif not (vbody.edge_dominates(l["some_edge"], rm[0]) and rm[0] not in vbody.reachable_from(l["some_edge"][1], cut_blocks=(rm[0],)) and
                          l["next_bb"] not in vbody.reachable_from(l["some_edge"][1], cut_blocks=(ins[0],))):
                    r4.fail("C13.R4:validator-conditional", vf.path, common.span_of_block_term(vf, rm[0]), "remove/insert are not executed on every iteration")
                else:
                    r4.site("per operation: remove(offer) then insert(ask), unconditionally")
            # exit test: every success exit is control-dependent on `len(dangling outputs) == 1`, tested after the loop
            # (if / early-return on `!= 1`, or `match len { 1 => Ok, _ => Err }`)
            exit_ok = False
            oks = common.ok_exit_blocks(P, vf)
            n_ok = 0
            for (ob, oi, ocls, ov) in oks:
                hit = None
                for c in common.control_conditions(P, vf, ob) + common.forwarded_check_conditions(P, vf, ob, ov):
                    cd = c["cond"]
                    if not (vbody.edge_dominates(l["none_edge"], c["sw"]) or (c["sw"] == ob and ob in vbody.reachable_from(l["none_edge"][1]))):
                        continue
                    if cd[0] == "cmp" and cd[1] in ("eq", "ne") and len(cd[2]) == 2:
                        rs = [set(ctx.roots(x)) for x in cd[2]]
                        if {"K:1"} in rs:
                            other = cd[2][0] if rs[1] == {"K:1"} else cd[2][1]
                            lens = [x for x in common.walk(other) if x[0] == "call" and isinstance(x[3], str) and common.last_seg(x[3]) == "len"]
                            if lens and c["allowed"] == [cd[1] == "eq"]:
                                hit = c
                    elif cd[0] in ("val", "discr"):
                        val = cd[1]
                        lens = [x for x in common.walk(val) if x[0] == "call" and isinstance(x[3], str) and common.last_seg(x[3]) == "len"]
                        if lens and [str(a) for a in c["allowed"]] == ["1"]:
                            hit = c
                if hit is not None:
                    n_ok += 1
            if oks and n_ok == len(oks):
                exit_ok = True
                r4.site("after the loop: len(dangling outputs) != 1 => Err (every success exit requires == 1)")
            if not exit_ok:
                r4.fail("C13.R4:validator-exit", vf.path, vf.span, "validator does not reject routes whose number of dangling output assets differs from 1")

    # ---- R5 wire compatibility ---------------------------------------------------------------------------------------
    hook = P.adts.get(ctx.N.hook_enum("pair"))
    exm = P.adts.get(ctx.N.exec_enum("pair"))
    if not hook or not exm:
        r5.fail("C13.R5:anchor", "-", "-", "anchor-missing: pair message enums")
    else:
        hs = [v for v in hook["variants"] if v["name"] == "Swap"]
        es = [v for v in exm["variants"] if v["name"] == "Swap"]
        if not hs or not es:
            r5.fail("C13.R5:variant", "haloswap::pair", hook["span"], "Swap variant missing in one of the pair message enums")
        else:
            hf = [(f["name"], f["ty"]) for f in hs[0]["fields"]]
            ef = [(f["name"], f["ty"]) for f in es[0]["fields"]]
            extra_e = [x for x in ef if x not in hf]
            # the message the router serialises (hook shape) is read by the pair as ExecuteMsg::Swap: every field sent must exist
            # with the same type; fields only the receiver knows must be optional (an absent `Option` field deserialises to None)
            if all(x in ef for x in hf) and extra_e and all(t_.startswith(("std::option::Option<", "core::option::Option<")) for _, t_ in extra_e):
                r5.site("Swap{%s} of the hook shape is accepted by ExecuteMsg::Swap (its further fields %s are optional)" % (", ".join(n for n, _ in hf), [n for n, _ in extra_e]))
            elif sorted(hf) != sorted(ef):
                r5.fail("C13.R5:shape", "haloswap::pair", hook["span"].replace("!x", ""), "Cw20HookMsg::Swap fields %s differ from ExecuteMsg::Swap fields %s: the router's native hop would not deserialize" % (hf, ef))
            else:
                r5.site("Swap{%s} identical in both enums" % ", ".join(n for n, _ in hf))
        # serde naming attributes are the same macro (cw_serde) for both: both are plain enums with derived Serialize
    ctx.assumptions.append("'receives exactly the quoted amount' additionally needs C12 (quote == execution per hop) and that the router holds none of the route's assets; the equality of the two runtime computations is not itself decided")


def run(ctx):
    from .. import compose
    from . import c11
    _run(ctx)
    r = ctx.inst("C13.R6", "the route's recipient is the caller's `to` or else the initiating user (direct: info.sender; hook: the cw20 envelope's sender) and the last hop pays that same account (shared with C11.R6, C11.R2)", floor=4)
    compose.pull(ctx, r, c11, {"C11.R6"}, "C13.R6", key_rx=r":(sender|to|hook-decode|anchor|floor)")
    compose.pull(ctx, r, c11, {"C11.R2"}, "C13.R6", key_rx=r":(receiver|hop-recipient|anchor|floor)")
    from . import c12
    r7 = ctx.inst("C13.R7", "quote == execution per hop: the pair prices a swap on the same reserves, amount and rate its simulation uses, and the router's simulation folds the per-hop quotes in route order (shared with C12.R1, C12.R3, C12.R6)", floor=6)
    compose.pull(ctx, r7, c12, {"C12.R1", "C12.R3", "C12.R6"}, "C13.R7")
    # the router's own quotes reject an empty route as execution does (a quote for a route that cannot be executed is no quote)
    r8 = ctx.inst("C13.R8", "both router simulations reject an empty route before folding (as the acceptor does)", floor=2)
    P = ctx.P
    for variant in ("SimulateSwapOperations", "ReverseSimulateSwapOperations"):
        try:
            rq = roles.entry(P, "router", "query")
            d = common.dispatch(P, rq, ctx.N.query_enum("router"))
            region = common.region_of_edge(rq.body, d[variant])
            fold = roles.arm_handler(P, rq, region, "router query arm %s" % variant)[1]
        except (AnchorMissing, KeyError, TypeError) as e:
            r8.fail("C13.R8:anchor:%s" % variant, "-", "-", "anchor-missing: %s" % e)
            continue
        ops_i = common.param_index_of_type(fold, r"^std::vec::Vec<%s>$" % ctx.N.rx("SwapOperation"))
        if ops_i is None:
            r8.fail("C13.R8:anchor:%s" % variant, fold.path, fold.span, "anchor-missing: Vec<SwapOperation> parameter")
            continue
        OPS = P_(fold, ops_i)
        found = None
        for g in common.bool_guards(P, fold):
            c = g.cond
            when_true = None
            def is_len(x):
                while x[0] == "cast":
                    x = x[2]
                return x[0] == "call" and isinstance(x[3], str) and common.last_seg(x[3]) == "len" and set(ctx.roots(x[4][0])) == {OPS}
            if c[0] == "cmp" and c[1] in ("eq", "ne") and len(c[2]) == 2:
                a_, b_ = c[2]
                if (is_len(a_) and b_ == ("const", "int", 0)) or (is_len(b_) and a_ == ("const", "int", 0)):
                    when_true = (c[1] == "eq")
            elif c[0] == "cmp" and c[1] == "is_empty" and set(ctx.roots(c[2][0])) == {OPS}:
                when_true = True
            elif c[0] == "cmp" and c[1] == "is_zero" and len(c[2]) == 1 and is_len(c[2][0]):
                when_true = True
            if when_true is None:
                continue
            fe, pe = g.edge(when_true), g.edge(not when_true)
            if common.fail_edge_only_errors(P, fold, fe)[0] and all(fold.body.edge_dominates(pe, b) for (b, i, cls, v) in common.ok_exit_blocks(P, fold)):
                found = g
        if found is None:
            # `let Some(last) = operations.last() else { return Err }` / `split_last()`: an empty route has no last element
            for (b, i, cls, v) in common.ok_exit_blocks(P, fold):
                for c in common.control_conditions(P, fold, b):
                    cd = c["cond"]
                    if cd[0] == "discr" and c["allowed"] == ["Some"] and cd[1][0] == "call" and isinstance(cd[1][3], str) and \
                            re.search(r"(last|first|split_last|split_first)$", cd[1][3]) and set(ctx.roots(cd[1][4][0])) == {OPS}:
                        found = c
        if found is None:
            r8.fail("C13.R8:no-empty-guard:%s" % variant, fold.path, fold.span, "%s answers a quote for an empty route (execution rejects it)" % fold.path)
        else:
            r8.site("%s: empty route => Err before any success exit" % fold.path)
