#!/usr/bin/env python3
"""Apply each seeded change to /repo, run the registered quick checks, undo it, and record which checks fire.
usage: run_seeded.py [ids...]  (default: all under /verif/seeded)"""
import json, os, subprocess, sys
V = os.path.dirname(os.path.dirname(os.path.abspath(__file__)))
REPO = os.environ.get("HALO_REPO", "/repo")       # a scratch worktree (with HALO_CACHE) lets several corpus runs go in parallel
ids = sys.argv[1:] or sorted(os.listdir(os.path.join(V, "seeded")))
man = json.load(open(os.path.join(V, "MANIFEST.json")))
checks = [c["property_id"] for c in man["checks"]]
if os.environ.get("HALO_CHECKS"):
    checks = os.environ["HALO_CHECKS"].split(",")      # partial run while iterating on one rule (results are then partial too)
st = subprocess.run("git -C %s " % REPO + "status --porcelain --untracked-files=no", shell=True, stdout=subprocess.PIPE, text=True).stdout.strip()
if st:
    raise SystemExit("/repo has local modifications; refusing:\n" + st)
summary = {}
for sid in ids:
    d = os.path.join(V, "seeded", sid)
    patch = os.path.join(d, "patch.diff")
    if not os.path.exists(patch):
        continue
    meta = json.load(open(os.path.join(d, "meta.json")))
    rc = subprocess.run("git -C %s " % REPO + "apply %s" % patch, shell=True).returncode
    if rc != 0:
        print(sid, "PATCH DOES NOT APPLY"); continue
    fired = {}
    try:
        code = "import json,sys; sys.path.insert(0,%r); from analysis import engine; print('@@'+json.dumps(engine.evaluate_dry(%r)))" % (V, checks)
        p = subprocess.run([sys.executable, "-c", code], cwd=V, stdout=subprocess.PIPE, stderr=subprocess.STDOUT, text=True)
        line = [l for l in p.stdout.splitlines() if l.startswith("@@")]
        if not line:
            fired = {"BUILD": [p.stdout[-400:]]}
        else:
            res = json.loads(line[0][2:])
            for c, vs in res.items():
                if vs:
                    fired[c] = ["%s at %s: %s" % (v["instance"], v["at"], v["reason"][:160]) for v in vs[:4]]
    finally:
        subprocess.run("git -C %s " % REPO + "checkout -- . && git -C %s clean -fdq -e target" % REPO, shell=True)
    meta["detected_by"] = sorted(fired)
    meta["detection_detail"] = fired
    json.dump(meta, open(os.path.join(d, "meta.json"), "w"), indent=1)
    own = meta["property"] in fired
    # a change seeded for property X that, read strictly, breaks property Y and not X (judged by hand, reason recorded in
    # meta["reclassified"]): detection is then expected from Y, and X must stay silent only if X really holds
    recl = meta.get("reclassified")
    if not own and recl and any(c in fired for c in recl["properties"]):
        summary[sid] = (True, sorted(fired))
        print("%-10s seeded-for(%s) DETECTED via %s (reclassified: %s)   fired: %s" % (sid, meta["property"], [c for c in recl["properties"] if c in fired], recl["reason"][:80], sorted(fired)))
        continue
    summary[sid] = (own, sorted(fired))
    print("%-10s own-property(%s) %s   fired: %s" % (sid, meta["property"], "DETECTED" if own else ("missed" if meta["property"] in checks else "n/a-yet"), sorted(fired)))
