"""C19 — pair listing pagination is complete and duplicate-free (DESIGN §5 C19)."""
import re
from .. import common, roles, lemmas
from ..roles import P_, AnchorMissing
from ..mir import generic_path
from . import c16



def page_reader(ctx):
    """The function that scans the registry from a caller-supplied cursor: a PAIRS.range whose lower bound derives from one
    of the function's parameters (the whole-registry walk passes a literal None)."""
    P = ctx.P
    readers = []
    for f in P.prod_fns():
        if f.kind == "closure":
            continue
        for b, p, fr_, t in P.calls(f):
            if p and re.search(r"Map::range(_raw)?$", generic_path(p)):
                v = P.val_call(f, f.body, b)
                if "|".join(sorted(ctx.roots(v[4][0]))) != ctx.N.PAIRS:
                    continue
                lo = common.inline_helpers(P, v[4][2])
                from_param = any(x[0] == "param" and x[1] == f.path for x in common.walk(lo))
                if from_param:
                    readers.append((f, b, v))
    return readers


def run(ctx):
    P = ctx.P
    r1 = ctx.inst("C19.R1", "page size: take(n) with n = min(limit or DEFAULT_LIMIT(10), MAX_LIMIT(30)) applied directly to the scan", floor=3)
    r2 = ctx.inst("C19.R2", "cursor/key agreement: the cursor is the registry key function applied to the cursor's two assets, plus a constant suffix", floor=2)
    r3 = ctx.inst("C19.R3", "scan shape: PAIRS.range(start, None, Ascending) with an exclusive start bound (or inclusive with a non-empty suffix)", floor=3)
    r4 = ctx.inst("C19.R4", "the Pairs query forwards start_after (converted element-wise to raw) and limit unchanged to the page reader", floor=3)
    rd = page_reader(ctx)
    if len(rd) != 1:
        for r in (r1, r2, r3, r4):
            r.fail("%s:anchor" % r.id, "-", "-", "anchor-missing: page reader (a PAIRS.range with a start bound): %d found" % len(rd))
        return
    f, rb, rv = rd[0]
    body = f.body
    lim_i = common.param_index_of_type(f, r"^std::option::Option<u32>$")
    cur_i = common.param_index_of_type(f, r"^std::option::Option<\[%s; 2\]>$" % ctx.N.rx("AssetInfoRaw"))
    if lim_i is None or cur_i is None:
        r1.fail("C19.R1:anchor", f.path, f.span, "anchor-missing: page reader parameters (Option<u32> limit, Option<[AssetInfoRaw;2]> cursor)")
        return
    # ---- R1 -----------------------------------------------------------------------------------------
    oks = [x for x in common.exit_sites(P, f) if x[2] != "err"]
    ret = oks[0][3] if len(oks) == 1 else None
    chain = None
    if ret is not None and ret[0] == "call" and common.last_seg(ret[3]) == "collect":
        chain = common.iter_chain(ret[4][0])
    elif ret is not None:
        # a vector filled by one push per iteration of a loop over the scan == collect() of that loop's iterator
        from . import c17
        inner = ret
        if inner[0] == "agg" and str(inner[2]).endswith("Result::Ok"):
            inner = inner[3][0][1]
        ads_, source_, helpers_ = c17.collection_chain(ctx, inner)
        if source_[0] == "scan":
            chain = (ads_, "range", source_[1])
    if chain is None:
        r1.fail("C19.R1:shape", f.path, f.span, "page reader does not return a collected iterator chain: unrecognised-idiom")
        return
    ads, kind, src = chain
    names = [a for a, _ in ads]
    if src != rv:
        r1.fail("C19.R1:source", f.path, f.span, "the returned page is not collected from the bounded PAIRS scan: unrecognised-idiom")
    takes = [(a, av) for a, av in ads if a == "take"]
    others = [a for a in names if a not in ("take", "map")]
    if others:
        r1.fail("C19.R1:adaptors:%s" % ",".join(others), f.path, common.span_of_block_term(f, rb), "the page applies %s between the scan and the result: entries can be dropped or repeated" % others)
    if len(takes) != 1:
        r1.fail("C19.R1:take-count", f.path, common.span_of_block_term(f, rb), "expected exactly one take(n) on the scan, found %d" % len(takes))
    else:
        n = takes[0][1][4][1]
        while n[0] == "cast":
            n = n[2]
        ok = False
        if n[0] == "call" and isinstance(n[3], str) and re.search(r"cmp::Ord>?::min$", generic_path(n[3])) and len(n[4]) == 2:
            a, b_ = n[4]
            ra, rb_ = "|".join(sorted(ctx.roots(a))), "|".join(sorted(ctx.roots(b_)))
            pair = sorted([ra, rb_])
            want = sorted(["or(%s;K:10)" % P_(f, lim_i), "K:30"])
            if pair == want:
                ok = True
                r1.site("n ⊢ min(limit.unwrap_or(10), 30) at %s" % common.span_of_block_term(f, n[2]))
            else:
                r1.fail("C19.R1:limit-expr", f.path, common.span_of_block_term(f, n[2]), "page size ⊢ min(%s, %s); expected min(limit.unwrap_or(10), 30)" % (ra, rb_))
                ok = None
        if ok is False and n[0] == "call" and isinstance(n[3], str) and roles.is_workspace_fn(P, n[3]) and len(n[4]) == 1 and set(ctx.roots(n[4][0])) == {P_(f, lim_i)}:
            # `page_size(limit)`: the helper's decision table must be  None -> 10 ; Some(l), l > 30 -> 30 ; Some(l), l <= 30 -> l
            hp = P.fn(n[3]) or P.fn(generic_path(n[3]))
            LP = P_(hp, 0)
            rows = []
            for (eb_, ei_, ecls_, ev_) in common.exit_sites(P, hp):
                # one row per definition of the returned local (`let n = match limit {..}; n as usize`)
                alts_ = [(eb_, ev_)]
                stl_ = hp.body.blocks[eb_]["stmts"]
                if ei_ < len(stl_) and stl_[ei_]["rv"]["k"] in ("cast", "use") and stl_[ei_]["rv"]["op"]["k"] in ("copy", "move"):
                    alts_ = [((st_[0] if st_ != "entry" else 0), av_) for st_, av_ in P.alts_with_sites(hp, (eb_, ei_), stl_[ei_]["rv"]["op"]["place"])]
                for ab_, av_ in alts_:
                    x_ = av_
                    while x_[0] == "cast":
                        x_ = x_[2]
                    rows.append(("|".join(sorted(ctx.roots(x_))), frozenset(lemmas.cond_strings(ctx, common.control_conditions(P, hp, ab_)))))
            want_rows = {
                ("K:10", frozenset({"discr(%s) in ['None']" % LP})),
                ("K:30", frozenset({"discr(%s) in ['Some']" % LP, "lt(K:30, %s)" % LP})),
                (LP, frozenset({"discr(%s) in ['Some']" % LP, "le(%s, K:30)" % LP})),
            }
            if set(rows) == want_rows and len(rows) == 3:
                ok = True
                r1.site("n ⊢ %s(limit): None -> 10; Some(l) -> 30 if l > 30 else l" % hp.path)
            else:
                r1.fail("C19.R1:limit-expr", hp.path, hp.span, "page size helper yields %s; expected None -> 10, Some(l) -> min(l, 30)" % sorted((a_, sorted(b2_)) for a_, b2_ in rows)[:6])
                ok = None
        if ok is False:
            r1.fail("C19.R1:not-clamped", f.path, common.span_of_block_term(f, takes[0][1][2]),
                    "page size ⊢ %s is not `min(limit or default, maximum)`: a caller-supplied limit is not capped at 30" % ctx.show(n, 4))
        # take applied directly on the scan (before map)
        if names and names[-1] != "take":
            r1.fail("C19.R1:take-position", f.path, common.span_of_block_term(f, rb), "take is not applied directly to the scan (chain %s)" % names)
        else:
            r1.site("chain: range -> %s -> collect" % " -> ".join(reversed(names)))
    if r1.status == "pass":
        r1.site("the default and the cap are the evaluated constants 10 and 30 (whatever they are called)")

    # ---- R3 scan shape ----------------------------------------------------------------------------------
    lo, hi, order = rv[4][2], rv[4][3], rv[4][4]
    if "None" not in "|".join(sorted(ctx.roots(hi))):
        r3.fail("C19.R3:upper-bound", f.path, common.span_of_block_term(f, rb), "the scan has an upper bound: the walk would end early")
    else:
        r3.site("upper bound None")
    if "Order::Ascending" not in "|".join(sorted(ctx.roots(order))):
        r3.fail("C19.R3:order", f.path, common.span_of_block_term(f, rb), "the scan is not ascending while the cursor is a lower bound")
    else:
        r3.site("Order::Ascending")
    kind_b = None
    cursor_v = None
    if lo[0] == "call" and isinstance(lo[3], str) and generic_path(lo[3]).endswith("Option::map") and lo[4][1][0] == "const" and lo[4][1][1] == "fn":
        ctor = lo[4][1][2]
        if ctor.endswith("Bound::ExclusiveRaw") or ctor.endswith("Bound::Exclusive"):
            kind_b = "exclusive"
        elif ctor.endswith("Bound::InclusiveRaw") or ctor.endswith("Bound::Inclusive"):
            kind_b = "inclusive"
        cursor_v = lo[4][0]
    bound_in_helper = False
    if kind_b is None and lo[0] == "call" and isinstance(lo[3], str) and roles.is_workspace_fn(P, lo[3]):
        # the helper builds the Option<Bound> itself: `match cursor { Some(a) => Some(Bound::ExclusiveRaw(key(a) ++ suffix)), None => None }`
        cursor_v = lo
        bound_in_helper = True
    elif kind_b is None and lo[0] == "call" and isinstance(lo[3], str) and generic_path(lo[3]).endswith("Option::map") and lo[4][1][0] == "agg" and lo[4][1][1] == "closure":
        # `cursor.map(|a| { let mut v = key(&a); v.push(1); Bound::ExclusiveRaw(v) })`: the closure builds the bound itself
        cursor_v = lo
        bound_in_helper = True
    elif kind_b is None and lo[0] == "phi" and all(a_[0] == "agg" and re.search(r"Option::(Some|None)$", str(a_[2])) for a_ in lo[1]):
        # `match start_after { Some(a) => Some(Bound::ExclusiveRaw(cursor(a))), None => None }` written in the reader itself
        cursor_v = lo
        bound_in_helper = True
    elif kind_b is None:
        r3.fail("C19.R3:bound-kind", f.path, common.span_of_block_term(f, rb), "start bound is not `cursor.map(Bound::ExclusiveRaw | InclusiveRaw)`: unrecognised-idiom (%s)" % ctx.show(lo, 3))

    # ---- R2 cursor ---------------------------------------------------------------------------------------------
    kf = c16.key_function(ctx, r2)
    suffix = None
    if cursor_v is not None and kf is not None:
        # follow: helper(cursor param) -> Option::map(param, closure) -> closure returns key(param) (+ pushes)
        ads2 = []
        v = cursor_v
        helper = None
        if v[0] == "call" and isinstance(v[3], str) and roles.is_workspace_fn(P, v[3]):
            helper = P.fn(v[3]) or P.fn(generic_path(v[3]))
            if set(ctx.roots(v[4][0])) != {P_(f, cur_i)}:
                r2.fail("C19.R2:cursor-arg", f.path, common.span_of_block_term(f, v[2]), "cursor helper is applied to %s, not to the start_after parameter" % sorted(ctx.roots(v[4][0])))
            ex = [x for x in common.exit_sites(P, helper)]
            from ..mir import phi as _phi
            v = _phi([x[3] for x in ex]) if ex else None
            base_param = P_(helper, 0)
        else:
            base_param = P_(f, cur_i)
        clo = None
        val = None
        arg_want = None
        ctxfn = None
        if v is not None and v[0] == "call" and isinstance(v[3], str) and generic_path(v[3]).endswith("Option::map") and set(ctx.roots(v[4][0])) == {base_param}:
            cv = v[4][1]
            if cv[0] == "agg" and cv[1] == "closure":
                clo = P.fn(cv[2])
                ex = common.exit_sites(P, clo)
                val = ex[0][3] if len(ex) == 1 else None
                arg_want = P_(clo, 1)
                ctxfn = clo
        elif v is not None:
            # match start_after { Some(a) => Some(cursor(a)), None => None }
            alts = list(v[1]) if v[0] == "phi" else [v]
            somes = [a for a in alts if a[0] == "agg" and str(a[2]).endswith("Option::Some")]
            nones = [a for a in alts if a[0] == "agg" and str(a[2]).endswith("Option::None")]
            if len(somes) == 1 and len(somes) + len(nones) == len(alts):
                val = somes[0][3][0][1]
                arg_want = base_param
                ctxfn = helper or f
                clo = ctxfn
        if bound_in_helper and val is not None:
            if val[0] == "agg" and re.search(r"Bound::(ExclusiveRaw|Exclusive|InclusiveRaw|Inclusive)$", str(val[2])) and len(val[3]) == 1:
                kind_b = "exclusive" if "Exclusive" in str(val[2]) else "inclusive"
                val = val[3][0][1]
            else:
                r3.fail("C19.R3:bound-kind", f.path, common.span_of_block_term(f, rb), "start bound is not an Exclusive / Inclusive raw bound built from the cursor: unrecognised-idiom (%s)" % ctx.show(val, 3))
                val = None
        if val is None:
            r2.fail("C19.R2:shape", f.path, f.span, "cursor is not computed as start_after.map(|assets| ...) / match start_after { Some(a) => Some(..), None => None }: unrecognised-idiom")
        else:
            if val[0] == "call" and isinstance(val[3], str) and generic_path(val[3]) != kf.path and roles.is_workspace_fn(P, val[3]) and len(val[4]) == 1 \
                    and set(ctx.roots(val[4][0])) == {arg_want}:
                # `key_after(assets)`: a helper that extends the key — its body is judged in place of the call
                h2 = P.fn(val[3]) or P.fn(generic_path(val[3]))
                ex2 = common.exit_sites(P, h2) if h2 is not None and h2.body is not None else []
                if len(ex2) == 1:
                    val, arg_want, clo = ex2[0][3], P_(h2, 0), h2
            muts = []
            while val is not None and val[0] == "mut":
                muts.append((val[3], val[4]))
                val = val[1]
            if val is None or not (val[0] == "call" and isinstance(val[3], str) and generic_path(val[3]) == kf.path and set(ctx.roots(val[4][0])) == {arg_want}):
                r2.fail("C19.R2:not-key-fn", clo.path, clo.span,
                        "the cursor bytes are %s, not the registry key function applied to the cursor's assets: cursor order and registry order can disagree" % (ctx.show(val, 3) if val else "?"))
            else:
                r2.site("cursor ⊢ %s(start_after assets)" % kf.path)
                suffix = []
                for (mb, mi) in muts:
                    cons = common.borrow_consumer(P, clo, mb, mi)
                    if cons and generic_path(cons[1] or "").endswith("Vec::push"):
                        pv = P.val_call(clo, clo.body, cons[0])
                        a = pv[4][1]
                        if a[0] == "const" and a[1] == "int":
                            suffix.append(a[2])
                            continue
                    suffix = None
                    r2.fail("C19.R2:cursor-mutation", clo.path, common.span_of_block_term(clo, mb),
                            "the cursor key is modified by %s; only appending constant bytes keeps it aligned with the registry order" % (cons[1] if cons else "an unknown operation"))
                    break
                if suffix is not None:
                    r2.site("constant suffix %s appended" % suffix)
    # ---- R3 continued: bound kind vs suffix ------------------------------------------------------------------------------
    if kind_b and suffix is not None:
        if kind_b == "inclusive" and not suffix:
            r3.fail("C19.R3:inclusive-empty", f.path, common.span_of_block_term(f, rb), "inclusive start bound at the cursor key itself: the last pair of a page is returned again on the next page")
        elif suffix and suffix[0] > 1:
            # the next page starts after K ++ suffix: every registered key K ++ b.. with b <= suffix[0] is skipped.  Only the
            # bytes 0x00 / 0x01 are known not to continue an identifier (printable denoms, equal-length canonical addresses)
            r3.fail("C19.R3:suffix-skips", f.path, common.span_of_block_term(f, rb),
                    "the cursor is the last key followed by byte 0x%02x: a pair whose key extends the cursor's key with a byte <= 0x%02x (e.g. denom `x/1` then `x/10`) is skipped by the next page" % (suffix[0], suffix[0]))
        else:
            r3.site("%s start bound with suffix %s" % (kind_b, suffix))
    elif kind_b and r2.status == "pass":
        r3.fail("C19.R3:suffix-unknown", f.path, common.span_of_block_term(f, rb), "cannot classify the cursor suffix")

    # ---- R4 query wiring ------------------------------------------------------------------------------------------------------
    try:
        fr = roles.FactoryRoles(P)
        q = fr.query
        d = common.dispatch(P, q, ctx.N.query_enum("factory"))
        if d is None or "Pairs" not in d:
            raise AnchorMissing("no Pairs arm in the factory query dispatch")
        region = common.region_of_edge(q.body, d["Pairs"])
        qb, qp = roles.arm_handler(P, q, region, "Pairs arm")
        msg_i = common.param_index_of_type(q, "^%s$" % re.escape(ctx.N.query_enum("factory")))
        qv = P.val_call(q, q.body, qb)
        sa_i = common.param_index_of_type(qp, r"^std::option::Option<\[%s; 2\]>$" % ctx.N.rx("AssetInfo"))
        l_i = common.param_index_of_type(qp, r"^std::option::Option<u32>$")
        if set(ctx.roots(qv[4][sa_i])) != {P_(q, msg_i, "~Pairs.start_after")} or set(ctx.roots(qv[4][l_i])) != {P_(q, msg_i, "~Pairs.limit")}:
            r4.fail("C19.R4:query-args", q.path, common.span_of_block_term(q, qb), "Pairs arm passes start_after ⊢ %s, limit ⊢ %s" % (sorted(ctx.roots(qv[4][sa_i])), sorted(ctx.roots(qv[4][l_i]))))
        else:
            r4.site("query arm: start_after / limit ⊢ message fields")
        calls = [b for b, p, fr_, t in P.calls(qp) if p and generic_path(p) == f.path]
        if len(calls) != 1:
            r4.fail("C19.R4:reader-call", qp.path, qp.span, "query handler calls the page reader %d times" % len(calls))
        else:
            cv = P.val_call(qp, qp.body, calls[0])
            lr = set(ctx.roots(cv[4][lim_i]))
            if lr != {P_(qp, l_i)}:
                r4.fail("C19.R4:limit", qp.path, common.span_of_block_term(qp, calls[0]), "page reader receives limit ⊢ %s, expected the query's limit unchanged" % sorted(lr))
            else:
                r4.site("limit forwarded unchanged")
            curv = common.inline_helpers(P, common.unfold_combinators(P, cv[4][cur_i]))      # a private `[to_raw(a), to_raw(b)]` helper is its body
            cr = "|".join(sorted(ctx.roots(curv)))
            sa = P_(qp, sa_i)
            want1 = "A:std::option::Option::None{}|A:std::option::Option::Some{0=A:array[C:%s@" % ctx.N.cpath("info_to_raw")
            trs = [x for x in common.walk(curv) if x[0] == "call" and ctx.N.is_fn(x[3], "info_to_raw")]
            srcs = sorted("|".join(sorted(ctx.roots(x[4][0]))) for x in trs)
            if cr.startswith(want1) and srcs == [sa + "[0]", sa + "[1]"]:
                r4.site("cursor ⊢ start_after.map(|a| [to_raw(a[0]), to_raw(a[1])])")
            elif cr == sa:
                r4.site("cursor forwarded unchanged")
            else:
                r4.fail("C19.R4:cursor", qp.path, common.span_of_block_term(qp, calls[0]), "page reader receives cursor ⊢ %s" % cr[:300])
    except AnchorMissing as e:
        r4.fail("C19.R4:anchor", "-", "-", "anchor-missing: %s" % e)
    ctx.assumptions.append("with the appended suffix byte the exclusive bound also skips keys of the form K||0x00.. / K||0x01; such keys do not occur for printable denoms and equal-length canonical addresses (stated, not checked)")
    ctx.assumptions.append("cw-storage-plus: Map::range yields keys in ascending byte order from the (exclusive) raw bound; the registry key function is injective (C16.R3)")
