"""C04 — withdrawal pays the pro-rata share: never more, at most dust less (DESIGN §5 C04)."""
import re
from .. import common, roles, lemmas, numeric, eround
from ..eround import RF, Translator, Unsupported, D18
from ..roles import P_, param, INFO_TY, ENV_TY, AnchorMissing
from ..mir import generic_path, proj
from . import c14

def LP(ctx):
    return "human(load(%s).liquidity_token)" % ctx.N.PAIR_INFO


class Withdraw:
    """The refund computation of the withdraw handler, translated: X_k over r_k (reserve), a (burned), S (supply)."""

    def __init__(self, ctx):
        P = ctx.P
        self.pr = roles.PairRoles(P)
        self.w = w = self.pr.withdraw_handler
        self.tc = lemmas.transfer_ctor(P)
        self.amount_i = common.param_index_of_type(w, r"^cosmwasm_std::\S*Uint128$")
        self.sender_i = common.param_index_of_type(w, r"^cosmwasm_std::\S*Addr$")
        if self.amount_i is None or self.sender_i is None:
            raise AnchorMissing("withdraw handler parameters (Uint128 amount, Addr sender)")
        self.pays = self.pr.calls_to(w, self.tc)
        self.T = Translator(P)
        self.a, self.S = self.T.var("a"), self.T.var("S")
        self.refunds = {}     # k -> (call bb, RF amount term, info roots, value)
        self.problems = []
        qp = [(b, P.val_call(w, w.body, b)) for b, p, fr, t in P.calls(w) if ctx.N.is_fn(p, "query_pools")]
        self.qp = qp
        ti = [(b, P.val_call(w, w.body, b)) for b, p, fr, t in P.calls(w) if ctx.N.is_fn(p, "q_token_info")]
        self.ti = ti
        self.pay_fn = {}      # k -> (function holding the payout call, call bb): the handler, or the closure mapped over all refunds
        work = []
        for cb in self.pays:
            cv = P.val_call(w, w.body, cb)
            me = common.mapped_element(cv[4][0])
            if me is None:
                me = self.direct_element(ctx, cv[4][0])
            if me is None:
                self.problems.append((cb, "refund asset is not element k of pools.iter().map(..).collect(): unrecognised-idiom"))
                continue
            work.append((cb, me, w))
        if not self.pays:
            # closure form: `refunds.iter().cloned().map(|asset| asset.into_msg(sender.clone())).collect::<StdResult<_>>()?`
            for pc in [g for g in P.fns.values() if g.kind == "closure" and g.parent == w.path and g.body is not None]:
                ccalls = self.pr.calls_to(pc, self.tc)
                if len(ccalls) != 1:
                    continue
                ccv = P.val_call(pc, pc.body, ccalls[0])
                exs = common.exit_sites(P, pc)
                maps = [(b, P.val_call(w, w.body, b)) for b, p, fr, t in P.calls(w) if p and common.last_seg(p) == "map" and "Iterator" in p]
                maps = [(b, v) for b, v in maps if v[4][1][0] == "agg" and v[4][1][2] == pc.path]
                if set(ctx.roots(ccv[4][0])) != {P_(pc, 1)} or len(exs) != 1 or exs[0][3] != ccv or len(maps) != 1 or common.control_conditions(P, pc, ccalls[0]):
                    self.problems.append((ccalls[0], "refund payouts are built in a closure that is not `map(|asset| pay(asset, recipient))` over the refunds: unrecognised-idiom"))
                    continue
                mb, mv = maps[0]
                ads, kind, src = common.iter_chain(mv[4][0])
                if any(a not in ("cloned", "copied") for a, _ in ads) or kind not in ("iter", "into_iter"):
                    self.problems.append((mb, "refund payouts are not mapped over every refund (adaptors %s): unrecognised-idiom" % [a for a, _ in ads]))
                    continue
                self.pays = [mb]
                while src[0] == "call" and isinstance(src[3], str) and common.transparent_arg(src[3]) == 0 and common.last_seg(src[3]) in ("deref", "as_slice", "as_ref", "borrow"):
                    src = src[4][0]        # the Vec seen as a slice
                for k in (0, 1):
                    me = common.mapped_element(("proj", src, ("i", k)))
                    if me is None:
                        self.problems.append((mb, "the refunds are not pools.iter().map(..).collect(): unrecognised-idiom"))
                        continue
                    work.append((ccalls[0], me, pc))
        for cb, me, holder in work:
            clo, k, src = me[:3]
            self.pay_fn[k] = (holder, cb)
            if clo == "direct":
                # `pools.map(|pool| Asset { .. })` on the fixed-size array: element k is already the closure's value for pools[k]
                cf, ret, item = w, me[3], me[4]
            else:
                cf = P.fn(clo[2])
                ex = common.exit_sites(P, cf)
                if len(ex) != 1:
                    self.problems.append((cb, "refund closure has %d exits" % len(ex)))
                    continue
                ret = ex[0][3]
                item = ("param", cf.path, 1)
            if ret[0] == "call":
                ret = common.inline_helpers(P, ret)        # a plain constructor (`Asset::new(info, amount)`) is its aggregate
            amt_v = proj(ret, ("f", "amount"))
            info_v = proj(ret, ("f", "info"))
            r = self.T.var("r%d" % k)
            env = {proj(item, ("f", "amount")): r, common.param_value(w, self.amount_i): self.a}
            # the total supply value
            for b, v in ti:
                env[proj(proj(proj(("call", w.path, None, None, ()), ("v", "Continue")), ("f", 0)), ("f", "total_supply"))] = self.S
            self.env_extra = env
            try:
                term = self.translate_with_supply(amt_v, env)
            except Unsupported as e:
                self.problems.append((cb, "cannot interpret the refund amount (%s): unrecognised-idiom" % e))
                continue
            info_roots = set(ctx.roots(info_v))
            self.refunds[k] = (cb, term, info_roots, cf, src, r)
            self.item_info = getattr(self, "item_info", {})
            self.item_info[k] = set(ctx.roots(proj(item, ("f", "info"))))

    def direct_element(self, ctx, v):
        """The payout asset is an aggregate computed from exactly one element pools[k] of the queried reserves (an element of
        `pools.map(|pool| ..)` on the fixed-size array, which the value graph expands): ('direct', k, pools, value, pools[k])."""
        while v[0] == "call" and isinstance(v[3], str) and common.transparent_arg(v[3]) == 0 and common.last_seg(v[3]) not in ("iter", "into_iter", "index"):
            v = v[4][0]
        if not (v[0] == "agg" and v[1] == "adt"):
            return None
        hits = set()
        for x in common.walk(v):
            if x[0] == "proj" and x[2][0] == "i" and isinstance(x[2][1], int):
                rs = set(ctx.roots(x[1]))
                if len(rs) == 1 and re.match(r"^C:%s@" % ctx.N.rx("query_pools"), list(rs)[0]):
                    hits.add((x[2][1], x[1], x))
        if len({h[0] for h in hits}) != 1:
            return None
        k, src, item = sorted(hits, key=lambda h: str(h))[0]
        return ("direct", k, src, v, item)

    def translate_with_supply(self, v, env):
        """Bind every `query_token_info(..).total_supply` value to S, then translate."""
        P = self.T.P
        env = dict(env)
        todo = [v]
        # also look through closure upvars
        seen = set()
        while todo:
            x = todo.pop()
            if id(x) in seen:
                continue
            seen.add(id(x))
            for y in common.walk(x):
                if y[0] == "proj" and y[2] == ("f", "total_supply"):
                    env[y] = self.S
                if y[0] == "proj" and y[1][0] == "param" and y[1][2] == 0 and y[2][0] == "f" and isinstance(y[2][1], int):
                    cf = P.fn(y[1][1])
                    if cf is not None and cf.kind == "closure":
                        site = P.closure_site(cf.path)
                        if site:
                            pf, b, i, rv = site
                            if y[2][1] < len(rv["ops"]):
                                todo.append(P.val_operand(pf, (b, i), rv["ops"][y[2][1]], pf.body))
        return self.T.tr(v, env)


def _run(ctx):
    P = ctx.P
    n1 = ctx.inst("C04.N1", "refund x_i <= r_i*a/S for all reserves, supplies, burn amounts (E-ROUND)", floor=2)
    n2 = ctx.inst("C04.N2", "refund x_i >= r_i*a/S - r_i/10^18 - 1", floor=2)
    r1 = ctx.inst("C04.R1", "r_i = the pair's own balances now, S = LP token's total supply now, a = the hook amount", floor=4)
    r2 = ctx.inst("C04.R2", "exactly one Burn, of the hook amount, addressed to the LP token", floor=1)
    r3 = ctx.inst("C04.R3", "the two refunds cover both pool assets, go to the hook's sender through the transfer constructor (plain transfers only)", floor=4)
    r4 = ctx.inst("C04.R4", "the withdraw handler is reachable only through the LP-token-only guard (shared with C14.R7)", floor=1)
    try:
        wd = Withdraw(ctx)
    except (AnchorMissing, Unsupported) as e:
        for r in (n1, n2, r1, r2, r3, r4):
            r.fail("%s:anchor" % r.id, "-", "-", "anchor-missing: %s" % e)
        return
    w, T = wd.w, wd.T
    for cb, why in wd.problems:
        n1.fail("C04.N1:shape", w.path, common.span_of_block_term(w, cb), why)
    for k, (cb, X, info_roots, cf, src, r) in sorted(wd.refunds.items()):
        ideal = r * wd.a / wd.S
        numeric.run_obligation(n1, "C04.N1", w, T, ideal - X, "asset %d: r*a/S - x >= 0" % k)
        numeric.run_obligation(n2, "C04.N2", w, T, X - (ideal - r / RF(D18) - RF(1)), "asset %d: x - (r*a/S - r/10^18 - 1) >= 0" % k)
    ctx.extra.setdefault("terms", {})["refund"] = {"x": {k: v[1].show() for k, v in wd.refunds.items()},
                                                   "floors": ["%s = floor(%s)  <- %s" % (a, b.show(), c) for a, b, c in T.floors.items]}
    # ---- R1 ----------------------------------------------------------------------------------
    env = param(w, ENV_TY)
    if len(wd.qp) != 1:
        r1.fail("C04.R1:pools", w.path, w.span, "expected one query_pools call, found %d" % len(wd.qp))
    else:
        qb, qv = wd.qp[0]
        if set(ctx.roots(qv[4][0])) != {"load(%s)" % ctx.N.PAIR_INFO} or set(ctx.roots(qv[4][3])) != {P_(w, env, ".contract.address")}:
            r1.fail("C04.R1:pools-origin", w.path, common.span_of_block_term(w, qb), "reserves are read for %s at %s" % (sorted(ctx.roots(qv[4][0])), sorted(ctx.roots(qv[4][3]))))
        else:
            r1.site("reserves ⊢ PAIR_INFO.query_pools(env.contract.address)")
        for k, (cb, X, info_roots, cf, src, r) in sorted(wd.refunds.items()):
            sr = set(ctx.roots(src))
            if sr != {"C:%s@%s:bb%d" % (ctx.N.cpath("query_pools"), w.path, qb)}:
                r1.fail("C04.R1:refund-source:%d" % k, w.path, common.span_of_block_term(w, cb), "refund %d is computed from %s, not from the queried reserves" % (k, sorted(sr)))
            else:
                r1.site("refund %d: reserve ⊢ pools[%d].amount" % (k, k))
    if len(wd.ti) != 1:
        r1.fail("C04.R1:supply", w.path, w.span, "expected one TokenInfo query, found %d" % len(wd.ti))
    else:
        tb, tv = wd.ti[0]
        if set(ctx.roots(tv[4][1])) != {LP(ctx)}:
            r1.fail("C04.R1:supply-origin", w.path, common.span_of_block_term(w, tb), "total supply is read from %s, expected the pair's LP token" % sorted(ctx.roots(tv[4][1])))
        else:
            r1.site("S ⊢ TokenInfo(LP token).total_supply")
    recv, edge, region, h, callbb = wd.pr.withdraw_hook
    recv0, cw20_i = roles.cw20_envelope(P, "pair")
    hv = P.val_call(recv, recv.body, callbb)
    got = set(ctx.roots(hv[4][wd.amount_i]))
    if got != {P_(recv0, cw20_i, ".amount")}:
        r1.fail("C04.R1:amount-origin", recv.path, common.span_of_block_term(recv, callbb), "burn amount handed to the handler ⊢ %s, expected the cw20 envelope's amount" % sorted(got))
    else:
        r1.site("a ⊢ cw20_msg.amount")
    # ---- R2 -------------------------------------------------------------------------------------
    burns = [(fn, b, v, span) for (fn, b, i, adt, var, v, span) in common.message_sites(P) if common.adt_short(adt) == "Cw20ExecuteMsg" and var == "Burn"]
    if len(burns) != 1 or burns[0][0].path != w.path:
        r2.fail("C04.R2:burn-count", w.path, w.span, "expected exactly one Burn, in the withdraw handler; found %d" % len(burns))
    else:
        fn, b, v, span = burns[0]
        am = set(ctx.roots(dict(v[3])["amount"]))
        if am != {P_(w, wd.amount_i)}:
            r2.fail("C04.R2:burn-amount", w.path, span.replace("!x", ""), "Burn amount ⊢ %s, expected exactly the hook amount" % sorted(am))
        else:
            tgt = None
            for (fn2, b2, i2, adt2, var2, v2, span2) in common.message_sites(P):
                if fn2.path == w.path and common.adt_short(adt2) == "WasmMsg" and var2 == "Execute" and "Cw20ExecuteMsg::Burn" in "|".join(sorted(ctx.roots(dict(v2[3])["msg"]))):
                    tgt = set(ctx.roots(dict(v2[3])["contract_addr"]))
            if tgt != {LP(ctx)}:
                r2.fail("C04.R2:burn-target", w.path, span.replace("!x", ""), "Burn is addressed to %s, expected the LP token" % sorted(tgt or []))
            else:
                r2.site("Burn{amount ⊢ hook amount} -> LP token")
        # the burn is on every success path
        for (b2, i2, cls, v2) in common.ok_exit_blocks(P, w):
            if b2 in w.body.reachable_from(0, cut_blocks=(b,)):
                r2.fail("C04.R2:burn-skippable", w.path, common.span_of_block_term(w, b2), "a success exit is reachable without building the Burn")
    # ---- R3 ------------------------------------------------------------------------------------------
    n_pay = len(wd.pays) if all(hf.path == w.path for hf, _ in wd.pay_fn.values()) else len(wd.pay_fn)
    if sorted(wd.refunds) != [0, 1] or n_pay != 2:
        r3.fail("C04.R3:coverage", w.path, w.span, "refund transfers cover pool indices %s with %d payouts, expected exactly [0, 1]" % (sorted(wd.refunds), n_pay))
    for k, (cb, X, info_roots, cf, src, r) in sorted(wd.refunds.items()):
        hf_, hb_ = wd.pay_fn.get(k, (w, cb))
        cv = P.val_call(hf_, hf_.body, hb_)
        rec = set(ctx.roots(cv[4][1]))
        if rec != {P_(w, wd.sender_i)}:
            r3.fail("C04.R3:recipient:%d" % k, w.path, common.span_of_block_term(w, cb), "refund %d goes to %s, expected the withdrawing holder" % (k, sorted(rec)))
        elif info_roots != getattr(wd, "item_info", {}).get(k, {P_(cf, 1, ".info")}):
            r3.fail("C04.R3:asset:%d" % k, cf.path, cf.span, "refund %d is denominated in %s, expected the pool asset it was computed from" % (k, sorted(info_roots)))
        else:
            r3.site("refund %d: asset = pools[%d].info, recipient = sender, via %s" % (k, k, wd.tc.path))
        # a refund may be skipped only when it is itself empty (a zero-amount transfer is refused by the chain): any other
        # condition it sits under — and the successful exit does not — lets the burn go through without paying that share
        if hf_.path == w.path:
            pay_cs = lemmas.cond_strings(ctx, common.control_conditions(P, w, hb_))
            exits_ = common.exit_sites(P, w)
            oks_ = [e_ for e_ in exits_ if e_[2] == "ok"] or [e_ for e_ in exits_ if e_[2] != "err"]
            ok_cs = None
            for (ob, _i, _c, _v) in oks_:
                s_ = lemmas.cond_strings(ctx, common.control_conditions(P, w, ob))
                ok_cs = s_ if ok_cs is None else (ok_cs & s_)
            own = "|".join(sorted(ctx.roots(cv[4][0], (("f", "amount"),))))
            zero_rx = r"(K:0|C:cosmwasm_std::(\S*::)?Uint128::zero@[^|,]*)"
            # the same element reached through another `refunds[k]` index call has another root string: compare by element
            own_me = common.mapped_element(cv[4][0])
            same_elem = set()
            for cd_ in common.control_conditions(P, w, hb_):
                cc_ = cd_["cond"]
                if cc_[0] == "cmp" and cc_[1] == "is_zero" and len(cc_[2]) == 1 and own_me is not None:
                    av_ = cc_[2][0]
                    while av_[0] == "call" and isinstance(av_[3], str) and common.transparent_arg(av_[3]) == 0 and common.last_seg(av_[3]) not in ("index",):
                        av_ = av_[4][0]
                    if av_[0] == "proj" and av_[2] == ("f", "amount"):
                        me_ = common.mapped_element(av_[1])
                        if me_ is not None and me_[0] == own_me[0] and me_[1] == own_me[1]:
                            same_elem |= lemmas.cond_strings(ctx, [cd_])
            for c_ in sorted(pay_cs - (ok_cs or set())):
                m_z = re.match(r"^is_zero\((.+)\) is \[False\]$", c_) or re.match(r"^lt\(%s, (.+)\)$" % zero_rx, c_)
                if m_z and (m_z.group(m_z.lastindex) == own or c_ in same_elem):
                    r3.site("refund %d skipped only when its own amount is zero" % k)
                else:
                    r3.fail("C04.R3:refund-gate:%d:%s" % (k, c_[:80]), w.path, common.span_of_block_term(w, hb_),
                            "refund %d is built only under %s, which the successful exit is not under: the LP tokens can be burnt without paying that share" % (k, c_))
    # all messages reach the response
    lemmas.check_transfer_ctor(ctx, r3)
    sinks = roles.sink_blocks(P, w)
    extra = [(b, d) for (b, d) in sinks if b not in wd.pays and "Burn" not in d and "WasmMsg::Execute" not in d and "CosmosMsg::Wasm" not in d]
    for b, d in extra:
        r3.fail("C04.R3:extra-effect:%s" % d, w.path, common.span_of_block_term(w, b), "withdraw handler has an additional effect: %s" % d)
    # ---- R4 ---------------------------------------------------------------------------------------------
    sub = type(ctx)(ctx.prop, P)
    c14.run(sub)
    for i in sub.instances:
        if i.id in ("C14.R7",):
            r4.sites.extend("%s: %s" % (i.id, s) for s in i.sites)
            for f in i.failures:
                r4.fail("C04.R4:%s" % f["key"], f["fn"], f["span"], "[%s] %s" % (i.id, f["reason"]))
    ctx.assumptions.append("cw20-base debits exactly `a` from the holder on Send and from the pair on Burn (trusted)")


def run(ctx):
    from .. import numeric
    _run(ctx)
    numeric.arith_base(ctx, "C04.B1")
    # the two refunds are shares of two *different* balances: on a pair whose two assets are the same asset, one balance is
    # reported as both reserves and r*a/S is paid twice.  Pairs come from the factory, which refuses identical assets.
    from .. import compose
    from . import c16
    p1 = ctx.inst("C04.P1", "precondition from the factory: a pair's two assets are distinct (same-asset guard of pair creation, shared with C16.R4) — otherwise one balance backs both refunds", floor=1)
    compose.pull(ctx, p1, c16, {"C16.R4"}, "C04.P1", key_rx=r":(no-same-asset-guard|same-asset-[a-z-]+|anchor|floor)")
