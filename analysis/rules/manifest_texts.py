"""Per-property MANIFEST texts (level claimed, trusted base, technique)."""
PENDING = "not yet decided by this framework (rule module not built yet); no static verdict is claimed"
NOTES = ("Static analysis only: every verdict is computed from the MIR of /repo's current working tree (no contract code is run). "
         "Each check lists its rule instances in evidence/<id>.json; DESIGN.md §5 says which clauses of each property are decided and which are not.")
BASE_NOTE = ("Trusted: rustc's MIR for the analysed build (dev profile, mir-opt-level 0), the fact extractor in driver/, the axioms on external crates "
             "(bigint, cosmwasm-std, cw-storage-plus, cw20; versions printed in the evidence) and the chain's atomic revert of failed executions.")
TEXTS = {
 "C14": {
  "level": "Decides, for all callers / message contents / histories at once, that every path to an effect (storage write, message) or success exit of each privileged "
           "handler passes the pass-edge of the caller check (owner / factory / LP token / self), that the failing edge only errs, that CONFIG owner is written only as "
           "canonicalize(new owner) or at instantiation, that every storage write site is privileged and that handlers are reachable only from their dispatch arm. "
           "Universally quantified CFG facts, not sampled executions.",
  "note": BASE_NOTE + " 'A rejected call changes no balance' relies on platform revert.",
  "technique": "MIR dispatch-table + edge-dominance of guard pass-edges over effect sites, provenance of compared operands",
  "engine": "E-STRUCT"},
 "C09": {
  "level": "Decides for all declared amounts x attached funds at once: the decision table of the native-funds check (Ok only in the regions cw20 / coin found and "
           "amounts equal / no coin and amount zero; the search runs over exactly info.funds with predicate coin.denom == asset.denom), that the provide handler applies "
           "it to every declared asset (loop without adaptors or both indices) and the swap handler to the named offer asset, with the transaction's own MessageInfo, "
           "error propagated, and that the successful check dominates every effect, query and success exit.",
  "note": BASE_NOTE + " The bank module crediting attached funds before execution is platform semantics.",
  "technique": "MIR control-region decision table + must-pass-through (edge dominance) + argument provenance",
  "engine": "E-STRUCT"},
 "C02": {
  "level": "Decides for every combination of (asset delivered) x (asset named) x (amount named) x (funds) at once: on the cw20 hook path the swap handler is reachable only "
           "through the pass-edges of amount == cw20 amount, caller-is-a-pool-token and named-asset == Token{caller}; the direct path only for a native offer; the native-funds "
           "check precedes pricing; exactly one payout is built, with asset = a pool's info, amount = component .0 of the pricing result, recipient = to or the trader, "
           "and the reported attributes flow from the same values; the trader/recipient arguments originate from info.sender / the cw20 envelope / the message's `to` only. "
           "Supporting lemmas on AssetInfo::equal, is_native_token and the transfer constructor are re-derived from their MIR on every run.",
  "note": BASE_NOTE + " That the cw20 contract really moved `amount` before calling the hook is cw20-base semantics.",
  "technique": "MIR edge-dominance of hook/direct guards over the handler call + identity-flow provenance of payout, attributes and handler arguments",
  "engine": "E-STRUCT"},
}
