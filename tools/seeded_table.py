#!/usr/bin/env python3
"""Writes /verif/SEEDED.md: which checks catch which seeded change (from seeded/*/meta.json)."""
import json, os
V = os.path.dirname(os.path.dirname(os.path.abspath(__file__)))
rows = []
for name in sorted(os.listdir(os.path.join(V, "seeded"))):
    mp = os.path.join(V, "seeded", name, "meta.json")
    if not os.path.exists(mp):
        continue
    m = json.load(open(mp))
    readme = os.path.join(V, "seeded", name, "README.md")
    what = m.get("what")
    if not what and os.path.exists(readme):
        lines = [l.strip() for l in open(readme).read().splitlines() if l.strip() and not l.startswith("#")]
        what = " ".join(lines[:2])
    det = m.get("detected_by") or []
    detail = m.get("detection_detail") or {}
    first = ""
    own = m["property"]
    if own in detail and detail[own]:
        first = detail[own][0]
    elif det:
        first = detail[det[0]][0] if detail.get(det[0]) else ""
    rows.append((name, own, ", ".join(det) if det else "—", "yes" if own in det else "NO", (what or "")[:230].replace("|", "/"), first[:200].replace("|", "/")))
out = ["# Seeded changes and the checks that catch them", "",
       "Each change was written by an independent sub-agent that saw only the property text (or is the revert of one of the three `fix:` commits), "
       "was confirmed in a scratch worktree (compiles, the 101 tests pass, its demonstration test fails with it and passes without it), and is stored under `seeded/<id>/`. "
       "`tools/run_seeded.py` applies each to /repo, runs every registered check, and undoes it.", "",
       "| id | seeded for | caught by own check | all checks that fire | what the change is | first report of the owning check |", "|---|---|---|---|---|---|"]
for r in rows:
    out.append("| %s | %s | %s | %s | %s | %s |" % (r[0], r[1], r[3], r[2], r[4], r[5]))
n = len(rows)
own = sum(1 for r in rows if r[3] == "yes")
anyc = sum(1 for r in rows if r[2] != "—")
out += ["", "Summary: %d seeded changes; %d caught by the check of the property they were seeded for; %d caught by at least one check." % (n, own, anyc)]
open(os.path.join(V, "SEEDED.md"), "w").write("\n".join(out) + "\n")
print(out[-1])
