#!/usr/bin/env python3
"""Copy behaviour-preserving refactorings produced by sub-agents into /verif/refactors/ and run every check on each
(apply to /repo, evaluate dry, undo). A firing check is a FALSE ALARM to be fixed in the machinery."""
import json, os, shutil, subprocess, sys
V = os.path.dirname(os.path.dirname(os.path.abspath(__file__)))
REPO = os.environ.get("HALO_REPO", "/repo")       # a scratch worktree (with HALO_CACHE) lets several corpus runs go in parallel
os.makedirs(os.path.join(V, "refactors"), exist_ok=True)
for rf in sys.argv[1:]:
    src = "/tmp/wt/%s/REFACTOR" % rf
    if os.path.isdir(src):
        for f in sorted(os.listdir(src)):
            if f.endswith(".patch"):
                rid = "%s-%s" % (rf, f[:-6])
                d = os.path.join(V, "refactors", rid)
                os.makedirs(d, exist_ok=True)
                shutil.copy(os.path.join(src, f), os.path.join(d, "patch.diff"))
                md = os.path.join(src, f[:-6] + ".md")
                if os.path.exists(md):
                    shutil.copy(md, os.path.join(d, "README.md"))
man = json.load(open(os.path.join(V, "MANIFEST.json")))
checks = [c["property_id"] for c in man["checks"]]
if os.environ.get("HALO_CHECKS"):
    checks = os.environ["HALO_CHECKS"].split(",")      # partial run while iterating on one rule (results are then partial too)
ids = sorted(d for d in os.listdir(os.path.join(V, "refactors")) if os.path.isdir(os.path.join(V, "refactors", d)))
only = [a for a in sys.argv[1:]]
for rid in ids:
    if only and not any(rid.startswith(o) for o in only):
        continue
    patch = os.path.join(V, "refactors", rid, "patch.diff")
    if subprocess.run("git -C %s " % REPO + "apply %s" % patch, shell=True).returncode != 0:
        print(rid, "PATCH DOES NOT APPLY"); continue
    try:
        code = "import json,sys; sys.path.insert(0,%r); from analysis import engine; print('@@'+json.dumps(engine.evaluate_dry(%r)))" % (V, checks)
        p = subprocess.run([sys.executable, "-c", code], cwd=V, stdout=subprocess.PIPE, stderr=subprocess.STDOUT, text=True)
        line = [l for l in p.stdout.splitlines() if l.startswith("@@")]
        res = json.loads(line[0][2:]) if line else {"BUILD": [{"instance": "build", "at": "-", "reason": p.stdout[-300:], "key": "build"}]}
    finally:
        subprocess.run("git -C %s " % REPO + "checkout -- . && git -C %s clean -fdq -e target" % REPO, shell=True)
    fired = {c: vs for c, vs in res.items() if vs}
    json.dump({"id": rid, "false_alarms": {c: [v["key"] + " :: " + v["reason"][:200] for v in vs[:5]] for c, vs in fired.items()}}, open(os.path.join(V, "refactors", rid, "result.json"), "w"), indent=1)
    mp = os.path.join(V, "refactors", rid, "meta.json")
    meta = json.load(open(mp)) if os.path.exists(mp) else {}
    if fired and meta.get("verdict") == "beyond-reach":
        print("%-8s false alarm in %s (recorded: beyond reach of the technique — %s)" % (rid, ", ".join(sorted(fired)), meta.get("reason", "")[:80]))
        continue
    print("%-8s %s" % (rid, "clean" if not fired else "FALSE ALARM in " + ", ".join(sorted(fired))))
    for c, vs in fired.items():
        for v in vs[:3]:
            print("      %s %s: %s" % (c, v["instance"], v["reason"][:230]))
