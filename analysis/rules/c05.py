"""C05 — provision mints a fair share and pulls exactly the declared deposits (DESIGN §5 C05)."""
import re
from .. import common, roles, lemmas, numeric, eround
from ..eround import RF, Translator, Unsupported, D18
from ..roles import P_, param, INFO_TY, ENV_TY, AnchorMissing
from ..mir import generic_path, proj
from . import c09

def LP(ctx):
    return "human(load(%s).liquidity_token)" % ctx.N.PAIR_INFO


def share_calculator(ctx, pr):
    """Role: callee of the provide handler whose Ok value flows into the share Mint."""
    P = ctx.P
    f = pr.provide_handler
    cands = set()
    for (fn, b, i, adt, var, v, span) in common.message_sites(P):
        if fn.path == f.path and common.adt_short(adt) == "Cw20ExecuteMsg" and var == "Mint":
            for r in ctx.roots(dict(v[3])["amount"]):
                m = re.match(r"^C:([\w:]+)@%s:bb(\d+)$" % re.escape(f.path), r)
                if m and roles.is_workspace_fn(P, m.group(1)):
                    cands.add((m.group(1), int(m.group(2))))
    if len(cands) != 1:
        raise AnchorMissing("share calculator (workspace callee whose result is minted): %d candidates" % len(cands))
    p, bb = list(cands)[0]
    return P.fn(p), bb


def _run(ctx):
    P = ctx.P
    n1 = ctx.inst("C05.N1", "minted share m <= d_i*S/r_i for both assets (E-ROUND)", floor=2)
    n2 = ctx.inst("C05.N2", "m >= min_i(d_i*S/r_i) - 1 (argument-wise on the min)", floor=2)
    n3 = ctx.inst("C05.N3", "first provision: share = isqrt(d0*d1) under checked u128 multiplication; gated by whitelist and both minimums", floor=3)
    r1 = ctx.inst("C05.R1", "zero-share provisions are rejected before any mint", floor=1)
    r3 = ctx.inst("C05.R3", "per pool asset i: cw20 -> exactly TransferFrom{owner: sender, recipient: pair, amount: deposits[i]} to that token; native -> observed reserve reduced by deposits[i] (aborting) before share and slippage computations", floor=4)
    r4 = ctx.inst("C05.R4", "deposits[i] = amount of the declared asset whose info equals pools[i].info (abort if none)", floor=2)
    r5 = ctx.inst("C05.R5", "every declared native amount equals the attached funds before any accounting (shared with C09.R1/R2)", floor=3)
    r6 = ctx.inst("C05.R6", "empty pool: one extra Mint of LP_TOKEN_RESERVED_AMOUNT (=1) to the LP token's own address and the same constant subtracted from the receiver's share", floor=3)
    r7 = ctx.inst("C05.R7", "share Mint: recipient = receiver or else sender; amount = the calculator's result (less the reserved unit); calculator fed with (sender info, PAIR_INFO, LP supply, deposits, adjusted pools)", floor=4)
    try:
        pr = roles.PairRoles(P)
        calc, cbb = share_calculator(ctx, pr)
    except AnchorMissing as e:
        for r in (n1, n2, n3, r1, r3, r4, r5, r6, r7):
            r.fail("%s:anchor" % r.id, "-", "-", "anchor-missing: %s" % e)
        return
    f = pr.provide_handler
    body = f.body
    info, env = param(f, INFO_TY), param(f, ENV_TY)
    assets_i = common.param_index_of_type(f, r"^\[%s; 2\]$" % ctx.N.rx("Asset"))
    recv_i = common.param_index_of_type(f, r"^std::option::Option<std::string::String>$")

    # ---- share calculator: decision table + numeric ------------------------------------------------------
    sup_i = common.param_index_of_type(calc, r"^cosmwasm_std::\S*Uint128$")
    dep_i = common.param_index_of_type(calc, r"^\[cosmwasm_std::\S*Uint128; 2\]$")
    pools_i = common.param_index_of_type(calc, r"^\[%s; 2\]$" % ctx.N.rx("Asset"))
    cinfo_i = common.param_index_of_type(calc, r"^&'?\w* ?cosmwasm_std::\S*MessageInfo$")
    pinfo_i = common.param_index_of_type(calc, r"^&'?\w* ?%s$" % ctx.N.rx("PairInfoRaw"))
    # the calculator may take just the pieces it uses: the sender instead of MessageInfo, the requirements instead of the record
    SENDER_SUFFIX, REQ_SUFFIX = ".sender", ".requirements"
    if cinfo_i is None:
        cinfo_i = common.param_index_of_type(calc, r"^cosmwasm_std::\S*Addr$")
        SENDER_SUFFIX = ""
    if pinfo_i is None:
        reqs_ = [a_["path"] for a_ in P.adts.values() if a_.get("kind") == "struct" and a_["path"].startswith("haloswap::") and
                 {"whitelist", "first_asset_minimum", "second_asset_minimum"} <= {f_["name"] for f_ in a_["variants"][0]["fields"]}]
        if len(reqs_) == 1:
            pinfo_i = common.param_index_of_type(calc, "^%s$" % re.escape(reqs_[0]))
            REQ_SUFFIX = ""
    if None in (sup_i, dep_i, pools_i, cinfo_i, pinfo_i):
        n1.fail("C05.N1:anchor", calc.path, calc.span, "anchor-missing: share calculator parameters")
        return
    SUP = P_(calc, sup_i)
    zero_eq = "is_zero(%s) is " % SUP
    tab = lemmas.fn_table(ctx, calc)
    first_ok = normal_ok = None
    for b, v, cs in tab:
        if common.classify_ret_value(v) != "ok":
            continue
        empty = [c for c in cs if c.startswith(zero_eq)]
        if any(c.endswith("[True]") for c in empty):
            first_ok = (b, v, cs)
        elif any(c.endswith("[False]") for c in empty):
            normal_ok = (b, v, cs)
        else:
            n3.fail("C05.N3:region", calc.path, common.span_of_block_term(calc, b), "a share is returned without testing whether the LP supply is zero")
    # normal branch
    if normal_ok is None:
        n1.fail("C05.N1:no-normal-branch", calc.path, calc.span, "no success exit for a non-empty pool")
    else:
        b, v, cs = normal_ok
        val = v[3][0][1]
        if not (val[0] == "call" and isinstance(val[3], str) and re.search(r"cmp::(Ord>?::)?min$", generic_path(val[3])) and len(val[4]) == 2):
            n1.fail("C05.N1:not-min", calc.path, common.span_of_block_term(calc, b), "share for a non-empty pool is %s, expected min(.., ..)" % ctx.show(val, 3))
        else:
            T = Translator(P)
            S = T.var("S")
            seen_idx = set()
            for arg in val[4]:
                # which deposit index does this argument use
                rs = "|".join(sorted(ctx.roots(arg)))
                d_idx = None
                for x in common.walk(arg):
                    if x[0] == "proj" and x[1] == common.param_value(calc, dep_i) and x[2][0] == "i":
                        d_idx = x[2][1]
                r_idx = None
                for x in common.walk(arg):
                    if x[0] == "proj" and x[2] == ("f", "amount") and x[1][0] == "proj" and x[1][1] == common.param_value(calc, pools_i) and x[1][2][0] == "i":
                        r_idx = x[1][2][1]
                if d_idx is None or r_idx is None or d_idx != r_idx:
                    n1.fail("C05.N1:index-pairing:%s:%s" % (d_idx, r_idx), calc.path, common.span_of_block_term(calc, b),
                            "a share candidate divides deposits[%s] by pools[%s]: each deposit must be measured against its own reserve" % (d_idx, r_idx))
                    continue
                seen_idx.add(d_idx)
                d, r = T.var("d%d" % d_idx), T.var("r%d" % d_idx)
                envt = {proj(common.param_value(calc, dep_i), ("i", d_idx)): d, common.param_value(calc, sup_i): S,
                        proj(proj(common.param_value(calc, pools_i), ("i", d_idx)), ("f", "amount")): r}
                try:
                    m = T.tr(arg, envt)
                except Unsupported as e:
                    n1.fail("C05.N1:untranslatable:%d" % d_idx, calc.path, common.span_of_block_term(calc, b), "cannot interpret share candidate %d (%s): unrecognised-idiom" % (d_idx, e))
                    continue
                ideal = d * S / r
                numeric.run_obligation(n1, "C05.N1", calc, T, ideal - m, "asset %d: d*S/r - m_i >= 0 (so min <= each ideal)" % d_idx)
                numeric.run_obligation(n2, "C05.N2", calc, T, m - (ideal - RF(1)), "asset %d: m_i - (d*S/r - 1) >= 0 (so min >= min ideal - 1)" % d_idx)
            if seen_idx != {0, 1} and n1.status == "pass":
                n1.fail("C05.N1:coverage", calc.path, common.span_of_block_term(calc, b), "min() covers deposit indices %s, expected both" % sorted(seen_idx))
    # first provision
    if first_ok is None:
        n3.fail("C05.N3:no-first-branch", calc.path, calc.span, "no success exit for an empty pool")
    else:
        b, v, cs = first_ok
        val = v[3][0][1]
        D0, D1 = P_(calc, dep_i, "[0]"), P_(calc, dep_i, "[1]")
        want_conds = {
            "contains(%s, %s) is [True]" % (P_(calc, pinfo_i, REQ_SUFFIX + ".whitelist"), P_(calc, cinfo_i, SENDER_SUFFIX)),
            zero_eq + "[True]",
            "le(%s, %s)" % (P_(calc, pinfo_i, REQ_SUFFIX + ".first_asset_minimum"), D0),
            "le(%s, %s)" % (P_(calc, pinfo_i, REQ_SUFFIX + ".second_asset_minimum"), D1),
        }
        if cs != want_conds:
            missing = want_conds - cs
            extra = cs - want_conds
            n3.fail("C05.N3:gating", calc.path, common.span_of_block_term(calc, b),
                    "first provision succeeds under {%s}; expected exactly whitelist ∋ sender ∧ d0 >= first minimum ∧ d1 >= second minimum (missing: %s; extra: %s)" % (
                        "; ".join(sorted(cs))[:400], sorted(missing), sorted(extra)))
        else:
            n3.site("first provision gated by: whitelist contains info.sender, deposits[0] >= first_asset_minimum, deposits[1] >= second_asset_minimum")
        # isqrt(d0*d1) with checked multiplication
        sq = [x for x in common.walk(val) if x[0] == "call" and isinstance(x[3], str) and common.last_seg(x[3]) == "integer_sqrt"]
        good = False
        if len(sq) == 1 and set(ctx.roots(val)) == {"C:integer_sqrt::IntegerSquareRoot::integer_sqrt@%s:bb%d" % (calc.path, sq[0][2])} or (len(sq) == 1 and len(ctx.roots(val)) == 1):
            arg = sq[0][4][0]
            inner = arg
            if inner[0] == "proj" and inner[2] == ("f", 0):
                inner = inner[1]
            if inner[0] == "binop" and inner[1] in ("MulWithOverflow",):
                ra, rb = "|".join(sorted(ctx.roots(inner[2]))), "|".join(sorted(ctx.roots(inner[3])))
                if sorted([ra, rb]) == sorted([D0, D1]):
                    good = True
                    # the overflow flag is asserted
                    asserts = [blk for blk in calc.body.blocks if blk["term"]["k"] == "assert" and blk["term"]["msg"].startswith("overflow:Mul")]
                    if not asserts:
                        good = False
                        n3.fail("C05.N3:unchecked-mul", calc.path, common.span_of_block_term(calc, b), "d0*d1 is computed without an overflow assertion")
            elif inner[0] == "binop" and inner[1] == "Mul":
                n3.fail("C05.N3:wrapping-mul", calc.path, common.span_of_block_term(calc, b), "d0*d1 uses an unchecked (wrapping) multiplication in this build")
                good = None
        if good:
            n3.site("share = integer_sqrt(deposits[0] * deposits[1]) with overflow-checked u128 multiplication")
        elif good is False:
            n3.fail("C05.N3:formula", calc.path, common.span_of_block_term(calc, b), "first-provision share is %s, expected isqrt(d0*d1)" % ctx.show(val, 5))
    # overflow checks in the shipped profile
    oc = P.crate_meta.get("haloswap", {}).get("overflow_checks")
    try:
        toml = open(__import__("os").path.join(__import__("analysis.facts", fromlist=["x"]).REPO, "Cargo.toml")).read()
        m = re.search(r"\[profile\.release\][^\[]*?overflow-checks\s*=\s*(true|false)", toml, re.S)
        if m and m.group(1) == "true":
            n3.site("[profile.release] overflow-checks = true (u128 multiplication aborts on overflow in shipped builds)")
        else:
            n3.fail("C05.N3:release-overflow-checks", "Cargo.toml", "Cargo.toml", "release profile does not enable overflow-checks: d0*d1 would wrap silently")
    except OSError:
        pass
    if ctx.P_release is not None:
        Prel = ctx.P_release
        cr = Prel.fn(calc.path)
        ok_rel = cr is not None and any(blk["term"]["k"] == "assert" and blk["term"]["msg"].startswith("overflow:Mul") for blk in cr.body.blocks)
        if ok_rel:
            n3.site("release-profile MIR contains the MulWithOverflow assertion (thorough tier)")
        else:
            n3.fail("C05.N3:release-mir", calc.path, calc.span, "release-profile MIR of the share calculator has no overflow assertion on d0*d1")

    # ---- R7 calculator wiring and share mint -------------------------------------------------------------------
    cv = P.val_call(f, body, cbb)
    qp = [(b, P.val_call(f, body, b)) for b, p, fr, t in P.calls(f) if ctx.N.is_fn(p, "query_pools")]
    QP = "C:%s@%s:bb%d" % (ctx.N.cpath("query_pools"), f.path, qp[0][0]) if len(qp) == 1 else None
    if QP is None:
        r7.fail("C05.R7:pools", f.path, f.span, "expected one query_pools call in the provide handler")
        return
    qv = qp[0][1]
    if set(ctx.roots(qv[4][0])) != {"load(%s)" % ctx.N.PAIR_INFO} or set(ctx.roots(qv[4][3])) != {P_(f, env, ".contract.address")}:
        r7.fail("C05.R7:pools-origin", f.path, common.span_of_block_term(f, qp[0][0]), "reserves are not read from the pair's own PAIR_INFO / address")
    dep_roots = "|".join(sorted(ctx.roots(cv[4][dep_i])))
    want = {cinfo_i: {P_(f, info) + ("" if SENDER_SUFFIX else ".sender")}, pinfo_i: {"load(%s)%s" % (ctx.N.PAIR_INFO, "" if REQ_SUFFIX else ".requirements")}}
    for i_, w_ in want.items():
        if set(ctx.roots(cv[4][i_])) != w_:
            r7.fail("C05.R7:calc-arg%d" % i_, f.path, common.span_of_block_term(f, cbb), "share calculator argument %d ⊢ %s, expected %s" % (i_, sorted(ctx.roots(cv[4][i_])), sorted(w_)))
    supr = set(ctx.roots(cv[4][sup_i]))
    tis = [x for x in common.walk(cv[4][sup_i]) if x[0] == "call" and ctx.N.is_fn(x[3], "q_token_info")]
    if len(supr) != 1 or not list(supr)[0].endswith(".total_supply") or len(tis) != 1 or set(ctx.roots(tis[0][4][1])) != {LP(ctx)}:
        r7.fail("C05.R7:supply", f.path, common.span_of_block_term(f, cbb), "LP supply handed to the calculator ⊢ %s, expected TokenInfo(LP token).total_supply" % sorted(supr))
    else:
        r7.site("calculator(info ⊢ tx info, PAIR_INFO, S ⊢ TokenInfo(LP).total_supply, deposits, pools)")
    pools_roots = set(ctx.roots(cv[4][pools_i]))
    if QP not in pools_roots:
        r7.fail("C05.R7:calc-pools", f.path, common.span_of_block_term(f, cbb), "calculator pools ⊢ %s" % sorted(pools_roots))
    mints = [(b, v, span) for (fn, b, i, adt, var, v, span) in common.message_sites(P) if fn.path == f.path and common.adt_short(adt) == "Cw20ExecuteMsg" and var == "Mint"]
    CALC = "C:%s@%s:bb%d" % (calc.path, f.path, cbb)
    share_mints = []
    reserved_mints = []
    for b, v, span in mints:
        fld = dict(v[3])
        am = set(ctx.roots(fld["amount"]))
        rc = set(ctx.roots(fld["recipient"]))
        if am == {"K:1"}:
            reserved_mints.append((b, v, span, rc))
        else:
            share_mints.append((b, v, span, am, rc))
    if len(share_mints) != 1:
        r7.fail("C05.R7:share-mint-count", f.path, f.span, "%d share mints, expected one" % len(share_mints))
    else:
        b, v, span, am, rc = share_mints[0]
        subs = {r for r in am if r.startswith("C:cosmwasm_std::Uint128::checked_sub@")}
        if not (am - subs == {CALC} or am == subs) or len(subs) > 1:
            r7.fail("C05.R7:share-amount", f.path, span.replace("!x", ""), "minted amount ⊢ %s, expected the calculator's result (or that minus the reserved unit)" % sorted(am))
        else:
            r7.site("share Mint amount ⊢ calculator result (− reserved unit on first provision)")
        wantr = {"or(%s;%s)" % (P_(f, recv_i), P_(f, info, ".sender"))}
        if rc == {"or(valid(%s);%s)" % (P_(f, recv_i), P_(f, info, ".sender"))}:
            rc = wantr        # the receiver was validated first: addr_validate(x) is x
        if rc != wantr and rc <= {P_(f, recv_i), "valid(%s)" % P_(f, recv_i), P_(f, info, ".sender")} and P_(f, info, ".sender") in rc:
            # the same choice spelled as `match receiver { Some(r) => validate(r)?, None => sender }`
            if common.option_choice_local(P, ctx.R, f, P_(f, recv_i), rc - {P_(f, info, ".sender")}, {P_(f, info, ".sender")},
                                          lambda cs_: lemmas.cond_strings(ctx, cs_)) is not None:
                rc = wantr
        if rc != wantr:
            r7.fail("C05.R7:share-recipient", f.path, span.replace("!x", ""), "share is minted to %s, expected receiver or else the sender" % sorted(rc))
        else:
            r7.site("share Mint recipient ⊢ receiver.unwrap_or(info.sender)")
        r7.site("calculator result unwrapped (an Err from the calculator aborts)")
    # ---- R1 zero-share guard --------------------------------------------------------------------------------------
    zg = None
    for g in common.bool_guards(P, f):
        c = g.cond
        if c[0] == "cmp" and c[1] == "is_zero" and set(ctx.roots(c[2][0])) == {CALC}:
            zg = g
    mint_blocks = [b for b, v, span in mints]
    if zg is None:
        r1.fail("C05.R1:no-guard", f.path, f.span, "a zero share is not rejected (free LP dilution / deposits for nothing)")
    else:
        ok, why = common.fail_edge_only_errors(P, f, zg.edge(True), mint_blocks)
        if not ok:
            r1.fail("C05.R1:fail-edge", f.path, common.span_of_block_term(f, zg.b), "zero share does not abort: %s" % why)
        for b in mint_blocks + [x[0] for x in common.ok_exit_blocks(P, f)]:
            if not body.edge_dominates(zg.edge(False), b):
                r1.fail("C05.R1:not-dominating", f.path, common.span_of_block_term(f, b), "a mint / success exit is reachable without the zero-share check")
        if r1.status == "pass":
            r1.site("is_zero(share) => Err at %s, before %d mint site(s)" % (common.span_of_block_term(f, zg.b), len(mint_blocks)))
    # ---- R6 reserved unit --------------------------------------------------------------------------------------------
    sup_root = list(supr)[0] if len(supr) == 1 else "?"
    eg = None
    for g in common.bool_guards(P, f):
        c = g.cond
        if c[0] == "cmp" and c[1] in ("eq", "ne") and len(c[2]) == 2:
            rs = ["|".join(sorted(ctx.roots(x))) for x in c[2]]
            if sup_root in rs and any(r.startswith("C:cosmwasm_std::Uint128::zero@") or r == "K:0" for r in rs):
                eg = (g, c[1] == "eq")
        elif c[0] == "cmp" and c[1] == "is_zero" and len(c[2]) == 1 and "|".join(sorted(ctx.roots(c[2][0]))) == sup_root:
            eg = (g, True)
    if eg is None:
        r6.fail("C05.R6:no-empty-test", f.path, f.span, "the handler does not distinguish the first provision (supply == 0)")
    else:
        g, truth = eg
        e_edge = g.edge(truth)
        if len(reserved_mints) != 1:
            r6.fail("C05.R6:reserved-mint-count", f.path, f.span, "%d mints of the reserved unit, expected one" % len(reserved_mints))
        else:
            b, v, span, rc = reserved_mints[0]
            if rc != {LP(ctx)}:
                r6.fail("C05.R6:reserved-recipient", f.path, span.replace("!x", ""), "the reserved unit is minted to %s, expected the LP token's own address (unspendable)" % sorted(rc))
            elif not body.edge_dominates(e_edge, b):
                r6.fail("C05.R6:reserved-region", f.path, span.replace("!x", ""), "the reserved unit is minted outside the empty-pool branch")
            else:
                r6.site("empty pool: Mint{LP token address, %s} at %s" % ("LP_TOKEN_RESERVED_AMOUNT = 1", span.replace("!x", "").split("/")[-1]))
            # the unit is subtracted from the share on that branch, aborting
            subs = [(bb, P.val_call(f, body, bb)) for bb, p, fr, t in P.calls(f) if p and generic_path(p).endswith("Uint128::checked_sub")]
            subs = [(bb, sv) for bb, sv in subs if set(ctx.roots(sv[4][0])) == {CALC}]
            if len(subs) != 1 or set(ctx.roots(subs[0][1][4][1])) != {"K:1"} or not body.edge_dominates(e_edge, subs[0][0]):
                r6.fail("C05.R6:unit-not-subtracted", f.path, f.span, "the receiver's share is not reduced by the reserved unit on the empty-pool branch")
            else:
                pg = common.propagated(P, f, subs[0][0])
                if pg is None:
                    r6.fail("C05.R6:sub-unchecked", f.path, common.span_of_block_term(f, subs[0][0]), "share - reserved unit is not an aborting subtraction")
                else:
                    r6.site("share := share - 1 (aborting) on the empty-pool branch")
            # on the empty branch every success passes the reserved mint
            for (b2, i2, cls, v2) in common.ok_exit_blocks(P, f):
                if b2 in body.reachable_from(e_edge[1], cut_blocks=(b,)):
                    r6.fail("C05.R6:reserved-skippable", f.path, common.span_of_block_term(f, b2), "on the empty-pool branch a success exit is reachable without minting the reserved unit")
            if r6.status == "pass":
                r6.site("the reserved amount evaluates to the constant 1 in both the mint and the subtraction")
    # ---- R3 per-asset deposit handling ------------------------------------------------------------------------------------
    # The loop lives in the provide handler, or in one private helper the handler calls once (`collect_deposits(env, &sender,
    # &mut pools, &deposits)?`): the helper is then analysed with its parameters standing for the call's arguments.
    f_home, body_home, R_home = f, body, ctx.R

    def deposit_loops(g):
        out_ = []
        for l in [l for l in common.loops(P, g) if l["is_loop"]]:
            ads, kind, src = common.iter_chain(l["iter"])
            if [a for a, _ in ads] in (["enumerate"], ["zip"]) and kind in ("iter_mut", "iter") and QP in set(ctx.roots(src)):
                out_.append(l)
        return out_
    staged = None
    if not deposit_loops(f):
        for hb_, hp_, hfr_, ht_ in P.calls(f):
            h_ = (P.fn(hp_) or P.fn(generic_path(hp_))) if hp_ and roles.is_workspace_fn(P, hp_) else None
            if h_ is None or h_.body is None or h_.path == f.path or (h_.j.get("vis") or "Public").startswith("Public") or not h_.path.startswith(f.path.split("::")[0] + "::"):
                continue
            hv_ = P.val_call(f, body, hb_)
            ctx.R = R_home.with_params(h_.path, hv_[4])
            if deposit_loops(h_) and len([1 for c_, cb_ in P.callers(h_.path) if "::tests::" not in c_.path]) == 1:
                staged = (h_, hb_, hv_)
                break
            ctx.R = R_home
    if staged is not None:
        h_, hb_, hv_ = staged
        pg_ = common.propagated(P, f_home, hb_)
        if pg_ is None or not common.fail_edge_only_errors(P, f_home, pg_[2])[0]:
            r3.fail("C05.R3:staged-unchecked", f_home.path, common.span_of_block_term(f_home, hb_), "the result of %s (per-asset deposit handling) is not propagated" % h_.path)
        else:
            r3.site("per-asset deposit handling staged into %s, called once, result propagated" % h_.path)
        f, body = h_, h_.body
        dep_roots_home = dep_roots
    lps = [l for l in common.loops(P, f) if l["is_loop"]]
    tf = [(b, v, span) for (fn, b, i, adt, var, v, span) in common.message_sites(P) if fn.path == f.path and common.adt_short(adt) == "Cw20ExecuteMsg" and var == "TransferFrom"]
    cands = []
    for l in lps:
        ads, kind, src = common.iter_chain(l["iter"])
        if [a for a, _ in ads] == ["enumerate"] and kind in ("iter_mut", "iter") and QP in set(ctx.roots(src)):
            cands.append((l, False))
        elif [a for a, _ in ads] == ["zip"] and kind in ("iter_mut", "iter") and QP in set(ctx.roots(src)):
            # `for (pool, deposit) in pools.iter_mut().zip(deposits.iter())`: position-wise pairing of the two arrays
            zv = ads[0][1]
            try:
                ads2_, kind2_, src2_ = common.iter_chain(zv[4][1])
            except Exception:
                continue
            if not ads2_ and kind2_ in ("iter", "into_iter") and "|".join(sorted(ctx.roots(src2_))) == dep_roots:
                cands.append((l, True))

    def loop_terms(l, zip_form):
        item = l["item_root"]
        DEP = r"^A:array\[.*\]\[@%s\.0\]$" % re.escape(item)          # (elements may carry `[*]` themselves: `assets[position(..)]`)
        PEL = item + (".0" if zip_form else ".1")          # the pool element of this iteration
        if zip_form:
            DEP = r"^%s\.1$" % re.escape(item)            # the deposit element of the same iteration
        lb = body.reachable_from(l["some_edge"][1], cut_edges=(l["none_edge"],))
        return item, DEP, PEL, lb
    dl = None
    if not cands:
        r3.fail("C05.R3:loop", f.path, f.span, "no loop `for (i, pool) in pools.iter_mut().enumerate()` over all pool assets: unrecognised-idiom")
    else:
        # the cw20 pull and the native adjustment may share one per-asset loop or each have their own
        tl = [(l, zf) for l, zf in cands if len(tf) == 1 and tf[0][0] in loop_terms(l, zf)[3]]
        if len(tf) != 1 or len(tl) != 1:
            r3.fail("C05.R3:transfer-from-count", f.path, f.span, "expected one TransferFrom construction inside the per-asset loop, found %d" % len(tf))
        else:
            dl, zip_form = tl[0]
            item, DEP, PEL, lb = loop_terms(dl, zip_form)
            b, v, span = tf[0]
            fld = dict(v[3])
            am = "|".join(sorted(ctx.roots(fld["amount"])))
            if not re.match(DEP, am) or (not zip_form and dep_roots not in am.replace("[@%s.0]" % item, "")):
                r3.fail("C05.R3:transfer-from-amount", f.path, span.replace("!x", ""), "TransferFrom amount ⊢ %s, expected deposits[i] of the same loop iteration" % am[:200])
            conds = [c for c in common.control_conditions(P, f, b) if c["sw"] in lb and c["sw"] != dl["switch"]]
            cs = lemmas.cond_strings(ctx, [c for c in conds if not (c["cond"][0] == "discr" and c["allowed"] in (["Continue"], ["Ok"]))])
            if cs != {"discr(%s.info) in ['Token']" % PEL}:
                r3.fail("C05.R3:transfer-from-region", f.path, span.replace("!x", ""), "TransferFrom is built under {%s}, expected exactly `pool asset is a cw20 token`" % "; ".join(sorted(cs)))
            # target contract = that pool's token
            tgt = None
            for (fn2, b2, i2, adt2, var2, v2, span2) in common.message_sites(P):
                if fn2.path == f.path and common.adt_short(adt2) == "WasmMsg" and var2 == "Execute" and "TransferFrom" in "|".join(sorted(ctx.roots(dict(v2[3])["msg"]))):
                    tgt = set(ctx.roots(dict(v2[3])["contract_addr"]))
            if tgt != {"%s.info~Token.contract_addr" % PEL}:
                r3.fail("C05.R3:transfer-from-target", f.path, span.replace("!x", ""), "TransferFrom is sent to %s, expected the same pool asset's contract" % sorted(tgt or []))
            if r3.status == "pass":
                r3.site("cw20 pool asset i: TransferFrom{amount: deposits[i]} to pools[i]'s contract (owner/recipient: C07.R3)")
        # native: (*pool).amount = checked_sub(pool.amount, deposits[i])
        writes = []
        for l_, zf_ in cands:
            item_, DEP_, PEL_, lb_ = loop_terms(l_, zf_)
            for b, blk in enumerate(body.blocks):
                if blk["cleanup"] or b not in lb_:
                    continue
                for i, st in enumerate(blk["stmts"]):
                    if st["k"] == "assign" and st["place"]["p"] and st["place"]["p"][0]["k"] == "deref" and "!x" not in st["span"]:
                        base = "|".join(sorted(ctx.roots(P.val_local_in(f, body, (b, i), st["place"]["l"]))))
                        if base == PEL_:
                            writes.append((b, i, st, l_, zf_))
        if len(writes) != 1 or [e.get("name") for e in writes[0][2]["place"]["p"][1:]] != ["amount"]:
            r3.fail("C05.R3:native-adjust", f.path, f.span, "expected exactly one in-place adjustment `pool.amount = ...` in the loop, found %d" % len(writes))
            dl = dl or cands[0][0]
        else:
            b, i, st, dl, zip_form = writes[0]
            item, DEP, PEL, lb = loop_terms(dl, zip_form)
            val = P.val_rvalue(f, body, (b, i), st["rv"])
            subs = [x for x in common.walk(val) if x[0] == "call" and isinstance(x[3], str) and generic_path(x[3]).endswith("Uint128::checked_sub")]
            ok = len(subs) == 1 and set(ctx.roots(subs[0][4][0])) == {PEL + ".amount"} and re.match(DEP, "|".join(sorted(ctx.roots(subs[0][4][1]))))
            if ok:
                pg = common.propagated(P, f, subs[0][2])
                ok = pg is not None and common.fail_edge_only_errors(P, f, pg[2])[0]
            conds = [c for c in common.control_conditions(P, f, b) if c["sw"] in lb and c["sw"] != dl["switch"]]
            cs = lemmas.cond_strings(ctx, [c for c in conds if not (c["cond"][0] == "discr" and c["allowed"] in (["Continue"], ["Ok"]))])
            if not ok:
                r3.fail("C05.R3:native-adjust-value", f.path, st["span"].replace("!x", ""), "native reserve is adjusted to %s, expected pool.amount - deposits[i] by aborting subtraction" % ctx.show(val, 4))
            elif cs != {"discr(%s.info) in ['NativeToken']" % PEL}:
                r3.fail("C05.R3:native-adjust-region", f.path, st["span"].replace("!x", ""), "native reserve adjusted under {%s}, expected exactly `pool asset is native`" % "; ".join(sorted(cs)))
            else:
                r3.site("native pool asset i: pools[i].amount -= deposits[i] (aborting), every iteration")
        # the loop precedes the calculator and the slippage guard
        for bb, p, fr, t in P.calls(f_home):
            if p and roles.is_workspace_fn(P, p) and (generic_path(p) == calc.path or re.search(r"fn\((&'?\w* ?)?std::option::Option<cosmwasm_std::\S*Decimal>", (P.fn(p).sig or ""))):
                after = body_home.edge_dominates(dl["none_edge"], bb) if staged is None else (bb != staged[1] and body_home.block_dominates(staged[1], bb))
                if not after:
                    r3.fail("C05.R3:order:%s" % common.last_seg(p), f_home.path, common.span_of_block_term(f_home, bb), "%s runs before the native deposits were subtracted from the observed reserves" % common.last_seg(p))
                else:
                    r3.site("%s runs after the adjustment loop" % common.last_seg(p))
    f, body = f_home, body_home
    ctx.R = R_home
    # ---- R4 deposits -------------------------------------------------------------------------------------------------------------
    depv = common.inline_helpers(P, cv[4][dep_i])
    if depv[0] != "agg" or depv[1] != "array" or len(depv[3]) != 2:
        r4.fail("C05.R4:shape", f.path, f.span, "deposits is not a 2-element array literal: unrecognised-idiom")
    else:
        for k, (nm, ev) in enumerate(depv[3]):
            finds = [x for x in common.walk(ev) if x[0] == "call" and isinstance(x[3], str) and common.last_seg(x[3]) == "find"]
            maps = [x for x in common.walk(ev) if x[0] == "call" and isinstance(x[3], str) and generic_path(x[3]).endswith("Option::map")]
            # the deposit is *required*: `.expect(..)` / `.unwrap()` (abort) or `.ok_or(err)?` (error) around the Option
            inner, required = ev, False
            for _ in range(6):
                if inner[0] == "proj" and inner[2] in (("v", "Continue"), ("v", "Ok"), ("v", "Some"), ("f", 0)):
                    inner = inner[1]
                elif inner[0] == "call" and isinstance(inner[3], str) and common.is_try_branch(inner[3]):
                    inner, required = inner[4][0], True
                elif inner[0] == "call" and isinstance(inner[3], str) and common.last_seg(inner[3]) in ("expect", "unwrap") and re.search(r"option::Option", inner[3]):
                    inner, required = inner[4][0], True
                elif inner[0] == "call" and isinstance(inner[3], str) and common.last_seg(inner[3]) in ("ok_or", "ok_or_else") and re.search(r"option::Option", inner[3]):
                    inner = inner[4][0]
                else:
                    break
            exp = required and len(maps) == 1 and inner == maps[0]
            ok = exp and len(finds) == 1 and len(maps) == 1
            # position form: `assets[assets.iter().position(|a| a.info == pools[k].info).expect(..)].amount`
            poss_ = [x for x in common.walk(ev) if x[0] == "call" and isinstance(x[3], str) and common.last_seg(x[3]) == "position" and "Iterator" in x[3]]
            if not ok and len(poss_) == 1 and not finds and ev[0] == "proj" and ev[2] == ("f", "amount") and ev[1][0] == "proj" and ev[1][2][0] == "ix":
                base_, ixv_ = ev[1][1], ev[1][2][1]
                req_ = False
                x_ = ixv_
                for _ in range(6):
                    if x_[0] == "proj" and x_[2] in (("v", "Continue"), ("v", "Ok"), ("v", "Some"), ("f", 0)):
                        x_ = x_[1]
                    elif x_[0] == "call" and isinstance(x_[3], str) and (common.is_try_branch(x_[3]) or (common.last_seg(x_[3]) in ("expect", "unwrap") and re.search(r"option::Option", x_[3]))):
                        x_, req_ = x_[4][0], True
                    elif x_[0] == "call" and isinstance(x_[3], str) and common.last_seg(x_[3]) in ("ok_or", "ok_or_else") and re.search(r"option::Option", x_[3]):
                        x_ = x_[4][0]
                    else:
                        break
                if req_ and x_ == poss_[0] and set(ctx.roots(base_)) == {P_(f, assets_i)}:
                    ads, kind, src = common.iter_chain(poss_[0][4][0])
                    pred = c09.closure_predicate(ctx, poss_[0][4][1])
                    cf = pred[2] if pred else None
                    if not ads and kind == "iter" and set(ctx.roots(src)) == {P_(f, assets_i)} and pred is not None and pred[0] in ("equal", "eq") and \
                            sorted("|".join(sorted(x)) for x in pred[1]) == sorted([P_(cf, 1, ".info"), "%s[%d].info" % (QP, k)]):
                        r4.site("deposits[%d] = amount of the declared asset at the position whose info equals pools[%d].info, abort if absent" % (k, k))
                        continue
            if ok:
                ads, kind, src = common.iter_chain(finds[0][4][0])
                ok = not ads and kind == "iter" and set(ctx.roots(src)) == {P_(f, assets_i)}
            if ok:
                pred = c09.closure_predicate(ctx, finds[0][4][1])
                cf = pred[2] if pred else None
                ok = pred is not None and pred[0] in ("equal", "eq") and sorted("|".join(sorted(x)) for x in pred[1]) == sorted([P_(cf, 1, ".info"), "%s[%d].info" % (QP, k)])
            if ok:
                mc = maps[0][4][1]
                mr = ctx.R.closure_return_roots(mc)
                mcf = P.fn(mc[2]) if mc[0] == "agg" else None
                ok = mcf is not None and mr == {P_(mcf, 1, ".amount")}
            if not ok:
                r4.fail("C05.R4:deposit:%d" % k, f.path, f.span, "deposits[%d] is %s, expected assets.iter().find(|a| a.info == pools[%d].info).map(|a| a.amount).expect(..)" % (k, ctx.show(ev, 4)[:200], k))
            else:
                r4.site("deposits[%d] = amount of the declared asset equal to pools[%d].info, abort if absent" % (k, k))
    # ---- R5 ------------------------------------------------------------------------------------------------------------------------
    sub = type(ctx)(ctx.prop, P)
    c09.run(sub)
    for i in sub.instances:
        if i.id in ("C09.R1", "C09.R2"):
            r5.sites.extend("%s: %s" % (i.id, s) for s in i.sites[:3])
            r5.evaluations += i.evaluations
            for fl in i.failures:
                r5.fail("C05.R5:%s" % fl["key"], fl["fn"], fl["span"], "[%s] %s" % (i.id, fl["reason"]))
    ctx.assumptions.append("an address equal to the LP token contract can never spend its balance (cw20-base has no such path; trusted)")
    ctx.assumptions.append("m >= 1 follows from the zero-share guard (R1); moving exactly d_i: cw20 via TransferFrom(d_i) (R3, C07.R3), native via funds == declared (R5)")


def run(ctx):
    from .. import numeric
    _run(ctx)
    numeric.arith_base(ctx, "C05.B1")
    from .. import compose
    from . import c16 as _c16
    w1 = ctx.inst("C05.W1", "the requirements the pair enforces on the first provision are the ones configured at CreatePair: the factory hands them over unchanged (shared with C16.R5) and the pair stores the message's field (C16.R6)", floor=1)
    compose.pull(ctx, w1, _c16, {"C16.R5"}, "C05.W1", key_rx=r":instantiate-requirements")
    compose.pull(ctx, w1, _c16, {"C16.R6"}, "C05.W1", key_rx=r":pair-instantiate:requirements", max_sites=0)
    l1 = ctx.inst("C05.L1", "support lemmas: the equality that matches declared assets to pools is equality of (kind, identifier); is_native_token tests the variant — a Token spelled like a denom must not match the native pool", floor=2)
    lemmas.check_equal(ctx, l1)
    lemmas.check_is_native(ctx, l1)
