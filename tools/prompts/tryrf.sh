#!/bin/bash
# usage: tryrf.sh <dir with patch.diff> [checks comma-separated]   -> runs evaluate_dry on lane SCR1
D=$(realpath $1); CH=${2:-}
W=/tmp/wt/SCR1
git -C $W checkout -q -- . && git -C $W clean -fdq -e target
git -C $W apply $D/patch.diff || exit 2
cd /verif
HALO_REPO=$W HALO_CACHE=/verif/.cache-mut-SCR1 python3 - "$CH" <<'PY'
import json,sys
sys.path.insert(0,'/verif')
from analysis import engine
man=json.load(open('/verif/MANIFEST.json'))
checks=[c['property_id'] for c in man['checks']]
if sys.argv[1]: checks=sys.argv[1].split(',')
res=engine.evaluate_dry(checks)
for c,vs in res.items():
    for v in vs[:6]:
        print(c, v['instance'], v['at'], v['reason'][:900])
print('FIRED:', sorted(c for c,vs in res.items() if vs))
PY
git -C $W checkout -q -- . && git -C $W clean -fdq -e target
