"""C12 — quotes are faithful to execution (DESIGN §5 C12)."""
import re
from .. import common, roles, lemmas, numeric, eround
from ..eround import RF, Translator, Unsupported, D18
from ..roles import P_, param, INFO_TY, ENV_TY, AnchorMissing
from ..mir import generic_path
from . import c01, c02

QROLE = {"simulate": "q_simulate", "reverse_simulate": "q_reverse_simulate"}


def RATE_ITEMS(ctx):
    return ({"load(%s)" % ctx.N.COMMISSION}, {"load(%s).commission_rate" % ctx.N.PAIR_INFO})


def query_handlers(P):
    q = roles.entry(P, "pair", "query")
    from .. import names
    d = common.dispatch(P, q, names.get(P).query_enum("pair"))
    if d is None:
        raise AnchorMissing("no match on pair::QueryMsg in the pair's query entry point")
    out = {}
    for variant in ("Simulation", "ReverseSimulation"):
        if variant not in d:
            raise AnchorMissing("pair::QueryMsg::%s has no arm" % variant)
        region = common.region_of_edge(q.body, d[variant])
        hb, hf = roles.arm_handler(P, q, region, "pair query arm %s" % variant)
        out[variant] = (q, hb, hf)
    return out


def check_quote_wiring(ctx, inst, fn, pricing, key, reverse=False):
    """The query handler calls `pricing` with (offer reserve, ask reserve, amount, stored rate) selected by equal() on the named asset."""
    P = ctx.P
    body = fn.body
    asset_i = common.param_index_of_type(fn, "^%s$" % ctx.N.rx("Asset"))
    calls = [b for b, p, fr, t in P.calls(fn) if p and generic_path(p) == pricing.path]
    if asset_i is None or len(calls) != 1:
        inst.fail("%s:shape" % key, fn.path, fn.span, "expected one call of %s and one Asset parameter" % pricing.path)
        return None
    cb = calls[0]
    pc = roles.pools_call(ctx, fn)
    if pc is None:
        inst.fail("%s:pools" % key, fn.path, fn.span, "expected one query_pools call (in the handler or in its private loader), found %d in the handler" % len([1 for b, p, fr, t in P.calls(fn) if ctx.N.is_fn(p, "query_pools")]))
        return None
    qfn, qb, qv, qR = pc
    QP = "C:%s@%s:bb%d" % (ctx.N.cpath("query_pools"), qfn.path, qb)
    acct = set(qR.roots(qv[4][3]))
    if set(qR.roots(qv[4][0])) != {"load(%s)" % ctx.N.PAIR_INFO} or acct != {"human(load(%s).contract_addr)" % ctx.N.PAIR_INFO}:
        inst.fail("%s:pools-origin" % key, qfn.path, common.span_of_block_term(qfn, qb), "quote reads reserves of %s for %s; expected the pair's own stored address" % (sorted(acct), sorted(qR.roots(qv[4][0]))))
    else:
        inst.site("%s: reserves ⊢ PAIR_INFO.query_pools(own stored address)" % fn.name)
    from .. import selection
    try:
        S = selection.PoolSelection(ctx, fn, asset_i, QP)
    except AnchorMissing:
        inst.fail("%s:selection" % key, fn.path, fn.span, "the named asset is not compared with pools[0].info and pools[1].info")
        return None
    if not S.rejects_foreign():
        inst.fail("%s:unknown-asset" % key, fn.path, fn.span, "a named asset that is neither pool asset is not rejected by the quote")
    t = body.blocks[cb]["term"]
    n = len(body.blocks[cb]["stmts"])
    # forward: arg0 = pools[k] (offer), arg1 = pools[1-k]; reverse: named asset is the ask: arg0 = pools[1-k] (offer), arg1 = pools[k] (ask)
    for ai in (0, 1):
        a = t["args"][ai]
        for k in (0, 1):
            v = S.value((cb, n), a, k)
            want_idx = (k if ai == 0 else 1 - k) if not reverse else (1 - k if ai == 0 else k)
            rs = set(ctx.roots(v))
            if rs != {"%s[%d].amount" % (QP, want_idx)}:
                inst.fail("%s:arg%d:branch%d" % (key, ai, k), fn.path, common.span_of_block_term(fn, cb),
                          "branch `named asset is pools[%d]`: %s reserve ⊢ %s, expected pools[%d].amount" % (k, "offer" if ai == 0 else "ask", sorted(rs), want_idx))
            else:
                inst.site("%s: named == pools[%d] -> %s reserve = pools[%d].amount" % (fn.name, k, "offer" if ai == 0 else "ask", want_idx))
    cv = P.val_call(fn, body, cb)
    if set(ctx.roots(cv[4][2])) != {P_(fn, asset_i, ".amount")}:
        inst.fail("%s:amount" % key, fn.path, common.span_of_block_term(fn, cb), "priced amount ⊢ %s, expected the named asset's amount" % sorted(ctx.roots(cv[4][2])))
    rate = set(ctx.roots(cv[4][3]))
    if rate not in RATE_ITEMS(ctx):
        inst.fail("%s:rate" % key, fn.path, common.span_of_block_term(fn, cb), "rate ⊢ %s, expected the pair's stored commission rate" % sorted(rate))
    else:
        inst.site("%s: rate ⊢ %s" % (fn.name, sorted(rate)[0]))
    # response mapping
    ROOT = "C:%s@%s:bb%d" % (pricing.path, fn.path, cb)
    for (b, i, cls, v) in common.ok_exit_blocks(P, fn):
        rs = "|".join(sorted(ctx.roots(v, (("v", "Ok"), ("f", 0)))))
        first = "offer_amount" if reverse else "return_amount"
        want = "{%s=%s.0,spread_amount=%s.1,commission_amount=%s.2}" % (first, ROOT, ROOT, ROOT)
        # the three quoted amounts, field by field (further informational fields of the response are not the property's concern)
        got3 = [set(ctx.roots(v, (("v", "Ok"), ("f", 0), ("f", n_)))) for n_ in (first, "spread_amount", "commission_amount")]
        if not rs.endswith(want) and got3 != [{ROOT + ".0"}, {ROOT + ".1"}, {ROOT + ".2"}]:
            inst.fail("%s:response" % key, fn.path, common.span_of_block_term(fn, b), "response is %s, expected fields mapped from components .0/.1/.2 in order" % rs[:260])
        else:
            inst.site("%s: response {%s, spread, commission} ⊢ components .0/.1/.2" % (fn.name, first))
    return rate


def _run(ctx):
    P = ctx.P
    r1 = ctx.inst("C12.R1", "forward quote and swap call the same pricing function on corresponding arguments (reserve selection, amount, rate; response mapping)", floor=7)
    r2 = ctx.inst("C12.R2", "the commission rate items are written only at instantiation, from the same message field", floor=2)
    n1 = ctx.inst("C12.N1", "reverse quote never exceeds the closed form x*y/(y - ask/(1-c)) - x (E-ROUND, certificate y = ask/(1-c) + q)", floor=1)
    n2 = ctx.inst("C12.N2", "reverse quote is below the closed form only by its rounding bound: offer >= x*y/(den + ask/10^18 + 1) - 1 - x", floor=1)
    r5 = ctx.inst("C12.R5", "reverse quote wiring: compute(offer reserve = other pool, ask reserve = named pool, ask amount, rate); response mapping", floor=7)
    r3 = ctx.inst("C12.R3", "router forward simulation folds the pair Simulation queries over the route in order", floor=5)
    r4 = ctx.inst("C12.R4", "router reverse simulation folds the pair ReverseSimulation queries over the reversed route", floor=5)
    r6 = ctx.inst("C12.R6", "execution prices what was delivered: hook amount == received amount, hook caller is a pair token and the named asset is that token, native funds == declared (shared with C02.R1/R2/R3/R5) and the swap-side wiring (C01.R1)", floor=8)
    try:
        pr = roles.PairRoles(P)
        pricing, pbb = numeric.pricing_fn(ctx, pr)
        qh = query_handlers(P)
    except AnchorMissing as e:
        for r in (r1, r2, n1, n2, r5, r3, r4, r6):
            r.fail("%s:anchor" % r.id, "-", "-", "anchor-missing: %s" % e)
        return
    q, simb, sim = qh["Simulation"]
    _, revb, rev = qh["ReverseSimulation"]
    rate_q = check_quote_wiring(ctx, r1, sim, pricing, "C12.R1")
    # same rate item as the swap handler
    swap = pr.swap_handler
    sv = P.val_call(swap, swap.body, pbb)
    rate_s = set(ctx.roots(sv[4][3]))
    if rate_q is not None and rate_q != rate_s:
        # acceptable only if both items are written from the same field (R2)
        r1.notes.append("simulation reads %s, swap reads %s (accepted iff R2 holds)" % (sorted(rate_q), sorted(rate_s)))
    r1.site("swap handler calls %s with rate ⊢ %s" % (pricing.path, sorted(rate_s)))
    # ---- R2 -----------------------------------------------------------------------------------------
    pi = roles.entry(P, "pair", "instantiate")
    msg_i = common.param_index_of_type(pi, "^%s$" % re.escape(ctx.N.inst_msg("pair")))
    want = P_(pi, msg_i, ".commission_rate")
    for fn in P.prod_fns():
        for (b, op, item, v) in common.storage_sites(P, fn, writes=True):
            if item == ctx.N.COMMISSION:
                if fn.path != pi.path or set(ctx.roots(v[4][2])) != {want}:
                    r2.fail("C12.R2:rate-item:%s" % fn.path, fn.path, common.span_of_block_term(fn, b), "COMMISSION_RATE_INFO is written in %s from %s; expected only at instantiation from the message's commission_rate" % (fn.path, sorted(ctx.roots(v[4][2]))))
                else:
                    r2.site("COMMISSION_RATE_INFO ⊢ InstantiateMsg.commission_rate")
            if item == ctx.N.PAIR_INFO:
                rs = set(ctx.roots(v[4][2], (("f", "commission_rate"),))) if op == "save" else set()
                if op == "save" and not (rs == {want} or rs == {"load(%s).commission_rate" % ctx.N.PAIR_INFO}):
                    r2.fail("C12.R2:pair-info-rate:%s" % fn.path, fn.path, common.span_of_block_term(fn, b), "PAIR_INFO.commission_rate is written from %s" % sorted(rs))
                elif op == "save" and rs == {want}:
                    r2.site("PAIR_INFO.commission_rate ⊢ InstantiateMsg.commission_rate")
    # ---- reverse pricing function ------------------------------------------------------------------------
    rcalls = [(b, P.fn(p) or P.fn(generic_path(p))) for b, p, fr, t in P.calls(rev) if roles.is_workspace_fn(P, p)]
    rpf = None
    try:
        triple_fns = {f.path for f in ctx.N.pricing_candidates()}      # also registers named-triple returns (`OfferAmounts {..}`)
    except AnchorMissing:
        triple_fns = set()
    for b, g in rcalls:
        if g.sig and re.search(r"-> \(cosmwasm_std::\S*Uint128, cosmwasm_std::\S*Uint128, cosmwasm_std::\S*Uint128\)", g.sig):
            rpf = g
        elif g.path in triple_fns:
            rpf = g
    if rpf is None:
        n1.fail("C12.N1:anchor", rev.path, rev.span, "anchor-missing: reverse pricing function (callee of the ReverseSimulation query returning three amounts)")
    else:
        check_quote_wiring(ctx, r5, rev, rpf, "C12.R5", reverse=True)
        T = Translator(P)
        T.lenient = True
        x, y, k, c = T.var("x"), T.var("y"), T.var("k"), T.var("c")
        env = {("param", rpf.path, 0): x, ("param", rpf.path, 1): y, ("param", rpf.path, 2): k, ("param", rpf.path, 3): c}
        ex = common.exit_sites(P, rpf)
        comps = None
        try:
            comps = T.components(ex[0][3], env) if len(ex) == 1 else None
        except Unsupported as e:
            n1.fail("C12.N1:untranslatable", rpf.path, rpf.span, "cannot interpret the reverse formula (%s): unrecognised-idiom" % e)
        if comps is not None and comps[0] is not None:
            offer = comps[0]
            t_ = RF.var("t")     # 1/(1-c) = 1 + t, t >= 0
            qv_ = RF.var("q")    # y = ask/(1-c) + q, q >= 0 (the formula aborts otherwise)
            one_t = RF(1) + t_
            cert = [("c", RF(D18) * t_ / one_t), ("y", k * one_t + qv_)]
            den = qv_                                # y - ask/(1-c) after the certificate
            ysub = k * one_t + qv_
            closed = x * ysub / den - x
            numeric.run_obligation(n1, "C12.N1", rpf, T, closed - offer, "closed form - quote >= 0", subst=cert, role="reverse-pricing")
            lower = x * ysub / (den + k / RF(D18) + RF(1)) - RF(1) - x
            numeric.run_obligation(n2, "C12.N2", rpf, T, offer - lower, "quote - (x*y/(den + ask/10^18 + 1) - 1 - x) >= 0", subst=cert, role="reverse-pricing")
            ctx.extra.setdefault("terms", {})["reverse"] = {"offer": offer.show(), "floors": ["%s = floor(%s)  <- %s" % (a, b.show(), o) for a, b, o in T.floors.items]}
        elif comps is not None:
            n1.fail("C12.N1:untranslatable", rpf.path, rpf.span, "cannot interpret the offer amount of the reverse formula: unrecognised-idiom")
    # ---- router folds ---------------------------------------------------------------------------------------------
    for inst, variant, qname, field, first in ((r3, "SimulateSwapOperations", "simulate", "return_amount", "offer"), (r4, "ReverseSimulateSwapOperations", "reverse_simulate", "offer_amount", "ask")):
        try:
            rq = roles.entry(P, "router", "query")
            d = common.dispatch(P, rq, ctx.N.query_enum("router"))
            region = common.region_of_edge(rq.body, d[variant])
            fold = roles.arm_handler(P, rq, region, "router query arm %s" % variant)[1]
        except (AnchorMissing, KeyError, TypeError) as e:
            inst.fail("%s:anchor" % inst.id, "-", "-", "anchor-missing: %s" % e)
            continue
        check_fold(ctx, inst, fold, qname, field, first == "ask")
    # ---- R6 ---------------------------------------------------------------------------------------------------------
    # C02.R2 / C02.R3: the asset a hook names is the token that delivered it — otherwise the executing swap subtracts the
    # offer from a pool that never received it and prices on reserves the quote did not see (seeded/C12-m23)
    c01.import_instances(ctx, r6, c02, {"C02.R1", "C02.R2", "C02.R3", "C02.R5"}, "C12.R6")
    sub = type(ctx)(ctx.prop, P)
    c01.run(sub)
    for i in sub.instances:
        if i.id == "C01.R1":
            r6.sites.extend("%s: %s" % (i.id, s) for s in i.sites)
            for f in i.failures:
                r6.fail("C12.R6:%s" % f["key"], f["fn"], f["span"], "[%s] %s" % (i.id, f["reason"]))
    ctx.assumptions.append("'its rounding bound' of the reverse quote is read as: denominator perturbed by the truncations of 1/(1-c) and ask*inv (<= ask/10^18 + 1) plus the final floor (N2)")
    ctx.assumptions.append("a query sees the state an immediately following swap executes on (same block, no interleaving) — the statement's own premise")


def check_fold(ctx, inst, fold, qname, field, reverse):
    """The router simulation is the hop-by-hop composition of the pair queries: either a loop with a running amount,
    or `operations.into_iter()[.rev()].try_fold(amount, |acc, op| ..)`; the per-hop code may live in a private helper."""
    P = ctx.P
    body = fold.body
    ops_i = common.param_index_of_type(fold, r"^std::vec::Vec<%s>$" % ctx.N.rx("SwapOperation"))
    amt_i = common.param_index_of_type(fold, r"^cosmwasm_std::\S*Uint128$")
    if ops_i is None or amt_i is None:
        inst.fail("%s:shape" % inst.id, fold.path, fold.span, "anchor-missing: fold parameters (Vec<SwapOperation>, Uint128)")
        return
    lps = [l for l in common.loops(P, fold) if l["is_loop"]]
    folds = [(b, P.val_call(fold, body, b)) for b, p, fr, t in P.calls(fold) if p and common.last_seg(p) in ("try_fold", "fold") and "Iterator" in p]
    AMT = P_(fold, amt_i)
    if len(lps) == 1 and not folds:
        l = lps[0]
        ads, kind, src = common.iter_chain(l["iter"])
        item = l["item_root"]
        hop_fn = fold
        form = "loop"
    elif len(folds) == 1 and not lps:
        fb, fv = folds[0]
        ads, kind, src = common.iter_chain(fv[4][0])
        clo = fv[4][2] if len(fv[4]) > 2 else None
        if clo is None or clo[0] != "agg" or clo[1] != "closure":
            inst.fail("%s:fold-closure" % inst.id, fold.path, common.span_of_block_term(fold, fb), "fold is not given a closure: unrecognised-idiom")
            return
        hop_fn = P.fn(clo[2])
        item = P_(hop_fn, 2)
        if set(ctx.roots(fv[4][1])) != {AMT}:
            inst.fail("%s:fold-init" % inst.id, fold.path, common.span_of_block_term(fold, fb), "fold starts from %s, expected the quoted amount" % sorted(ctx.roots(fv[4][1])))
        form = "fold"
    else:
        inst.fail("%s:shape" % inst.id, fold.path, fold.span, "expected a single loop (or a single fold) over the operations with a running amount: unrecognised-idiom")
        return
    names = [a for a, _ in ads]
    if "enumerate" in names and form == "loop":
        # `for (i, op) in operations.into_iter()[.rev()].enumerate()` (the index only labels error messages): same elements, same order
        names = [a for a in names if a != "enumerate"]
        item = item + ".1"
    if names != (["rev"] if reverse else []) or kind != "into_iter" or set(ctx.roots(src)) != {P_(fold, ops_i)}:
        inst.fail("%s:iteration" % inst.id, fold.path, fold.span, "route is iterated with adaptors %s (expected %s) over %s" % (names, ["rev"] if reverse else [], sorted(ctx.roots(src))))
    else:
        inst.site("%s: operations%s, every element (%s form)" % (fold.name, ".rev()" if reverse else " in order", form))
    # the per-hop query: in hop_fn or in a private helper it calls
    sites = []
    for f2 in [hop_fn] + [P.fn(p) or P.fn(generic_path(p)) for b, p, fr, t in P.calls(hop_fn) if roles.is_workspace_fn(P, p) and generic_path(p).startswith("halo_router::")]:
        for b2, p2, fr2, t2 in P.calls(f2):
            if ctx.N.is_fn(p2, QROLE[qname]):
                sites.append((f2, b2))
    if len(sites) != 1:
        inst.fail("%s:no-query" % inst.id, fold.path, fold.span, "expected one pair %s query per hop, found %d" % (qname, len(sites)))
        return
    qf, qb = sites[0]
    QROOT = "C:%s@%s:bb%d.%s" % (ctx.N.cpath(QROLE[qname]), qf.path, qb, field)
    sub = {}
    if qf.path != hop_fn.path:
        hb = [b for b, p, fr, t in P.calls(hop_fn) if p and (P.fn(p) or P.fn(generic_path(p))) is not None and (P.fn(p) or P.fn(generic_path(p))).path == qf.path]
        hv = P.val_call(hop_fn, hop_fn.body, hb[0])
        sub = {P_(qf, i): "|".join(sorted(ctx.roots(a))) for i, a in enumerate(hv[4])}
        if not common.pure_helper(P, qf):
            QROOT_CALLER = "C:%s@%s:bb%d" % (qf.path, hop_fn.path, hb[0])
        else:
            QROOT_CALLER = QROOT
        rets = set()
        for (b, i, cls, v) in common.ok_exit_blocks(P, qf):
            rets |= set(ctx.roots(v, (("v", "Ok"), ("f", 0))))
        if rets != {QROOT}:
            inst.fail("%s:helper-return" % inst.id, qf.path, qf.span, "helper returns %s, expected the pair query's %s" % (sorted(rets), field))
    else:
        QROOT_CALLER = QROOT

    def R(v, path=()):
        out = set()
        for r in ctx.roots(v, path):
            for k_, s_ in sorted(sub.items(), key=lambda kv: -len(kv[0])):
                if r == k_ or r.startswith(k_ + ".") or r.startswith(k_ + "~") or r.startswith(k_ + "["):
                    r = s_ + r[len(k_):]
                    break
            out |= set(r.split("|")) if "|" in r and not r.startswith("A:") else {r}
        return out
    acc = {AMT, QROOT_CALLER} if form == "loop" else {P_(hop_fn, 1)}
    qv = P.val_call(qf, qf.body, qb)
    pv = [(b, P.val_call(qf, qf.body, b)) for b, p, fr, t in P.calls(qf) if ctx.N.is_fn(p, "q_pair_info")]
    if len(pv) != 1:
        inst.fail("%s:pair-lookup" % inst.id, qf.path, qf.span, "expected one factory Pair query per hop, found %d" % len(pv))
        return
    pb, pvv = pv[0]
    fac = R(pvv[4][1])
    if fac != {"human(load(%s).halo_factory)" % ctx.N.ROUTER_CONFIG}:
        inst.fail("%s:factory" % inst.id, qf.path, common.span_of_block_term(qf, pb), "pairs are looked up at %s, expected the configured factory" % sorted(fac))
    arr = pvv[4][2]
    el = ["|".join(sorted(R(x))) for _, x in arr[3]] if arr[0] == "agg" and arr[1] == "array" else []
    if el != ["%s~HaloSwap.offer_asset_info" % item, "%s~HaloSwap.ask_asset_info" % item]:
        inst.fail("%s:pair-assets" % inst.id, qf.path, common.span_of_block_term(qf, pb), "pair is looked up for %s, expected [operation.offer, operation.ask]" % (el or sorted(R(arr)))[:300])
    else:
        inst.site("pair ⊢ factory.Pair([op.offer, op.ask])")
    tgt = R(qv[4][1])
    if tgt != {"C:%s@%s:bb%d.contract_addr" % (ctx.N.cpath("q_pair_info"), qf.path, pb)}:
        inst.fail("%s:query-target" % inst.id, qf.path, common.span_of_block_term(qf, qb), "the pair query goes to %s, expected the looked-up pair" % sorted(tgt))
    ainfo = R(qv[4][2], (("f", "info"),))
    aamt = R(qv[4][2], (("f", "amount"),))
    want_info = {"%s~HaloSwap.%s" % (item, "ask_asset_info" if reverse else "offer_asset_info")}
    if ainfo != want_info:
        inst.fail("%s:query-asset" % inst.id, qf.path, common.span_of_block_term(qf, qb), "queried asset ⊢ %s, expected the operation's %s asset" % (sorted(ainfo), "ask" if reverse else "offer"))
    elif aamt != acc:
        inst.fail("%s:query-amount" % inst.id, qf.path, common.span_of_block_term(qf, qb), "queried amount ⊢ %s, expected the running amount %s" % (sorted(aamt), sorted(acc)))
    else:
        inst.site("query(pair, Asset{%s info, running amount})" % ("ask" if reverse else "offer"))
    if form == "fold":
        rets = set()
        for (b, i, cls, v) in common.ok_exit_blocks(P, hop_fn):
            rets |= set(ctx.roots(v, (("v", "Ok"), ("f", 0))))
        if rets != {QROOT_CALLER}:
            inst.fail("%s:fold-step" % inst.id, hop_fn.path, hop_fn.span, "the fold step returns %s, expected the pair query's %s" % (sorted(rets), field))
        else:
            inst.site("running amount := response.%s (fold step result)" % field)
        want_res = {"C:%s@%s:bb%d" % (generic_path(fv[3]), fold.path, fb)}
    else:
        inst.site("running amount := response.%s" % field)
        want_res = acc
    for (b, i, cls, v) in common.ok_exit_blocks(P, fold):
        rs = set(ctx.roots(v, (("v", "Ok"), ("f", 0), ("f", "amount"))))
        if rs != want_res:
            inst.fail("%s:result" % inst.id, fold.path, common.span_of_block_term(fold, b), "result amount ⊢ %s, expected the running amount after the last hop" % sorted(rs))
        elif form == "loop" and not body.edge_dominates(lps[0]["none_edge"], b):
            inst.fail("%s:early-exit" % inst.id, fold.path, common.span_of_block_term(fold, b), "a success exit is reachable before the whole route was folded")
        else:
            inst.site("result ⊢ running amount after the last hop")


def run(ctx):
    from .. import numeric
    _run(ctx)
    numeric.arith_base(ctx, "C12.B1")
