#!/bin/bash
# usage: sdpipe.sh Cxx   -> confirm m22 in /tmp/wt/Cxx, then run all checks on it in lane S<Cxx>
P=$1; M=${2:-m22}; LANE=S$P
cd /verif
python3 tools/harvest.py $P $M > /tmp/wt/$P.$M.harvest.log 2>&1
if [ -d /verif/seeded/$P-$M ]; then
  [ -d /tmp/wt/$LANE ] || git -C /repo worktree add --detach /tmp/wt/$LANE HEAD -q
  HALO_REPO=/tmp/wt/$LANE HALO_CACHE=/verif/.cache-mut-$LANE python3 tools/run_seeded.py $P-$M > /tmp/wt/$P.$M.detect.log 2>&1
fi
