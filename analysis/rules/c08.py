"""C08 — 256-bit arithmetic is exact or aborts, never silently wrong (DESIGN §5 C08)."""
import re
from .. import common, roles, lemmas, eround
from ..eround import RF, Translator, Unsupported, D18
from ..roles import P_
from ..mir import generic_path, proj

BN = "bignumber::math::"
U, DEC = BN + "Uint256", BN + "Decimal256"


def find_fn(P, impl_self, name, impl_trait=None, trait_full=None):
    hits = []
    for f in P.fns.values():
        if f.crate != "bignumber" or f.body is None or f.derived or f.kind != "assoc_fn" or "::tests::" in f.path:
            continue
        if f.name != name or f.impl_self != impl_self:
            continue
        if (impl_trait is None) != (f.impl_trait is None):
            continue
        if impl_trait is not None and not (f.impl_trait or "").endswith(impl_trait):
            continue
        if trait_full is not None and trait_full not in (f.j.get("impl_trait_full") or ""):
            continue
        hits.append(f)
    if len(hits) > 1 and trait_full is None:
        # `impl Div for T` next to reference-operand forwarders `impl Div<&T> for T`: the by-value impl is the operator
        byval = [f for f in hits if "<&" not in (f.j.get("impl_trait_full") or "")]
        if len(byval) == 1:
            return byval[0]
    return hits[0] if len(hits) == 1 else None


# reference semantics: (id, locator, arity, builder(floors, vars) -> RF, required aborts [(kind, index or lambda)])
def REFS():
    fl = lambda F, x, org: F.floor(x, org)
    D = RF(D18)
    return [
        ("S1 Decimal256::from_ratio = floor(n*D/d)", (DEC, "from_ratio", None, None), 2, lambda F, v: fl(F, v[0] * D / v[1], "ref"), [("nonzero", 1)]),
        ("S2 Decimal256::from_uint256 = v*D", (DEC, "from_uint256", None, None), 1, lambda F, v: v[0] * D, []),
        ("S3 Decimal256 + Decimal256 = a+b", (DEC, "add", "ops::Add", None), 2, lambda F, v: v[0] + v[1], []),
        ("S4 Decimal256 - Decimal256 = a-b (abort a<b)", (DEC, "sub", "ops::Sub", None), 2, lambda F, v: v[0] - v[1], [("nonneg", (0, 1))]),
        ("S5 Decimal256 * Decimal256 = floor(a*b/D)", (DEC, "mul", "ops::Mul", "Mul>"), 2, lambda F, v: fl(F, v[0] * v[1] / D, "ref"), []),
        ("S6 Decimal256 / Decimal256 = floor(a*D/b) (abort b=0)", (DEC, "div", "ops::Div", None), 2, lambda F, v: fl(F, v[0] * D / v[1], "ref"), [("nonzero", 1)]),
        ("S7 Uint256 + Uint256 = a+b", (U, "add", "ops::Add", None), 2, lambda F, v: v[0] + v[1], []),
        ("S8 Uint256 - Uint256 = a-b (abort a<b)", (U, "sub", "ops::Sub", None), 2, lambda F, v: v[0] - v[1], [("nonneg", (0, 1))]),
        ("S9 Uint256 * Uint256 = a*b", (U, "mul", "ops::Mul", "Mul>"), 2, lambda F, v: v[0] * v[1], []),
        ("S10 Uint256 * Decimal256 = floor(u*d/D)", (U, "mul", "ops::Mul", "Mul<bignumber::math::Decimal256>"), 2, lambda F, v: fl(F, v[0] * v[1] / D, "ref"), []),
        ("S11 Uint256 / Decimal256 = floor(u*D/d) (abort d=0)", (U, "div", "ops::Div", "Div<bignumber::math::Decimal256>"), 2, lambda F, v: fl(F, v[0] * D / v[1], "ref"), [("nonzero", 1)]),
        ("S12 Decimal256 * Uint256 = floor(u*d/D)", (DEC, "mul", "ops::Mul", "Mul<bignumber::math::Uint256>"), 2, lambda F, v: fl(F, v[0] * v[1] / D, "ref"), []),
        ("S13 Uint256::multiply_ratio = floor(s*n/d) (abort d=0)", (U, "multiply_ratio", None, None), 3, lambda F, v: fl(F, v[0] * v[1] / v[2], "ref"), [("nonzero", 2)]),
        ("S14 Decimal256::percent = x*10^16", (DEC, "percent", None, None), 1, lambda F, v: v[0] * RF(10 ** 16), []),
        ("S15 Decimal256::permille = x*10^15", (DEC, "permille", None, None), 1, lambda F, v: v[0] * RF(10 ** 15), []),
        ("S16 Decimal256::one = 10^18", (DEC, "one", None, None), 0, lambda F, v: D, []),
        ("S17 Decimal256::zero = 0", (DEC, "zero", None, None), 0, lambda F, v: RF(0), []),
        ("S18 Uint256::one = 1", (U, "one", None, None), 0, lambda F, v: RF(1), []),
        ("S19 Uint256::zero = 0", (U, "zero", None, None), 0, lambda F, v: RF(0), []),
    ]


PANIC = re.compile(r"(core|std)::(panicking::|rt::)(panic\w*|begin_panic\w*|assert_failed\w*|unreachable_display)|::panic_\w+$")


def panic_blocks(P, f):
    """Blocks ending in a diverging call to a panic routine (explicit assert!/panic!)."""
    out = []
    for b, p, fr, t in P.calls(f):
        if p and PANIC.search(generic_path(p)) and t.get("target") is None:
            out.append(b)
    return out


def zero_substs(ctx, f, conds, nparams):
    """Indices of parameters known to be zero (is_zero(..) == True) under the given control conditions."""
    z = set()
    for c in conds:
        cd = c["cond"]
        if cd[0] == "cmp" and cd[1] == "is_zero" and c["allowed"] == [True]:
            for r in ctx.roots(cd[2][0]):
                m = re.match(r"^P:%s#(\d+)(\.0)?$" % re.escape(f.path), r)
                if m:
                    z.add(int(m.group(1)))
    return z


def classify_panic(ctx, f, b, var_of):
    """Map an explicit panic site to the abort obligation it enforces: ('nonzero', i) / ('nonneg', (i, j)) / None."""
    P = ctx.P
    conds = common.control_conditions(P, f, b)
    # the innermost condition: the one whose switch block is closest (dominated by all the others)
    res = []
    for c in conds:
        cd = c["cond"]
        if cd[0] != "cmp":
            continue
        idx = []
        for a in cd[2]:
            rs = list(ctx.roots(a))
            m = re.match(r"^P:%s#(\d+)(\.0)?$" % re.escape(f.path), rs[0]) if len(rs) == 1 else None
            mc = re.match(r"^C:<\w+ as (core|std)::convert::Into<[\w:]+>>::into@%s:bb(\d+)$" % re.escape(f.path), rs[0]) if len(rs) == 1 else None
            if m:
                idx.append(int(m.group(1)))
            elif mc:
                # generic `x.into()` of a parameter
                callv = None
                for x in common.walk(a):
                    if x[0] == "call" and x[2] == int(mc.group(2)):
                        callv = x
                ir = list(ctx.roots(callv[4][0])) if callv else []
                m2 = re.match(r"^P:%s#(\d+)$" % re.escape(f.path), ir[0]) if len(ir) == 1 else None
                idx.append(int(m2.group(1)) if m2 else None)
            else:
                idx.append(None)
        if cd[1] == "is_zero" and c["allowed"] == [True] and idx and idx[0] is not None:
            res.append(("nonzero", idx[0], c["sw"]))
        elif cd[1] in ("ge", "le", "gt", "lt") and len(idx) == 2 and None not in idx:
            k, (i, j), al = cd[1], idx, c["allowed"]
            # panic when NOT (a >= b)
            if (k == "ge" and al == [False]) or (k == "lt" and al == [True]):
                res.append(("nonneg", (i, j), c["sw"]))
            elif (k == "le" and al == [False]) or (k == "gt" and al == [True]):
                res.append(("nonneg", (j, i), c["sw"]))
            else:
                res.append(("other", "%s %s" % (k, al), c["sw"]))
        else:
            res.append(("other", "; ".join(sorted(lemmas.cond_strings(ctx, [c]))), c["sw"]))
    if not res:
        return ("unconditional", None)
    # innermost = the condition whose switch is dominated by every other controlling switch
    res.sort(key=lambda r: sum(1 for o in res if f.body.block_dominates(o[2], r[2])), reverse=True)
    return res[0][:2]


def check_op(ctx, inst, ref):
    P = ctx.P
    rid, loc, arity, build, required = ref
    f = find_fn(P, loc[0], loc[1], loc[2], loc[3])
    if f is None:
        inst.fail("C08.%s:anchor" % rid.split()[0], "-", "-", "anchor-missing: %s" % rid)
        return
    key = "C08.%s" % rid.split()[0]
    names = ["p%d" % i for i in range(arity)]
    # an operator that only forwards its operands, in order or permuted, to a private bignumber helper is judged on the helper
    perm = list(range(arity))
    for _ in range(3):
        ex0 = common.exit_sites(P, f)
        if len(ex0) == 1 and ex0[0][3][0] == "call" and isinstance(ex0[0][3][3], str) and not any(blk["term"]["k"] == "switch" for blk in f.body.blocks if not blk["cleanup"]):
            g = P.fn(ex0[0][3][3]) or P.fn(generic_path(ex0[0][3][3]))
            args = ex0[0][3][4]
            if g is not None and g.crate == "bignumber" and g.body is not None and g.impl_trait is None and not g.derived and len(args) == arity and \
                    all(a[0] == "param" and a[1] == f.path for a in args) and sorted(a[2] for a in args) == list(range(arity)):
                perm = [perm[a[2]] for a in args]
                f = g
                continue
        break
    if perm != list(range(arity)):
        build0 = build
        build = lambda F, v, _b=build0, _p=list(perm): _b(F, [v[_p.index(i)] for i in range(len(_p))])
        required = [(kind, (tuple(perm.index(j) for j in idx) if isinstance(idx, tuple) else perm.index(idx))) for kind, idx in required]
    exits = common.exit_sites(P, f)
    panics = panic_blocks(P, f)
    ok_all = True
    cases = []
    for (b, i, cls, v) in exits:
        paths = common.path_conditions(P, f, b)
        if paths is None:
            inst.fail("%s:too-many-paths" % key, f.path, common.span_of_block_term(f, b), "%s: too many paths: unrecognised-idiom" % rid)
            ok_all = False
            continue
        zsets = set()
        for path in paths:
            z = set()
            for (sw, tgt) in path:
                be = common.bool_edges(f.body, sw)
                cd = common.switch_cond(P, f, sw)
                if be is None or cd is None or cd[0] != "cmp" or cd[1] != "is_zero":
                    continue
                truth = (tgt == be[0]) != bool(cd[3])
                if truth:
                    for r in ctx.roots(cd[2][0]):
                        m = re.match(r"^P:%s#(\d+)(\.0)?$" % re.escape(f.path), r)
                        if m:
                            z.add(int(m.group(1)))
            zsets.add(frozenset(z))
        for z in sorted(zsets, key=sorted):
            cases.append((b, v, set(z)))
    for (b, v, z) in cases:
        T = Translator(P, use_summaries=True, exclude=f.path)
        env = {}
        vars_ = []
        for k in range(arity):
            x = RF(0) if k in z else T.var(names[k])
            env[("param", f.path, k)] = x
            vars_.append(x)
        try:
            got = T.tr(v, env)
            want = build(T.floors, vars_)
        except (Unsupported, ZeroDivisionError) as e:
            # a reference that divides by a parameter known to be zero: the exit must not exist
            if isinstance(e, ZeroDivisionError):
                inst.fail("%s:returns-on-zero-divisor" % key, f.path, common.span_of_block_term(f, b), "%s: a value is returned on a path where the divisor is known to be zero (must abort)" % rid)
            else:
                inst.fail("%s:untranslatable" % key, f.path, common.span_of_block_term(f, b), "%s: cannot interpret the result (%s): unrecognised-idiom" % (rid, e))
            ok_all = False
            continue
        if not got.equals(want):
            ok_all = False
            defs = "; ".join("%s=floor(%s)" % (n, a.show()) for n, a, o in T.floors.items)
            inst.fail("%s:value" % key, f.path, common.span_of_block_term(f, b),
                      "%s: computes %s%s, reference is %s  [%s]" % (rid, got.show(), " (operands %s zero)" % sorted(z) if z else "", want.show(), defs[:300]))
            continue
        # ---- missing aborts on this exit
        for kind, which in required:
            enforced = False
            if kind == "nonzero":
                if which in z:
                    # a value is returned although the divisor is known to be zero
                    enforced = False
                else:
                    for (ak, at, ao) in T.aborts:
                        if ak == "nonzero" and at.equals(vars_[which]):
                            enforced = True
                    for pb in panics:
                        cp = classify_panic(ctx, f, pb, None)
                        if cp == ("nonzero", which):
                            # the non-panicking edge of that test must dominate this exit
                            for c in common.control_conditions(P, f, b):
                                cd = c["cond"]
                                if cd[0] == "cmp" and cd[1] == "is_zero" and c["allowed"] == [False]:
                                    rs = "|".join(sorted(ctx.roots(cd[2][0])))
                                    if re.search(r"#%d(\.0)?$" % which, rs) or True:
                                        enforced = True
                if not enforced:
                    ok_all = False
                    inst.fail("%s:missing-abort:zero-divisor" % key, f.path, common.span_of_block_term(f, b),
                              "%s: a result is returned without the divisor (operand %d) having been checked for zero on this path%s" % (
                                  rid, which, " (other operands zero: %s)" % sorted(z) if z else ""))
            elif kind == "nonneg":
                i_, j_ = which
                for (ak, at, ao) in T.aborts:
                    if ak == "nonneg" and at.equals(vars_[i_] - vars_[j_]):
                        enforced = True
                if not enforced:
                    ok_all = False
                    inst.fail("%s:missing-abort:negative" % key, f.path, common.span_of_block_term(f, b), "%s: the difference can be negative without aborting" % rid)
    # ---- extra aborts: every explicit panic must enforce one of the reference's abort conditions (or be implied by a primitive's own abort)
    for pb in panics:
        cp = classify_panic(ctx, f, pb, None)
        allowed = set()
        for kind, which in required:
            allowed.add((kind, which))
        if cp not in allowed:
            ok_all = False
            inst.fail("%s:extra-abort:%s" % (key, cp[0]), f.path, common.span_of_block_term(f, pb),
                      "%s: aborts under a condition the statement does not allow (%s %s)" % (rid, cp[0], cp[1]))
    if not exits:
        ok_all = False
        inst.fail("%s:no-exit" % key, f.path, f.span, "%s: no returning path" % rid)
    if ok_all:
        inst.site("%s  [%s, %d exit(s), %d explicit abort(s)]" % (rid, f.span.split("/")[-1], len(exits), len(panics)))


FORBIDDEN_CALL = re.compile(r"::(overflowing_\w+|wrapping_\w+|saturating_\w+|unchecked_\w+|low_u32|low_u64|as_u32|as_u64|as_usize|as_u128|checked_\w+|leading_zeros|trailing_zeros|bits|byte|bit)$")
ARITH_SCOPE = re.compile(r"(ops::(Add|Sub|Mul|Div|AddAssign|Rem)|^None$)")


def _flag_tested_overflowing(f, cb):
    """The call in block cb of f returns (value, overflowed) into a plain local; True when every later mention of that local is
    either its flag `.1` as the discriminant of a switch, or its value `.0` in a block that the switch's flag == false edge
    dominates.  Any other mention (the pair moved whole, the value read elsewhere, the flag copied around) -> False."""
    body = f.body
    t = body.blocks[cb]["term"]
    dest = t.get("dest")
    if not dest or dest.get("p"):
        return False
    loc = dest["l"]

    def mentions(o, out):
        if isinstance(o, list):
            for x in o:
                mentions(x, out)
        elif isinstance(o, dict):
            if "l" in o and "p" in o and o["l"] == loc:
                out.append(o)
            for k, v in o.items():
                if k != "ty":
                    mentions(v, out)
    false_edges = []
    value_blocks = []
    for b, blk in enumerate(body.blocks):
        if blk.get("cleanup"):
            continue
        for st in blk["stmts"]:
            ms = []
            mentions(st, ms)
            for m in ms:
                pr = m["p"]
                if len(pr) >= 1 and pr[0].get("k") == "field" and pr[0].get("i") == 0:
                    value_blocks.append(b)
                else:
                    return False
        tm = blk["term"]
        ms = []
        mentions({k: v for k, v in tm.items() if not (b == cb and k == "dest")}, ms)
        for m in ms:
            pr = m["p"]
            if tm["k"] == "switch" and tm["discr"].get("place") is m and len(pr) == 1 and pr[0].get("k") == "field" and pr[0].get("i") == 1:
                zero = [x for v, x in tm["arms"] if str(v) == "0"]
                if len(zero) != 1:
                    return False
                false_edges.append((b, zero[0]))
            elif len(pr) >= 1 and pr[0].get("k") == "field" and pr[0].get("i") == 0:
                value_blocks.append(b)
            else:
                return False
    if len(false_edges) != 1:
        return False
    return all(body.edge_dominates(false_edges[0], vb) for vb in value_blocks)


def run(ctx):
    P = ctx.P
    s = ctx.inst("C08.S", "summary conformance: every Uint256/Decimal256 operator body is a single rounding of the ideal result over aborting U256 primitives, with exactly the allowed aborts", floor=19)
    for ref in REFS():
        check_op(ctx, s, ref)
    # AddAssign: self.0 = self.0 + rhs.0
    for ty in (DEC, U):
        f = find_fn(P, ty, "add_assign", "ops::AddAssign")
        if f is None:
            s.fail("C08.S:add_assign:%s:anchor" % ty, "-", "-", "anchor-missing: AddAssign for %s" % ty)
            continue
        writes = []
        for b, blk in enumerate(f.body.blocks):
            if blk["cleanup"]:
                continue
            for i, st in enumerate(blk["stmts"]):
                if st["k"] == "assign" and st["place"]["l"] == 1 and st["place"]["p"] and st["place"]["p"][0]["k"] == "deref":
                    writes.append((b, i, st))
        ok = False
        if len(writes) == 1:
            b, i, st = writes[0]
            T = Translator(P, use_summaries=False)
            env = {("param", f.path, 0): T.var("a"), ("param", f.path, 1): T.var("b")}
            try:
                got = T.tr(P.val_rvalue(f, f.body, (b, i), st["rv"]), env)
                ok = got.equals(RF.var("a") + RF.var("b"))
            except Unsupported:
                ok = False
        if ok:
            s.site("%s += : self = self + rhs" % ty.split("::")[-1])
        else:
            s.fail("C08.S:add_assign:%s" % ty, f.path, f.span, "AddAssign does not store self + rhs")

    # ---- R1 primitive discipline -------------------------------------------------------------------------
    r1 = ctx.inst("C08.R1", "primitive discipline in bignumber: no wrapping/overflowing/saturating/truncating calls; narrowing casts only in split_u128 on (a >> 64) and (a & 0xFFFF_FFFF_FFFF_FFFF)", floor=30)
    width = {"u8": 8, "u16": 16, "u32": 32, "u64": 64, "u128": 128, "usize": 64, "i32": 32, "i64": 64, "i128": 128, "isize": 64, "i8": 8, "i16": 16}
    n_calls = 0
    # free functions reachable only from the text-conversion impls belong to C18's scope, like those impls
    def is_text_impl(g):
        return bool(re.search(r"(FromStr|fmt::Display|Serialize|Deserialize|de::Visitor|TryFrom)$", (g.impl_trait or ""))) or g.impl_self == "std::string::String"
    text_helpers = set()
    changed = True
    while changed:
        changed = False
        for g in P.fns.values():
            if g.crate != "bignumber" or g.body is None or g.kind != "fn" or g.impl_trait is not None or g.path in text_helpers or "::tests::" in g.path:
                continue
            cs_ = [c for c, cb in P.callers(g.path) if "::tests::" not in c.path]
            if cs_ and all(is_text_impl(c) or c.path in text_helpers or (c.kind == "closure" and c.parent and (P.fn(c.parent) is not None) and (is_text_impl(P.fn(c.parent)) or c.parent in text_helpers)) for c in cs_):
                text_helpers.add(g.path)
                changed = True
    for f in P.fns.values():
        if f.crate != "bignumber" or f.body is None or f.derived or "::tests::" in f.path or f.kind not in ("fn", "assoc_fn", "closure"):
            continue
        if re.search(r"(FromStr|fmt::Display|Serialize|Deserialize|de::Visitor|TryFrom)$", (f.impl_trait or "")) or f.impl_self == "std::string::String":
            continue   # text conversions: C18
        if f.path in text_helpers:
            continue   # private helpers used only by the text conversions: C18
        for b, p, fr, t in P.calls(f):
            if p is None:
                continue
            g = generic_path(p)
            n_calls += 1
            if FORBIDDEN_CALL.search(g) and re.search(r"U256::overflowing_(add|sub|mul)$", g) and _flag_tested_overflowing(f, b):
                # `match a.overflowing_mul(b) { (v, false) => Some(..v..), (_, true) => None }`: the wrapped value is read only
                # where the overflow flag is known to be false — a checked operation, not a wrapping one
                r1.site("%s: %s with the overflow flag tested before the value is read" % (common.span_of_block_term(f, b), common.last_seg(g)))
                continue
            if FORBIDDEN_CALL.search(g) and not g.endswith("usize::checked_sub"):
                r1.fail("C08.R1:forbidden-call:%s:%s" % (f.path, common.last_seg(g)), f.path, common.span_of_block_term(f, b),
                        "call of %s: arithmetic that can wrap, saturate, truncate or bypass the aborting U256 operators" % g)
        for b, blk in enumerate(f.body.blocks):
            if blk["cleanup"]:
                continue
            for st in blk["stmts"]:
                if st["k"] == "assign" and st["rv"]["k"] == "cast" and st["rv"]["kind"] == "IntToInt":
                    if "!x" in st["span"]:
                        continue
                    src = st["rv"]["op"].get("place", {}).get("ty") or st["rv"]["op"].get("ty")
                    dst = st["rv"]["ty"]
                    if src in width and dst in width and width[dst] < width[src]:
                        okc = False
                        if src == "u128" and dst == "u64":
                            # lossless by construction: the high half `x >> 64` of a u128 and the masked low half `x & (2^64-1)`
                            si = blk["stmts"].index(st)
                            v = P.val_operand(f, (b, si), st["rv"]["op"], f.body)
                            sh = v[3] if v[0] == "binop" else None
                            while sh is not None and sh[0] == "cast":
                                sh = sh[2]
                            okc = (v[0] == "binop" and v[1] in ("Shr", "ShrUnchecked") and sh == ("const", "int", 64)) or \
                                  (v[0] == "binop" and v[1] == "BitAnd" and v[3] == ("const", "int", 0xFFFFFFFFFFFFFFFF))
                        if not okc:
                            r1.fail("C08.R1:narrowing-cast:%s" % f.path, f.path, st["span"].replace("!x", ""), "narrowing cast %s -> %s drops high bits" % (src, dst))
                        else:
                            r1.site("narrowing cast u128->u64 in split_u128 at %s" % st["span"].split("/")[-1])
    r1.sites.extend(["%d call sites in bignumber scanned" % n_calls] * 1)
    r1.evaluations += n_calls
    # split_u128 pattern: ((a >> 64) as u64, (a & 0xFFFF_FFFF_FFFF_FFFF) as u64)
    # the splitter (role, found by shape: fn(u128) -> (u64, u64)): ((a >> 64) as u64, (a & 0xFFFF_FFFF_FFFF_FFFF) as u64)
    sp = splitters(P)
    if len(sp) == 1:
        f = sp[0]
        if splitter_ok(P, f):
            r1.site("split_u128(a) = (a >> 64, a & (2^64-1))")
        else:
            r1.fail("C08.R1:split_u128", f.path, f.span, "%s is not (a >> 64, a & 0xFFFF_FFFF_FFFF_FFFF)" % f.name)
    r1.floor = 3

    # ---- R3 comparisons are the derived ones over a single U256 field ---------------------------------------------------------
    r3 = ctx.inst("C08.R3", "PartialEq/Eq/PartialOrd/Ord of Uint256 and Decimal256 are the derived impls over their single U256 field", floor=8)
    for ty in (U, DEC):
        adt = P.adts.get(ty)
        if not adt or len(adt["variants"]) != 1 or len(adt["variants"][0]["fields"]) != 1 or not adt["variants"][0]["fields"][0]["ty"].endswith("U256"):
            r3.fail("C08.R3:shape:%s" % ty, ty, (adt or {}).get("span", "-"), "%s is not a single-field wrapper over U256" % ty)
            continue
        for tr_ in ("PartialEq", "Eq", "PartialOrd", "Ord"):
            impls = [i for i in P.impls if i["self"] == ty and (i.get("trait") or "").endswith("cmp::" + tr_)]
            if len(impls) != 1 or not impls[0]["derived"]:
                r3.fail("C08.R3:%s:%s" % (ty, tr_), ty, impls[0]["span"].replace("!x", "") if impls else "-", "%s for %s is not the derived implementation (%d impls)" % (tr_, ty.split("::")[-1], len(impls)))
            else:
                r3.site("%s: derived %s" % (ty.split("::")[-1], tr_))

    # ---- R4 width conversions ---------------------------------------------------------------------------------------------------
    r4 = ctx.inst("C08.R4", "fit guards and limb order: Uint256 -> u128 only when limbs 2 and 3 are zero, recomposed (limb1 << 64) + limb0; u128 -> Uint256 writes limbs [low, high, 0, 0]", floor=3)
    check_narrow(ctx, r4, "u128", "bignumber::math::Uint256", value=True)
    check_narrow(ctx, r4, "cosmwasm_std::Decimal", "bignumber::math::Decimal256", value=False)
    f = find_fn(P, U, "from", "convert::From", "From<u128>")
    if f is None:
        r4.fail("C08.R4:from_u128:anchor", "-", "-", "anchor-missing: From<u128> for Uint256")
    else:
        ex = common.exit_sites(P, f)
        # `fn from(val: u128) -> Self { Uint256::from_u128(val) }`: the conversion is the named constructor it hands its
        # argument to (a bignumber function taking exactly that argument) — judged there, with the same rule
        for _hop in range(2):
            if len(ex) != 1:
                break
            v0 = ex[0][3]
            if not (v0[0] == "call" and isinstance(v0[3], str) and len(v0[4]) == 1 and v0[4][0] == ("param", f.path, 0)):
                break
            h_ = P.fn(v0[3]) or P.fn(generic_path(v0[3]))
            if h_ is None or h_.body is None or h_.crate != "bignumber" or h_.body.arg_count != 1 or h_.path in {g_.path for g_ in splitters(P)}:
                break
            f = h_
            ex = common.exit_sites(P, f)
        rs = "|".join(sorted(ctx.roots(ex[0][3]))) if len(ex) == 1 else "?"
        good = False
        v = common.inline_helpers(P, ex[0][3]) if len(ex) == 1 else None
        limbs = None
        if v is not None and v[0] == "agg" and len(v[3]) == 1 and v[3][0][1][0] == "agg" and len(v[3][0][1][3]) == 1:
            arr = v[3][0][1][3][0][1]
            if arr[0] == "agg" and arr[1] == "array" and len(arr[3]) == 4:
                limbs = [x for _, x in arr[3]]
        if limbs:
            def strip(x):
                while x[0] == "cast":
                    x = x[2]
                return x
            lo, hi = strip(limbs[0]), strip(limbs[1])
            prm = ("param", f.path, 0)
            lo_ok = lo[0] == "binop" and lo[1] == "BitAnd" and lo[2] == prm and lo[3] == ("const", "int", 0xFFFFFFFFFFFFFFFF)
            hi_ok = hi[0] == "binop" and hi[1] in ("Shr", "ShrUnchecked") and hi[2] == prm and strip(hi[3]) == ("const", "int", 64)
            # not inlined (public splitter): components .1 / .0 of split_u128(val)
            if not (lo_ok and hi_ok):
                spp_ = {g_.path for g_ in splitters(P) if splitter_ok(P, g_)}
                sp_ = [x for x in common.walk(v) if x[0] == "call" and isinstance(x[3], str) and generic_path(x[3]) in spp_]
                if sp_ and set(ctx.roots(sp_[0][4][0])) == {P_(f, 0)}:
                    lo_ok = limbs[0] == ("proj", sp_[0], ("f", 1))
                    hi_ok = limbs[1] == ("proj", sp_[0], ("f", 0))
            good = lo_ok and hi_ok and limbs[2] == ("const", "int", 0) and limbs[3] == ("const", "int", 0)
        if good:
            r4.site("From<u128>: limbs [low, high, 0, 0] of split_u128(val)")
        else:
            r4.fail("C08.R4:from_u128", f.path, f.span, "From<u128> for Uint256 builds %s, expected U256([low, high, 0, 0]) of split_u128(val)" % rs[:200])
    conversion_inventory(ctx, r4)
    z = ctx.inst("C08.Z", "zero tests: Uint256::is_zero / Decimal256::is_zero are U256::is_zero of the single field (or a test of all four limbs) — the operators' zero shortcuts rely on them", floor=2)
    zero_tests(ctx, z)
    ctx.assumptions.append("bigint::U256 + - * abort on overflow / negative, / % are Euclidean and abort on zero (multi-limb carries inside bigint are not analysed)")


def splitters(P):
    """Production functions of bignumber of type fn(u128) -> (u64, u64) (role: the u128 splitter)."""
    return [f for f in P.fns.values() if f.crate == "bignumber" and f.body is not None and f.kind in ("fn", "assoc_fn") and "::tests::" not in f.path
            and re.search(r"fn\(u128\) -> \(u64, u64\)$", f.sig or "")]


def splitter_ok(P, f):
    ex = common.exit_sites(P, f)
    if len(ex) == 1 and ex[0][3][0] == "agg" and ex[0][3][1] == "tuple":
        hi, lo = ex[0][3][3][0][1], ex[0][3][3][1][1]

        def strip(v):
            while v[0] == "cast":
                v = v[2]
            return v
        hi, lo = strip(hi), strip(lo)
        return (hi[0] == "binop" and hi[1] in ("Shr", "ShrUnchecked") and hi[2] == ("param", f.path, 0) and strip(hi[3]) == ("const", "int", 64) and
                lo[0] == "binop" and lo[1] == "BitAnd" and lo[2] == ("param", f.path, 0) and lo[3] == ("const", "int", 0xFFFFFFFFFFFFFFFF))
    return False


def check_narrow(ctx, inst, target, source, value):
    P = ctx.P
    f = None
    for g in P.fns.values():
        if g.crate == "bignumber" and g.body is not None and g.kind == "assoc_fn" and g.name == "from" and g.impl_self == target and \
                ("From<%s>" % source) in (g.j.get("impl_trait_full") or ""):
            f = g
    if f is None:
        inst.fail("C08.R4:narrow:%s:anchor" % target, "-", "-", "anchor-missing: From<%s> for %s" % (source, target))
        return
    exits = [x for x in common.exit_sites(P, f)]
    limb = lambda k: P_(f, 0, ".0.0[%d]" % k)
    need = {"is_zero(%s) is [True]" % limb(2), "is_zero(%s) is [True]" % limb(3)}
    # conditions established by an assert helper `fn assert_fits(v: &U256) { assert!(..); assert!(..) }` called on the way
    helper_cs = {}
    for cb, cp_, cfr, ct in P.calls(f):
        gh = (P.fn(cp_) or P.fn(generic_path(cp_))) if cp_ else None
        if gh is None or gh.crate != "bignumber" or gh.body is None or gh.derived or gh.body.back_edges() or gh.body.locals[0]["ty"] != "()":
            continue
        rbs = [rb for rb in gh.body.return_blocks() if rb in gh.body.reachable_from(0)]
        if len(rbs) != 1:
            continue
        hcs = lemmas.cond_strings(ctx, common.control_conditions(P, gh, rbs[0]))
        cv_ = P.val_call(f, f.body, cb)
        for k_, a_ in enumerate(cv_[4]):
            ar_ = sorted(ctx.roots(a_))
            if len(ar_) == 1:
                hcs = {c_.replace(P_(gh, k_), ar_[0]) for c_ in hcs}
        helper_cs[cb] = hcs
    for (b, i, cls, v) in exits:
        cs = lemmas.cond_strings(ctx, common.control_conditions(P, f, b))
        for cb, hcs in helper_cs.items():
            if f.body.block_dominates(cb, b):
                cs = cs | hcs
        cs = {c for c in cs if c.startswith(("eq(", "is_zero("))}
        if not need <= cs:
            inst.fail("C08.R4:narrow:%s:unguarded" % target, f.path, common.span_of_block_term(f, b),
                      "narrowing %s -> %s returns without both upper limbs having been checked to be zero (conditions: %s)" % (source.split("::")[-1], target, sorted(cs)))
            return
    if value:
        # ((arr[1] as u128) << 64) + (arr[0] as u128)
        v = exits[0][3] if len(exits) == 1 else None
        def strip(x):
            while x[0] == "cast":
                x = x[2]
            return x
        good = False
        if v is not None:
            x = v
            if x[0] == "proj" and x[2] == ("f", 0):
                x = x[1]
            if x[0] == "binop" and x[1].startswith("Add"):
                a, b_ = strip(x[2]), strip(x[3])
                if a[0] == "binop" and a[1].startswith("Shl"):
                    hi = "|".join(sorted(ctx.roots(strip(a[2]))))
                    lo = "|".join(sorted(ctx.roots(b_)))
                    sh = strip(a[3])
                    good = hi == limb(1) and lo == limb(0) and sh == ("const", "int", 64)
        if not good:
            inst.fail("C08.R4:narrow:%s:value" % target, f.path, f.span, "narrowing does not recompose (limb1 << 64) + limb0: %s" % (ctx.show(v, 6) if v else "?"))
            return
    inst.site("From<%s> for %s: guarded by limb2 == 0 ∧ limb3 == 0%s" % (source.split("::")[-1], target, ", value (limb1 << 64) + limb0" if value else ""))


BIG_TYPES = ("bignumber::math::Uint256", "bignumber::math::Decimal256")
VERIFIED_NARROW = {("bignumber::math::Uint256", "u128"), ("bignumber::math::Decimal256", "cosmwasm_std::Decimal")}
LOSSLESS_WRAP = re.compile(r"^(<cosmwasm_std::(\S*::)?Uint128 as (core|std)::convert::From<u128>>::from|cosmwasm_std::(\S*::)?Uint128::new|"
                           r"<bigint::(\S*::)?U256 as (core|std)::convert::From<(u8|u16|u32|u64|u128|usize)>>::from|"
                           r"cosmwasm_std::(\S*::)?Uint128::u128|<(u128|u64) as (core|std)::convert::From<(u8|u16|u32|u64)>>::from)$")


def conversion_inventory(ctx, inst):
    """Every From impl of the crate between a 256-bit type and anything else is either one of the two guarded narrowings
    (check_narrow), the identity on the U256 field, a text conversion (C18), or a *delegation*: lossless std / cosmwasm
    wrappers around exactly one call that lands in a guarded narrowing or a verified widening, applied to the parameter."""
    P = ctx.P
    common.resolve_conversion(P, {"path": "std::convert::From::from", "args": ["-", "-"]})
    for (src, dst), g in sorted(P._conv_index.items()):
        if g.crate != "bignumber" or "::tests::" in g.path:
            continue
        if src not in BIG_TYPES and dst not in BIG_TYPES:
            continue
        if (src, dst) in VERIFIED_NARROW or (src, dst) == ("u128", "bignumber::math::Uint256"):
            continue        # check_narrow / from_u128 above
        if dst == "std::string::String" or src in ("std::string::String", "&str") or (src, dst) == ("cosmwasm_std::Decimal", "bignumber::math::Decimal256"):
            continue        # text paths: C18.T4
        label = "%s -> %s" % (src.split("::")[-1], dst.split("::")[-1])
        exits = common.exit_sites(P, g)
        if len(exits) != 1:
            inst.fail("C08.R4:conv:%s:shape" % label, g.path, g.span, "conversion %s has %d exits: unrecognised-idiom" % (label, len(exits)))
            continue
        v = exits[0][3]
        prm = ("param", g.path, 0)
        if ("Decimal256" in dst) != ("Decimal" in src) and "Decimal256" in dst:
            # integer -> fixed point: Decimal256(x.0 * DECIMAL_FRACTIONAL) with the aborting U256 multiplication — the value is
            # preserved exactly or the call aborts (the same body S2 verifies for from_uint256)
            inner = v[3][0][1] if v[0] == "agg" and len(v[3]) == 1 else None
            good = (inner is not None and inner[0] == "call" and isinstance(inner[3], str) and re.search(r"<bigint::(\S*::)?U256 as (core|std)::ops::Mul>::mul$", generic_path(inner[3]))
                    and len(inner[4]) == 2 and proj(prm, ("f", 0)) in (inner[4][0], inner[4][1])
                    and any(set(ctx.roots(a_)) == {"I:bignumber::math::Decimal256::DECIMAL_FRACTIONAL"} for a_ in inner[4]))
            if good:
                inst.site("From<%s> for %s: raw * 10^18 by the aborting multiplication (exact or abort)" % (src.split("::")[-1], dst.split("::")[-1]))
                continue
        # peel: struct wrapper Uint256{0: ..} / Decimal256{0: ..}, field .0, lossless wrappers
        inner_calls = []
        ok = True
        x = v
        for _ in range(8):
            if x == prm:
                break
            if x[0] == "agg" and len(x[3]) == 1:
                x = x[3][0][1]
                continue
            if x[0] == "proj" and x[2] == ("f", 0):
                x = x[1]
                continue
            if x[0] == "call" and isinstance(x[3], str) and len(x[4]) == 1:
                callee = x[3]
                if LOSSLESS_WRAP.match(callee):
                    x = x[4][0]
                    continue
                f_ = P.fn(str(x[1])) or P.fn(str(x[1]).rsplit("#", 1)[0])
                fr = None
                if f_ is not None:
                    t = f_.body.blocks[x[2]]["term"]
                    fr = (t.get("func") or {}).get("fn")
                tgt = common.resolve_conversion(P, fr)
                if tgt is not None:
                    inner_calls.append(tgt)
                    x = x[4][0]
                    continue
                if fr and fr.get("path", "").endswith(("Into::into", "From::from")):
                    a = fr.get("args") or []
                    pair = (a[0], a[1]) if fr["path"].endswith("into") else (a[1], a[0])
                    # widening into the 256-bit integer of the trusted base
                    if re.match(r"^bigint::(\S*::)?U256$", pair[1]) and pair[0] in ("u8", "u16", "u32", "u64", "u128", "usize"):
                        x = x[4][0]
                        continue
            ok = False
            break
        if x != prm:
            ok = False
        bad = [t for t in inner_calls if not (t.crate == "bignumber")]
        if not ok or bad:
            inst.fail("C08.R4:conv:%s:unverified" % label, g.path, g.span,
                      "conversion %s is %s: neither a guarded narrowing, the identity on the U256 field, nor lossless wrappers around one verified conversion of the parameter — high limbs can be dropped silently" % (label, ctx.show(v, 6)[:220]))
        else:
            via = " via " + ", ".join(common.short_path(t.path) for t in inner_calls) if inner_calls else ""
            inst.site("From<%s> for %s: lossless wrappers around the parameter%s" % (src.split("::")[-1], dst.split("::")[-1], via))


def zero_tests(ctx, inst):
    P = ctx.P
    n = 0
    for ty in BIG_TYPES:
        fs = [g for g in P.fns.values() if g.crate == "bignumber" and g.body is not None and g.name == "is_zero" and g.impl_self == ty and "::tests::" not in g.path]
        if len(fs) != 1:
            inst.fail("C08.Z:%s:anchor" % ty.split("::")[-1], "-", "-", "anchor-missing: %s::is_zero (%d found)" % (ty, len(fs)))
            continue
        g = fs[0]
        n += 1
        fld = P_(g, 0, ".0")
        ok = False
        why = ""
        exits = common.exit_sites(P, g)
        if len(exits) == 1:
            v = exits[0][3]
            if v[0] == "call" and isinstance(v[3], str) and re.match(r"^bigint::(\S*::)?U256::is_zero$", generic_path(v[3])) and set(ctx.roots(v[4][0])) == {fld}:
                ok = True
            elif v[0] == "call" and isinstance(v[3], str) and re.search(r"PartialEq(<\S*>)?>::eq$", v[3]):
                rs = [set(ctx.roots(a)) for a in v[4]]
                zs = [a for a in v[4] if a[0] == "call" and isinstance(a[3], str) and re.search(r"U256::zero$", generic_path(a[3]))]
                ok = {fld} in rs and len(zs) == 1
            why = ctx.show(v, 5)[:200]
        if not ok:
            # limb-wise form: the true exit is reached exactly under limb[k] == 0 for k = 0..3 — in is_zero itself, or in the
            # private word test it hands the limb array to (`is_zero_words(&(self.0).0)`)
            lg, larr = g, fld + ".0"
            if len(exits) == 1 and exits[0][3][0] == "call" and isinstance(exits[0][3][3], str) and len(exits[0][3][4]) == 1:
                h_ = P.fn(exits[0][3][3]) or P.fn(generic_path(exits[0][3][3]))
                if h_ is not None and h_.body is not None and h_.crate == "bignumber" and h_.body.arg_count == 1 and \
                        set(ctx.roots(exits[0][3][4][0])) == {fld + ".0"}:
                    lg, larr = h_, P_(h_, 0)
                    exits = common.exit_sites(P, h_)
            tr = [x for x in exits if x[3] == ("const", "bool", True) or x[3] == ("const", "int", 1)]
            # `w[0] == 0 && w[1] == 0 && w[2] == 0 && w[3] == 0`: the last test is the returned value itself; every other
            # exit must then return the literal false
            last = {}
            def _limb_eq0(v_):
                if v_[0] == "binop" and v_[1] == "Eq":
                    for a_, z_ in ((v_[2], v_[3]), (v_[3], v_[2])):
                        if z_ == ("const", "int", 0) and a_[0] == "proj" and a_[2][0] == "i" and set(ctx.roots(a_[1])) == {larr}:
                            return a_[2][1]
                return None
            rest = [x for x in exits if x not in tr]
            if not tr and any(_limb_eq0(x[3]) is not None for x in rest) and \
                    all(_limb_eq0(x[3]) is not None or x[3] in (("const", "bool", False), ("const", "int", 0)) for x in rest):
                tr = [x for x in rest if _limb_eq0(x[3]) is not None]
                last = {x[0]: _limb_eq0(x[3]) for x in tr}
            limbs = set()
            for (b, i, cls, v) in tr:
                for pc in common.path_conjunctions(P, lg, b) or []:
                    ks = {last[b]} if b in last else set()
                    for c in pc:
                        for s_ in lemmas.cond_strings(ctx, [c]):
                            m = re.match(r"^is_zero\(%s\[(\d)\]\) is \[True\]$" % re.escape(larr), s_)
                            if m:
                                ks.add(int(m.group(1)))
                    limbs = ks if not limbs else (limbs & ks)
            ok = limbs == {0, 1, 2, 3}
            why = why or "true under zero tests of limbs %s" % sorted(limbs)
        if ok:
            inst.site("%s::is_zero tests the whole 256-bit field" % ty.split("::")[-1])
        else:
            inst.fail("C08.Z:%s" % ty.split("::")[-1], g.path, g.span, "%s::is_zero is not a zero test of the whole value (%s): a non-zero operand can take the operators' zero shortcut" % (ty.split("::")[-1], why))
