"""C20 — liquidity can always be withdrawn (DESIGN §5 C20)."""
import re
from .. import common, roles, lemmas, numeric, eround
from ..eround import RF, Unsupported, D18, nonneg
from ..roles import P_, param, INFO_TY, ENV_TY, AnchorMissing
from ..mir import generic_path
from . import c04, c08

# categories of abort-capable callees allowed on the withdraw path, with the reason they cannot fire under the property's precondition
ALLOWED = [
    ("storage-load", re.compile(r"^cw_storage_plus::(item::)?Item::load$"), "PAIR_INFO exists after instantiation"),
    ("address", re.compile(r"^cosmwasm_std::(\S*::)?Api::addr_(canonicalize|humanize|validate)$"), "stored canonical addresses / the cw20 envelope's sender are valid addresses"),
    ("query", "QUERY_ROLES", "balance / supply queries of live contracts"),
    ("serialize", re.compile(r"^cosmwasm_std::(\S*::)?(to_binary|wasm_execute)$"), "serialising plain message structs"),
    ("decode", re.compile(r"^cosmwasm_std::(\S*::)?from_binary$"), "the hook message decoded to WithdrawLiquidity on this path"),
    ("transfer-ctor", None, "the payout constructor (its own sites are classified too)"),
    ("handler", None, "the withdraw handler itself"),
]
QUERY_ROLES = ("query_pools", "query_pool", "q_token_info", "q_token_balance", "q_balance", "info_to_normal")
QUERY_STD = re.compile(r"^cosmwasm_std::(\S*::)?QuerierWrapper::(query|query_wasm_smart|query_balance|query_all_balances)$")
ARITH = re.compile(r"(bignumber::|<cosmwasm_std::(\S*::)?(Uint128|Uint256|Uint64|Decimal|Decimal256) as (core|std)::ops::(Add|Sub|Mul|Div|Rem|Shl|Shr|AddAssign|SubAssign|MulAssign|DivAssign)"
                   r"|cosmwasm_std::(\S*::)?(Decimal|Uint128|Uint256|Decimal256)::(from_ratio|multiply_ratio|pow|sqrt|inv|checked_\w+|from_atomics)\b"
                   r"|impl (core|std)::ops::(Mul|Div)<cosmwasm_std::\S*> for cosmwasm_std::|integer_sqrt)")
HARMLESS = re.compile(r"(as (core|std)::convert::(From|Into)<(cosmwasm_std::\S*Uint128|u128|u64|u32|u8|bigint::\S*U256)>>::(from|into)$|::(zero|one|is_zero|u128|to_string|fmt|clone|eq|ne|cmp|partial_cmp|lt|le|gt|ge|default)$)")
PANICKY = re.compile(r"(::option::Option::(unwrap|expect)$|::result::Result::(unwrap|expect|unwrap_err|expect_err)$)")


def abort_sites(P, fn, blocks=None):
    """[(bb, kind, detail)] for every construct of fn that can end the call unsuccessfully."""
    out = []
    body = fn.body
    for b, p, fr, t in P.calls(fn):
        if blocks is not None and b not in blocks:
            continue
        g = generic_path(p) if p else "dyn"
        if p and c08.PANIC.search(g) and t.get("target") is None:
            out.append((b, "panic", g))
            continue
        if p and PANICKY.search(g):
            out.append((b, "unwrap", g))
            continue
        if p and common.is_try_branch(p):
            continue
        if p and re.search(r"result::Result(::<[^>]*>)?::(map_err|map)$", g):
            continue        # re-labels an existing error / maps the success value: the failing call itself is classified
        if p and re.search(r"iter::(traits::iterator::)?Iterator::collect$", g):
            continue        # collect::<Result<_, _>>() only forwards the first error of the mapped closure, which is on the path itself
        pg = common.propagated(P, fn, b)
        if pg is not None:
            out.append((b, "propagated", g))
    for b, blk in enumerate(body.blocks):
        if blk["cleanup"] or (blocks is not None and b not in blocks):
            continue
        t = blk["term"]
        if t["k"] == "assert" and "!x" not in t["span"]:
            out.append((b, "assert", t["msg"]))
    for (b, i, cls, v) in common.exit_sites(P, fn):
        if blocks is not None and b not in blocks:
            continue
        if cls == "err" and v[0] == "agg":
            out.append((b, "explicit-err", common.show(v, maxdepth=3)))
    return out


def poly_bits(rf, bits):
    """Conservative bit-width bound of a polynomial term with non-negative atoms of known width."""
    if not rf.is_poly():
        return None
    tot = 0
    worst = 0
    for m, c in rf.n.t.items():
        w = 0
        for a, e in m:
            if a not in bits:
                return None
            w += bits[a] * e
        import math
        w += max(0, math.ceil(math.log2(abs(c.numerator) + 1))) if c.denominator == 1 else 0
        if c.denominator != 1:
            # division by a constant only lowers the bound
            w += 0
        worst = max(worst, w)
        tot += 1
    import math
    return worst + (math.ceil(math.log2(tot)) if tot > 1 else 0)


def _run(ctx):
    P = ctx.P
    a1 = ctx.inst("C20.A1", "abort-site closure of Receive -> WithdrawLiquidity arm -> withdraw handler -> transfer constructor: every site is in an allowed category", floor=12)
    a1n = ctx.inst("C20.A1N", "numeric aborts on the path are discharged: zero divisor only for S (>= a >= 1), every bounded product fits (<= an input or 10^18)", floor=3)
    a2 = ctx.inst("C20.A2", "state independence: the path reads only PAIR_INFO, balances and the LP supply — no flag, counter, time or height", floor=2)
    n1 = ctx.inst("C20.N1", "non-zero refunds: entitlement r*a/S >= r/10^18 + 2 implies x >= 1 (no zero-amount transfer)", floor=2)
    try:
        wd = c04.Withdraw(ctx)
    except (AnchorMissing, Unsupported) as e:
        for r in (a1, a1n, a2, n1):
            r.fail("%s:anchor" % r.id, "-", "-", "anchor-missing: %s" % e)
        return
    pr, w, tc, T = wd.pr, wd.w, wd.tc, wd.T
    recv, edge, region, h, callbb = pr.withdraw_hook
    # blocks of the Receive handler on the way to the withdraw arm: everything that can reach the handler call
    to_call = {b for b in range(len(recv.body.blocks)) if callbb in recv.body.reachable_from(b)}
    fns = [(recv, to_call, "receive"), (w, None, "withdraw handler"), (tc, None, "transfer constructor")]
    # helpers on the path
    seen = {recv.path, w.path, tc.path}
    todo = [w, tc]
    # effect-free workspace helpers the Receive handler calls on the way to the arm (a sender classifier, an address validator)
    for b, p, fr, t in P.calls(recv):
        if b in to_call and b != callbb and roles.is_workspace_fn(P, p):
            g = P.fn(p) or P.fn(generic_path(p))
            if g is not None and g.path not in seen and common._effect_free(P, g, 0) and not roles.effects(P, g) and common.check_helper(P, g) is None:
                seen.add(g.path)
                fns.append((g, None, "helper"))
                todo.append(g)
    while todo:
        f = todo.pop()
        for b, p, fr, t in P.calls(f):
            if roles.is_workspace_fn(P, p):
                g = P.fn(p) or P.fn(generic_path(p))
                if g.path not in seen:
                    seen.add(g.path)
                    fns.append((g, None, "helper"))
                    todo.append(g)
    # closures of the path functions run on the path too (e.g. the closure mapping refunds to payouts)
    for f_, blocks_, role_ in list(fns):
        for g_ in P.fns.values():
            if g_.kind == "closure" and g_.parent == f_.path and g_.body is not None and blocks_ is None and g_.path not in seen:
                seen.add(g_.path)
                fns.append((g_, None, role_ + " closure"))
    helper_paths = {f.path for f, _, role in fns}
    for f, blocks, role in fns:
        for (b, kind, detail) in abort_sites(P, f, blocks):
            where = common.span_of_block_term(f, b)
            ok = None
            if kind == "propagated":
                for name, rx, why in ALLOWED:
                    if rx == "QUERY_ROLES":
                        if QUERY_STD.match(detail) or any(ctx.N.is_fn(detail, r_) for r_ in QUERY_ROLES):
                            ok = name
                    elif rx is not None and rx.match(detail):
                        ok = name
                if detail in helper_paths or generic_path(detail) in helper_paths:
                    ok = "path-function"
                chf = P.fn(detail) or P.fn(generic_path(detail))
                if chf is not None and common.check_helper(P, chf) is not None:
                    ok = "check-helper"      # a one-condition `check(..)?`: its condition is judged with the other conditions of the path
                if re.match(r"^cosmwasm_std::(\S*::)?Uint128::checked_\w+$", detail):
                    ok = None
            elif kind == "explicit-err":
                # the LP-token-only guard in the Receive handler, and decode failure
                if f.path == recv.path:
                    ok = "guard"      # which conditions may lead to a rejection in the arm is decided by the arm-condition rule below
                if role == "helper" and "generic_err" in detail:
                    ok = None
                if ok is None and f.path == w.path:
                    # a rejection that cannot meet an entitled holder: the statement is about amounts a > 0 up to the
                    # holder's balance, and a balance never exceeds the supply (cw20-base) — `a == 0` and `supply < a`
                    amt_i = common.param_index_of_type(w, r"^cosmwasm_std::\S*Uint128$")
                    cs_ = lemmas.cond_strings(ctx, common.control_conditions(P, w, b))
                    if amt_i is not None:
                        AMT = P_(w, amt_i)
                        if "is_zero(%s) is [True]" % AMT in cs_:
                            ok = "zero amount (outside the statement: a > 0)"
                        for c_ in cs_:
                            m_ = re.match(r"^lt\(C:(\S+)@%s:bb(\d+)\.total_supply, %s\)$" % (re.escape(w.path), re.escape(AMT)), c_)
                            if m_ and ctx.N.is_fn(m_.group(1), "q_token_info"):
                                qv_ = P.val_call(w, w.body, int(m_.group(2)))
                                if any(set(ctx.roots(a_)) == {"human(load(%s).liquidity_token)" % ctx.N.PAIR_INFO} for a_ in qv_[4]):
                                    ok = "amount above the LP supply (a <= balance <= supply)"
            elif kind == "assert":
                if detail == "bounds":
                    # constant index 0/1 into the 2-element refund vector is checked by C04.R3 (indices [0,1] of a map over [Asset; 2])
                    ok = "bounds(2-element)"
                else:
                    ok = None
            elif kind in ("panic", "unwrap"):
                ok = None
            if ok:
                a1.site("%s: %s %s [%s] at %s" % (role, kind, common.short_path(detail) if kind == "propagated" else detail[:60], ok, where.split("/")[-1]))
            else:
                a1.fail("C20.A1:%s:%s:%s" % (f.path, kind, (generic_path(detail) if kind == "propagated" else detail)[:80]), f.path, where,
                        "%s: a new way to fail on the withdraw path — %s %s — is not in the table of aborts that cannot fire for an entitled holder" % (role, kind, detail[:160]))
    # ---- the arm itself: the handler call is conditioned on nothing but "hook decodes to WithdrawLiquidity" and
    #      "the caller is the LP token" — any further condition (a whitelist, a flag, a threshold) can refuse an entitled holder
    info_i = param(recv, INFO_TY)
    lp_guard = "eq(canon(%s), load(%s).liquidity_token) is [True]" % (P_(recv, info_i, ".sender"), ctx.N.PAIR_INFO)
    for c in common.control_conditions(P, recv, callbb):
        cs_ = lemmas.cond_strings(ctx, [c])
        txt = sorted(cs_)[0] if cs_ else "?"
        cd = c["cond"]
        if cd[0] == "discr" and (c["allowed"] in (["Continue"], ["Ok"]) or "WithdrawLiquidity" in c["allowed"]):
            continue     # `?` propagation (classified above) and the decode / variant match
        if txt == lp_guard:
            a1.site("receive: LP-token-only guard [guard] at %s" % common.span_of_block_term(recv, c["sw"]).split("/")[-1])
            continue
        a1.fail("C20.A1:extra-condition:%s" % txt[:120], recv.path, common.span_of_block_term(recv, c["sw"]),
                "the withdraw arm is additionally conditioned on {%s}: a holder of LP tokens for whom it is false is refused" % txt[:240])
    # ---- arithmetic on the path that is not part of the refund computation ---------------------------------------
    # every abort-capable arithmetic call (bignumber operators / constructors, cosmwasm Uint128 / Decimal operators) on the
    # path must be one the refund translation interpreted — its aborts are then discharged below; anything else (e.g. a
    # reserve-product "sanity check" in a shared helper) can abort on reserves the holder does not control
    visited = set(T.visited_calls)
    for f, blocks, role in fns:
        for b, p, fr_, t_ in P.calls(f):
            if blocks is not None and b not in blocks:
                continue
            if not p or not ARITH.search(p) or HARMLESS.search(p):
                continue
            if (f.path, b) in visited:
                continue
            a1n.fail("C20.A1N:unaccounted-arithmetic:%s:%s" % (f.path, common.short_path(generic_path(p))[:60]), f.path, common.span_of_block_term(f, b),
                     "%s: %s can abort (overflow / zero divisor) and is not part of the refund computation whose bounds are proved: "
                     "the withdrawal can fail on reserves or supplies the holder does not control" % (role, common.short_path(p)[:120]))
    # ---- numeric aborts -------------------------------------------------------------------------------------------
    for cb, why in wd.problems:
        a1n.fail("C20.A1N:shape", w.path, common.span_of_block_term(w, cb), why)
    wv = RF.var("w")
    bits = {"a": 128, "S": 128}
    for k in wd.refunds:
        bits["r%d" % k] = 128
    for (kind, term, org) in T.aborts:
        desc = "%s(%s) from %s" % (kind, term.show()[:80], org)
        if kind == "nonzero":
            if term.equals(wd.S):
                a1n.site("zero divisor only for S, and S >= a >= 1 [%s]" % org.split(" at ")[0])
            else:
                a1n.fail("C20.A1N:zero-divisor:%s" % org.split(" at ")[0], w.path, w.span, "division by %s can abort: not the LP supply" % term.show()[:100])
        elif kind == "fits128":
            ok = False
            cands = [RF(D18), wd.a, wd.S] + [wd.refunds[k][5] for k in wd.refunds]
            for U in cands:
                vd = nonneg(T.floors, U - term, subst=[("S", wd.a + wv)])
                a1n.evaluations += vd.evaluations
                if vd.ok:
                    ok = True
                    a1n.site("%s <= %s for 1 <= a <= S (fits 128 bits) [%s]" % (term.show()[:60], U.show(), org.split(" at ")[0]))
                    break
            if not ok:
                a1n.fail("C20.A1N:overflow128:%s" % org.split(" at ")[0], w.path, w.span,
                         "%s is not bounded by any 128-bit input for 1 <= a <= S: the withdrawal can abort on reserves / supplies the holder does not control (e.g. after a donation)" % desc)
        elif kind == "fits256":
            e_rf, eps = T.floors.expand(term)
            for e in eps:
                e_rf = e_rf.subst(e, RF(0))
            nb = poly_bits(e_rf, bits)
            if nb is not None and nb <= 256:
                a1n.site("%s needs at most %d bits [%s]" % (term.show()[:60], nb, org.split(" at ")[0]))
            else:
                a1n.fail("C20.A1N:overflow256:%s" % org.split(" at ")[0], w.path, w.span,
                         "%s can exceed 256 bits (%s bits for 128-bit reserves and amounts): the withdrawal aborts for large pools / holders" % (desc, nb))
        elif kind == "nonneg":
            vd = nonneg(T.floors, term, subst=[("S", wd.a + wv)])
            if vd.ok:
                a1n.site("%s >= 0 [%s]" % (term.show()[:60], org.split(" at ")[0]))
            else:
                a1n.fail("C20.A1N:negative:%s" % org.split(" at ")[0], w.path, w.span, "%s can be negative for 1 <= a <= S (aborting subtraction on the withdraw path)" % desc)
    # ---- A2 ---------------------------------------------------------------------------------------------------------------
    items = set()
    for f, blocks, role in fns:
        for (b, op, item, v) in common.storage_sites(P, f, writes=False) + common.storage_sites(P, f, writes=True):
            if blocks is None or b in blocks:
                items.add((item, op))
    bad = [x for x in items if x[0] != ctx.N.PAIR_INFO]
    if bad:
        a2.fail("C20.A2:storage:%s" % sorted(bad)[0][0], w.path, w.span, "the withdraw path touches storage other than PAIR_INFO: %s" % sorted(bad))
    else:
        a2.site("storage on the path: %s" % sorted(items))
    blockuse = []
    for f, blocks, role in fns:
        for b, blk in enumerate(f.body.blocks):
            if blk["cleanup"] or (blocks is not None and b not in blocks):
                continue
            for st in blk["stmts"]:
                if st["k"] == "assign":
                    s_ = str(st["rv"])
                    if "'name': 'block'" in s_ or "'name': 'transaction'" in s_:
                        blockuse.append((f, st["span"]))
    if blockuse:
        f, sp = blockuse[0]
        a2.fail("C20.A2:env-block:%s" % f.path, f.path, sp.replace("!x", ""), "the withdraw path reads env.block / env.transaction (time or height dependence)")
    else:
        a2.site("no read of env.block / env.transaction on the path")
    # ---- N1 ------------------------------------------------------------------------------------------------------------------
    for k, (cb, X, info_roots, cf, src, r) in sorted(wd.refunds.items()):
        cert = [("a", wd.S * (r / RF(D18) + RF(2) + wv) / r)]
        numeric.run_obligation(n1, "C20.N1", w, T, X - RF(1), "asset %d: x - 1 >= 0 given r*a/S = r/10^18 + 2 + w" % k, subst=cert)
    ctx.assumptions.append("the bank / cw20 contracts accept the resulting non-zero transfers and the burn; KF1 (C01) can drain an ask reserve to zero, which is outside this property's precondition")
    ctx.assumptions.append("precondition used for discharging numeric aborts: 1 <= a <= S (the holder burns at most the supply); reserves, amounts and supply are below 2^128")


def run(ctx):
    from .. import numeric
    _run(ctx)
    numeric.arith_base(ctx, "C20.B1")
    # the hook's caller guard compares with the LP token address the pair stored at registration: every later writer of
    # PAIR_INFO must keep it (the decimals update rewrites the whole record)
    from .. import compose
    from . import c17
    p1 = ctx.inst("C20.P1", "the stored LP token address (what the withdraw hook's caller guard compares with) survives every rewrite of the pair record (shared with C17.R5)", floor=1)
    compose.pull(ctx, p1, c17, {"C17.R5"}, "C20.P1", key_rx=r":(field:liquidity_token|anchor)")
    if p1.status == "pass":
        p1.site("every writer of the pair record outside instantiate / reply keeps liquidity_token (C17.R5 field clause)")
