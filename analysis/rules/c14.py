"""C14 — privileged and internal entry points reject every other caller (DESIGN §5 C14)."""
import re
from .. import common, roles
from ..roles import P_, param, INFO_TY, ENV_TY, AnchorMissing

POLICY = {
    ("factory", "UpdateConfig"): "owner", ("factory", "CreatePair"): "owner",
    ("factory", "AddNativeTokenDecimals"): "owner", ("factory", "MigratePair"): "owner",
    ("pair", "Receive"): "hook", ("pair", "ProvideLiquidity"): "public", ("pair", "Swap"): "public",
    ("pair", "UpdateNativeTokenDecimals"): "factory-only",
    ("router", "Receive"): "hook", ("router", "ExecuteSwapOperations"): "public",
    ("router", "ExecuteSwapOperation"): "self-only", ("router", "AssertMinimumReceive"): "self-only",
}
HOOK_POLICY = {
    ("pair", "Swap"): "pair-asset-only", ("pair", "WithdrawLiquidity"): "lp-token-only",
    ("router", "ExecuteSwapOperations"): "public",
}


def find_eq_guard(ctx, fn, want_a, want_b):
    """Guards comparing (eq/ne) a value whose roots == want_a with one whose roots == want_b.
    Returns [(Guard, pass_edge, fail_edge)]."""
    res = []
    for g in common.bool_guards(ctx.P, fn):
        c = g.cond
        if c[0] != "cmp" or c[1] not in ("eq", "ne") or len(c[2]) != 2:
            continue
        ra, rb = set(ctx.roots(c[2][0])), set(ctx.roots(c[2][1]))
        if (ra == want_a and rb == want_b) or (ra == want_b and rb == want_a):
            truth = (c[1] == "eq")
            res.append((g, g.edge(truth), g.edge(not truth)))
    if not res:
        res = find_eq_guard_in_helpers(ctx, fn, want_a, want_b)
    if not res:
        res = find_eq_guard_in_update_closure(ctx, fn, want_a, want_b)
    if not res:
        # `if classify(..)? != Kind::V { return Err }`: the classifier returns V on one path only, and that path is behind a == b
        for g in common.bool_guards(ctx.P, fn):
            c = g.cond
            if c[0] != "cmp" or c[1] not in ("eq", "ne") or len(c[2]) != 2:
                continue
            conds = common.classifier_conditions(ctx.P, c[2], g.b, 0)
            for c2 in conds or []:
                cc = c2["cond"]
                if cc[0] == "cmp" and cc[1] in ("eq", "ne") and len(cc[2]) == 2 and c2["allowed"] == [cc[1] == "eq"]:
                    ra, rb = set(ctx.roots(cc[2][0])), set(ctx.roots(cc[2][1]))
                    if (ra == want_a and rb == want_b) or (ra == want_b and rb == want_a):
                        truth = (c[1] == "eq")
                        res.append((g, g.edge(truth), g.edge(not truth)))
                        break
    return res


def find_eq_guard_in_update_closure(ctx, fn, want_a, want_b):
    """`ITEM.update(storage, |old| { if a != b { return Err(..) } ..; Ok(new) })?`: the closure runs between the load and the
    save, its parameter is the stored value, an Err leaves the item untouched and is propagated.  A guard inside it that
    dominates every Ok exit of the closure guards the write; the `?` on the update call guards everything after it."""
    P = ctx.P
    res = []
    for b, p, fr, t in P.calls(fn):
        if not p or not re.search(r"cw_storage_plus::(item::)?Item::update$", common.generic_path(p)):
            continue
        cv = P.val_call(fn, fn.body, b)
        if len(cv[4]) != 3 or cv[4][2][0] != "agg" or cv[4][2][1] != "closure":
            continue
        cf = P.fn(cv[4][2][2])
        pg = common.propagated(P, fn, b)
        if cf is None or cf.body is None or pg is None:
            continue
        item = "|".join(sorted(ctx.roots(cv[4][0])))
        old = "P:%s#1" % cf.path

        def rs(v):
            return {r.replace(old, "load(%s)" % item) for r in ctx.roots(v)}
        for g in common.bool_guards(P, cf):
            c = g.cond
            if c[0] != "cmp" or c[1] not in ("eq", "ne") or len(c[2]) != 2:
                continue
            ra, rb = rs(c[2][0]), rs(c[2][1])
            if not ((ra == want_a and rb == want_b) or (ra == want_b and rb == want_a)):
                continue
            truth = (c[1] == "eq")
            ok, why = common.fail_edge_only_errors(P, cf, g.edge(not truth))
            if not ok:
                continue
            if not all(cf.body.edge_dominates(g.edge(truth), eb) for (eb, i_, cls, v) in common.ok_exit_blocks(P, cf)):
                continue
            s, cont, brk = pg
            hg = _HelperGuard(b)
            hg.own_sink = b
            res.append((hg, cont, brk))
    return res


class _HelperGuard:
    def __init__(self, b):
        self.b = b


def subst_param_roots(roots, helper, arg_roots):
    """Rewrite root strings of `helper`'s parameters into the caller's roots (single-root arguments only)."""
    out = set()
    for r in roots:
        done = False
        for i, ar in arg_roots.items():
            key = "P:%s#%d" % (helper.path, i)
            idx = r.find(key)
            if idx >= 0 and len(ar) == 1:
                nxt = r[idx + len(key):idx + len(key) + 1]
                if nxt == "" or not nxt.isdigit():
                    r = r.replace(key, list(ar)[0])
                    done = True
        out.add(r)
    return out


def find_eq_guard_in_helpers(ctx, fn, want_a, want_b):
    """`check_helper(..)?` : a propagated call of an effect-free helper that errs unless want_a == want_b."""
    P = ctx.P
    res = []
    for b, p, fr, t in P.calls(fn):
        if not roles.is_workspace_fn(P, p):
            continue
        h = P.fn(p) or P.fn(common.generic_path(p))
        if h is None or h.path == fn.path or roles.effects(P, h):
            continue
        pg = common.propagated(P, fn, b)
        if pg is None:
            continue
        cv = P.val_call(fn, fn.body, b)
        arg_roots = {i: set(ctx.roots(a)) for i, a in enumerate(cv[4])}
        for g in common.bool_guards(P, h):
            c = g.cond
            if c[0] != "cmp" or c[1] not in ("eq", "ne") or len(c[2]) != 2:
                continue
            ra = subst_param_roots(ctx.roots(c[2][0]), h, arg_roots)
            rb = subst_param_roots(ctx.roots(c[2][1]), h, arg_roots)
            if not ((ra == want_a and rb == want_b) or (ra == want_b and rb == want_a)):
                continue
            truth = (c[1] == "eq")
            ok, why = common.fail_edge_only_errors(P, h, g.edge(not truth))
            if not ok:
                continue
            if not all(h.body.edge_dominates(g.edge(truth), eb) for (eb, i_, cls, v) in common.ok_exit_blocks(P, h)):
                continue
            s, cont, brk = pg
            res.append((_HelperGuard(b), cont, brk))
    return res


def check_protected(ctx, inst, fn, pass_edge, fail_edge, what, sinks=None, key_prefix=None):
    """Every effect and every success exit of fn is dominated by pass_edge; fail_edge only errs."""
    P = ctx.P
    body = fn.body
    key_prefix = key_prefix or inst.id
    sk = sinks if sinks is not None else roles.sink_blocks(P, fn)
    oks = common.ok_exit_blocks(P, fn)
    n = 0
    for b, desc in sk:
        n += 1
        if not body.edge_dominates(pass_edge, b):
            inst.fail("%s:%s:unguarded:%s" % (key_prefix, fn.path, desc), fn.path, common.span_of_block_term(fn, b),
                      "%s is reachable without passing the %s check" % (desc, what))
    for (b, i, cls, v) in oks:
        n += 1
        if not body.edge_dominates(pass_edge, b):
            inst.fail("%s:%s:ok-exit-unguarded" % (key_prefix, fn.path), fn.path, common.span_of_block_term(fn, b),
                      "a success exit is reachable without passing the %s check" % what)
    ok, why = common.fail_edge_only_errors(P, fn, fail_edge, [b for b, _ in sk])
    if not ok:
        inst.fail("%s:%s:fail-edge" % (key_prefix, fn.path), fn.path, common.span_of_block_term(fn, fail_edge[0]),
                  "the rejecting branch of the %s check does not reject: %s" % (what, why))
    inst.site("%s: %s check at %s protects %d effect site(s) + %d success exit(s)" % (
        fn.path, what, common.span_of_block_term(fn, pass_edge[0]), len(sk), len(oks)))


def guard_in_handler(ctx, inst, fn, want_a, want_b, what, sinks=None):
    gs = find_eq_guard(ctx, fn, want_a, want_b)
    if not gs:
        inst.fail("%s:%s:no-guard" % (inst.id, fn.path), fn.path, fn.span,
                  "no comparison of %s with %s found (%s check missing or compares something else)" % (sorted(want_a), sorted(want_b), what))
        return None
    # any one guard that protects everything suffices; report against the first otherwise
    best = None
    for g, pe, fe in gs:
        trial = type(inst)(inst.id, inst.desc)
        sk_ = sinks
        if getattr(g, "own_sink", None) is not None:
            # the guard lives in the update closure: the update's own write happens behind it (inside the call)
            sk_ = [x for x in (sinks if sinks is not None else roles.sink_blocks(ctx.P, fn)) if x[0] != g.own_sink]
        check_protected(ctx, trial, fn, pe, fe, what, sk_)
        if trial.status == "pass":
            inst.sites.extend(trial.sites)
            inst.evaluations += trial.evaluations
            return (g, pe, fe)
        best = best or trial
    inst.status = "fail"
    inst.failures.extend(best.failures)
    return None


INLINE_ARMS = {}       # (contract, variant) -> (dispatcher fn, region blocks guarded by the arm's caller check)


def infer_policy_inline(ctx, contract, variant):
    """A new variant handled *inside* its dispatch arm (no handler function): the same acceptance as for a handler — a
    comparison of the caller with the contract's stored principal inside the arm, its rejecting edge only errs, its passing
    edge dominates every effect and every success exit of the arm."""
    P = ctx.P
    try:
        ex, d = roles.dispatch_arms(P, contract)
    except AnchorMissing:
        return None
    if variant not in d or d[variant] is None:
        return None
    region = common.region_of_edge(ex.body, d[variant])
    info = param(ex, INFO_TY)
    if contract == "factory":
        a, b, pol = {"canon(%s)" % P_(ex, info, ".sender")}, {"load(%s).owner" % ctx.N.FACTORY_CONFIG}, "owner"
    elif contract == "pair":
        a, b, pol = {P_(ex, info, ".sender")}, {"load(%s).halo_factory" % ctx.N.PAIR_CONFIG}, "factory-only"
    else:
        a, b, pol = {P_(ex, param(ex, ENV_TY), ".contract.address")}, {P_(ex, info, ".sender")}, "self-only"
    sinks = [(sb, d_) for (sb, d_) in roles.sink_blocks(P, ex) if sb in region]
    oks = [x for x in common.ok_exit_blocks(P, ex) if x[0] in region]
    for g, pe, fe in find_eq_guard(ctx, ex, a, b):
        gb = getattr(g, "b", None)
        if gb is None or gb not in region:
            continue
        if not all(ex.body.edge_dominates(pe, sb) for sb, _ in sinks) or not all(ex.body.edge_dominates(pe, x[0]) for x in oks) or not oks:
            continue
        if not common.fail_edge_only_errors(P, ex, fe, [sb for sb, _ in sinks])[0]:
            continue
        INLINE_ARMS[(contract, variant)] = (ex, {bb for bb in region if ex.body.edge_dominates(pe, bb)})
        return pol
    return None


def infer_policy(ctx, contract, variant):
    P = ctx.P
    try:
        try:
            roles.handler_of(P, contract, variant)
        except AnchorMissing:
            return infer_policy_inline(ctx, contract, variant)
        h = roles.handler_of(P, contract, variant)
        fn = h[3]
        info = param(fn, INFO_TY)
        trial = type(ctx.instances[0])("C14.R0", "trial")
        if contract == "factory":
            a, b, pol = {"canon(%s)" % P_(fn, info, ".sender")}, {"load(%s).owner" % ctx.N.FACTORY_CONFIG}, "owner"
        elif contract == "pair":
            a, b, pol = {P_(fn, info, ".sender")}, {"load(%s).halo_factory" % ctx.N.PAIR_CONFIG}, "factory-only"
        else:
            a, b, pol = {P_(fn, param(fn, ENV_TY), ".contract.address")}, {P_(fn, info, ".sender")}, "self-only"
        if guard_in_handler(ctx, trial, fn, a, b, pol) is not None and trial.status == "pass":
            return pol
        # an entry point anyone may call is harmless when it has no effect a property speaks about: it builds no message
        # and writes no storage item the rules know (an event emitter, a counter of a new item)
        role_items = ctx.N.role_items()
        harmless = True
        for (b_, d_) in roles.sink_blocks(P, fn):
            m_ = re.match(r"^store \w+ (\S+)$", d_)
            if not (m_ and m_.group(1).startswith("I:") and m_.group(1) not in role_items):
                harmless = False
        if harmless:
            return "public"
    except AnchorMissing:
        pass
    return None


POLICY_RUN = {}


def run(ctx):
    P = ctx.P
    POLICY_RUN.clear()
    POLICY_RUN.update(POLICY)
    INLINE_ARMS.clear()
    # ---- R0 dispatch completeness ------------------------------------------------------
    r0 = ctx.inst("C14.R0", "every ExecuteMsg / hook variant has a dispatch arm and a caller policy", floor=15)
    handlers = {}
    for contract in ("factory", "pair", "router"):
        try:
            ex, d = roles.dispatch_arms(P, contract)
        except AnchorMissing as e:
            r0.fail("C14.R0:anchor:%s" % contract, "-", "-", "anchor-missing: %s" % e)
            continue
        for variant in common.enum_variants(P, ctx.N.exec_enum(contract)):
            pol = POLICY.get((contract, variant))
            if pol is None:
                # a variant added after the table was frozen: it is accepted only as a *privileged* message of its contract —
                # all its effects and success exits behind the contract's own caller guard (factory: stored owner; pair:
                # stored factory; router: the router itself).  Anything else has no policy and is reported.
                pol = infer_policy(ctx, contract, variant)
                if pol is None:
                    r0.fail("C14.R0:unclassified:%s::%s" % (contract, variant), ex.path, ex.span,
                            "new ExecuteMsg variant %s::%s has no caller policy and is not behind its contract's caller guard" % (contract, variant))
                    continue
                POLICY_RUN[(contract, variant)] = pol
            if variant not in d:
                r0.fail("C14.R0:no-arm:%s::%s" % (contract, variant), ex.path, ex.span, "variant has no dispatch arm")
                continue
            if (contract, variant) in INLINE_ARMS and POLICY.get((contract, variant)) is None:
                r0.site("%s::%s handled inside its dispatch arm behind the caller check [%s]" % (contract, variant, pol))
                continue
            try:
                h = roles.handler_of(P, contract, variant)
                handlers[(contract, variant)] = h
                r0.site("%s::%s -> %s [%s]" % (contract, variant, h[3].path, pol))
            except AnchorMissing as e:
                r0.fail("C14.R0:handler:%s::%s" % (contract, variant), ex.path, ex.span, "anchor-missing: %s" % e)
    hook_handlers = {}
    for contract in ("pair", "router"):
        try:
            recv, d = roles.hook_dispatch(P, contract)
        except AnchorMissing as e:
            r0.fail("C14.R0:anchor:hook:%s" % contract, "-", "-", "anchor-missing: %s" % e)
            continue
        for variant in common.enum_variants(P, ctx.N.hook_enum(contract)):
            pol = HOOK_POLICY.get((contract, variant))
            if pol is None:
                r0.fail("C14.R0:unclassified:hook:%s::%s" % (contract, variant), recv.path, recv.span, "new hook variant without caller policy")
                continue
            try:
                h = roles.hook_handler_of(P, contract, variant)
                hook_handlers[(contract, variant)] = h
                r0.site("%s hook %s -> %s [%s]" % (contract, variant, h[3].path, pol))
            except AnchorMissing as e:
                r0.fail("C14.R0:handler:hook:%s::%s" % (contract, variant), recv.path, recv.span, "anchor-missing: %s" % e)

    # ---- R1-R4 factory owner-only --------------------------------------------------------
    for n, variant in enumerate(["UpdateConfig", "CreatePair", "AddNativeTokenDecimals", "MigratePair"], 1):
        inst = ctx.inst("C14.R%d" % n, "factory %s: all effects and success exits behind sender == stored owner" % variant, floor=1)
        h = handlers.get(("factory", variant))
        if h is None:
            inst.fail("%s:anchor" % inst.id, "-", "-", "anchor-missing: handler of factory::%s" % variant)
            continue
        fn = h[3]
        try:
            info = param(fn, INFO_TY)
        except AnchorMissing as e:
            inst.fail("%s:anchor" % inst.id, fn.path, fn.span, "anchor-missing: %s" % e)
            continue
        guard_in_handler(ctx, inst, fn, {"canon(%s)" % P_(fn, info, ".sender")}, {"load(%s).owner" % ctx.N.FACTORY_CONFIG}, "owner")

    # ---- R5 ownership follows a successful update -----------------------------------------
    r5 = ctx.inst("C14.R5", "factory CONFIG.owner is written only as canonicalize(new owner) / kept, and at instantiation as the instantiator", floor=2)
    cfg_writes = []
    for fn in P.prod_fns():
        for (b, op, item, v) in common.storage_sites(P, fn, writes=True):
            if item == ctx.N.FACTORY_CONFIG:
                cfg_writes.append((fn, b, op, v))
    h = handlers.get(("factory", "UpdateConfig"))
    try:
        inst_fn = roles.entry(P, "factory", "instantiate")
    except AnchorMissing as e:
        inst_fn = None
        r5.fail("C14.R5:anchor", "-", "-", "anchor-missing: %s" % e)
    for fn, b, op, v in cfg_writes:
        owner_roots = set(ctx.roots(v[4][2], (("f", "owner"),))) if len(v[4]) > 2 else {"?"}
        where = common.span_of_block_term(fn, b)
        if h is not None and fn.path == h[3].path:
            own = [i - 1 for i in range(1, fn.body.arg_count + 1) if fn.body.names.get(i) == "owner" or fn.body.locals[i]["ty"] == "std::option::Option<std::string::String>"]
            allowed = {"load(%s).owner" % ctx.N.FACTORY_CONFIG} | {"canon(%s)" % P_(fn, i) for i in own} | {"canon(valid(%s))" % P_(fn, i) for i in own}
            # `new.unwrap_or(stored)` is the same choice written as one expression: or(a;b) -> {a, b}
            flat_ = set()
            for r_ in owner_roots:
                m_ = re.match(r"^or\((.*);(.*)\)$", r_)
                if m_ and "or(" not in m_.group(1) and "or(" not in m_.group(2):
                    flat_ |= set(m_.group(1).split("|")) | set(m_.group(2).split("|"))
                else:
                    flat_.add(r_)
            owner_roots = flat_
            if not owner_roots <= allowed or not any(r.startswith("canon(") for r in owner_roots):
                r5.fail("C14.R5:update:owner-origin", fn.path, where, "saved owner originates from %s, expected stored owner or canonicalize(new owner)" % sorted(owner_roots))
            else:
                r5.site("%s: saved owner ⊢ %s" % (where, sorted(owner_roots)))
        elif inst_fn is not None and fn.path == inst_fn.path:
            info = param(fn, INFO_TY)
            if owner_roots != {"canon(%s)" % P_(fn, info, ".sender")}:
                r5.fail("C14.R5:instantiate:owner-origin", fn.path, where, "initial owner originates from %s, expected canonicalize(info.sender)" % sorted(owner_roots))
            else:
                r5.site("%s: initial owner ⊢ %s" % (where, sorted(owner_roots)))
        else:
            # another owner-only handler (a message added later, policy inferred by R0) may rewrite the record as long as it
            # keeps the stored owner
            keys_ = [k_ for k_, h_ in handlers.items() if k_[0] == "factory" and h_[3].path == fn.path and POLICY_RUN.get(k_) == "owner"]
            if keys_ and owner_roots == {"load(%s).owner" % ctx.N.FACTORY_CONFIG}:
                r5.site("%s: %s (owner-only) rewrites CONFIG keeping the stored owner" % (where, keys_[0][1]))
            else:
                r5.fail("C14.R5:foreign-writer:%s" % fn.path, fn.path, where, "factory CONFIG is written outside instantiate / the UpdateConfig handler")

    # ---- R6 pair decimals update: factory-only -----------------------------------------------
    r6 = ctx.inst("C14.R6", "pair UpdateNativeTokenDecimals: effects behind sender == stored factory; pair CONFIG written only at instantiation from info.sender", floor=2)
    h = handlers.get(("pair", "UpdateNativeTokenDecimals"))
    if h is None:
        r6.fail("C14.R6:anchor", "-", "-", "anchor-missing: handler")
    else:
        fn = h[3]
        info = param(fn, INFO_TY)
        guard_in_handler(ctx, r6, fn, {P_(fn, info, ".sender")}, {"load(%s).halo_factory" % ctx.N.PAIR_CONFIG}, "factory-only")
    for fn in P.prod_fns():
        for (b, op, item, v) in common.storage_sites(P, fn, writes=True):
            if item == ctx.N.PAIR_CONFIG:
                where = common.span_of_block_term(fn, b)
                try:
                    pi = roles.entry(P, "pair", "instantiate")
                except AnchorMissing:
                    pi = None
                if pi is None or fn.path != pi.path:
                    keeps = len(v[4]) > 2 and set(ctx.roots(v[4][2], (("f", "halo_factory"),))) == {"load(%s).halo_factory" % ctx.N.PAIR_CONFIG}
                    guarded_ = any(ex_.path == fn.path and b in blocks_ for (k_, (ex_, blocks_)) in INLINE_ARMS.items() if k_[0] == "pair") or \
                        any(k_[0] == "pair" and h_[3].path == fn.path and POLICY_RUN.get(k_) == "factory-only" for k_, h_ in handlers.items())
                    if keeps and guarded_:
                        r6.site("%s: a factory-only message rewrites the pair CONFIG keeping the stored factory" % where)
                        continue
                    r6.fail("C14.R6:foreign-writer:%s" % fn.path, fn.path, where, "pair CONFIG (factory address) written outside instantiate")
                    continue
                info = param(fn, INFO_TY)
                fr = set(ctx.roots(v[4][2], (("f", "halo_factory"),)))
                if fr != {P_(fn, info, ".sender")}:
                    r6.fail("C14.R6:factory-origin", fn.path, where, "stored factory originates from %s, expected info.sender" % sorted(fr))
                else:
                    r6.site("%s: stored factory ⊢ instantiate info.sender" % where)

    # ---- R7 withdraw hook: LP-token-only -------------------------------------------------------
    r7 = ctx.inst("C14.R7", "pair withdraw hook arm: handler call behind canonicalize(sender) == stored liquidity_token", floor=1)
    hh = hook_handlers.get(("pair", "WithdrawLiquidity"))
    if hh is None:
        r7.fail("C14.R7:anchor", "-", "-", "anchor-missing: withdraw hook arm")
    else:
        recv, edge, region, handler, callbb = hh
        info = param(recv, INFO_TY)
        sinks = [(b, d) for (b, d) in roles.sink_blocks(P, recv) if b in region]
        gs = find_eq_guard(ctx, recv, {"canon(%s)" % P_(recv, info, ".sender")}, {"load(%s).liquidity_token" % ctx.N.PAIR_INFO})
        gs = [x for x in gs if x[0].b in region]
        if not gs:
            r7.fail("C14.R7:no-guard", recv.path, recv.span, "no comparison of canonicalize(info.sender) with PAIR_INFO.liquidity_token in the withdraw arm")
        else:
            g, pe, fe = gs[0]
            for b, d in sinks:
                if not recv.body.edge_dominates(pe, b):
                    r7.fail("C14.R7:unguarded:%s" % d, recv.path, common.span_of_block_term(recv, b), "%s reachable in the withdraw arm without the LP-token check" % d)
            ok, why = common.fail_edge_only_errors(P, recv, fe, [b for b, _ in sinks])
            if not ok:
                r7.fail("C14.R7:fail-edge", recv.path, common.span_of_block_term(recv, fe[0]), why)
            if not any(b == callbb for b, _ in sinks):
                r7.fail("C14.R7:handler-not-sink", recv.path, recv.span, "withdraw handler call not recognised as an effect site")
            r7.site("guard at %s protects %d effect site(s) incl. call of %s" % (common.span_of_block_term(recv, g.b), len(sinks), handler.path))

    # ---- R9/R10 router self-only ------------------------------------------------------------------
    for n, variant in ((9, "ExecuteSwapOperation"), (10, "AssertMinimumReceive")):
        inst = ctx.inst("C14.R%d" % n, "router %s: everything behind env.contract.address == info.sender" % variant, floor=1)
        h = handlers.get(("router", variant))
        if h is None:
            inst.fail("%s:anchor" % inst.id, "-", "-", "anchor-missing: handler")
            continue
        fn = h[3]
        info = param(fn, INFO_TY)
        env = param(fn, ENV_TY)
        r = guard_in_handler(ctx, inst, fn, {P_(fn, env, ".contract.address")}, {P_(fn, info, ".sender")}, "self-only")
        # the handler must receive the transaction's own env/info from the dispatcher
        ex, edge, region, _, callbb = h
        cv = P.val_call(ex, ex.body, callbb)
        exi, exe = param(ex, INFO_TY), param(ex, ENV_TY)
        gi_, wi_ = roles.passed_roots(ctx, cv, info, ex, exi)
        ge_, we_ = roles.passed_roots(ctx, cv, env, ex, exe)
        if gi_ != wi_ or ge_ != we_:
            inst.fail("%s:wiring" % inst.id, ex.path, common.span_of_block_term(ex, callbb),
                      "dispatcher does not pass the transaction's env/info to the handler: info ⊢ %s env ⊢ %s" % (sorted(gi_), sorted(ge_)))

    # the same wiring for the factory / pair privileged handlers (R1-R4, R6)
    rw = ctx.inst("C14.RW", "dispatchers pass the transaction's own MessageInfo to privileged handlers", floor=5)
    for key in [("factory", v) for v in ("UpdateConfig", "CreatePair", "AddNativeTokenDecimals", "MigratePair")] + [("pair", "UpdateNativeTokenDecimals")]:
        h = handlers.get(key)
        if h is None:
            continue
        ex, edge, region, fn, callbb = h
        cv = P.val_call(ex, ex.body, callbb)
        info = param(fn, INFO_TY)
        exi = param(ex, INFO_TY)
        rs, want_ = roles.passed_roots(ctx, cv, info, ex, exi)
        if rs != want_:
            rw.fail("C14.RW:%s::%s" % key, ex.path, common.span_of_block_term(ex, callbb), "handler's info ⊢ %s" % sorted(rs))
        else:
            rw.site("%s::%s: info ⊢ execute#info" % key)

    # ---- R11 storage-write closure -------------------------------------------------------------------
    r11 = ctx.inst("C14.R11", "every storage write is in instantiate/reply/migrate or in a guarded privileged handler; public pair/router handlers write nothing", floor=17)
    allowed_fns = set()
    for c in ("factory", "pair", "router"):
        for nm in ("instantiate", "reply", "migrate"):
            try:
                allowed_fns.add(roles.entry(P, c, nm).path)
            except AnchorMissing:
                pass
    guarded = {h[3].path for k, h in handlers.items() if POLICY_RUN.get(k) in ("owner", "factory-only", "self-only")}
    # helpers reachable only from guarded handlers
    for fn in P.prod_fns():
        for (b, op, item, v) in common.storage_sites(P, fn, writes=True):
            where = common.span_of_block_term(fn, b)
            root_fn = fn
            if fn.kind == "closure" and fn.parent:
                root_fn = P.fn(fn.parent) or fn
            if root_fn.path in allowed_fns or root_fn.path in guarded:
                r11.site("%s %s %s in %s" % (where, op, item, root_fn.path))
                continue
            if fn.kind != "closure" and any(ex_.path == fn.path and b in blocks_ for (ex_, blocks_) in INLINE_ARMS.values()):
                r11.site("%s %s %s inside a dispatch arm behind its caller check" % (where, op, item))
                continue
            callers = [c for c, cb in P.callers(root_fn.path) if "::tests::" not in c.path]
            if callers and all((c.path in guarded or c.path in allowed_fns) for c in callers):
                r11.site("%s %s %s in helper %s (called only from %s)" % (where, op, item, root_fn.path, sorted({c.path for c in callers})))
                continue
            if item.startswith("I:") and item not in ctx.N.role_items():
                r11.site("%s %s %s in %s: an item no property speaks about (not privileged state)" % (where, op, item, root_fn.path))
                continue
            r11.fail("C14.R11:unprivileged-write:%s:%s" % (root_fn.path, item), root_fn.path, where,
                     "storage write %s %s outside instantiate/reply/migrate and outside any guarded handler" % (op, item))

    # ---- R12 who-may-call ------------------------------------------------------------------------------
    r12 = ctx.inst("C14.R12", "privileged handlers are called only from their dispatch arm", floor=7)
    for k, h in list(handlers.items()) + [(("pair-hook",) + k[1:], v) for k, v in hook_handlers.items()]:
        pol = POLICY_RUN.get(k) or HOOK_POLICY.get(("pair", k[1]))
        if pol in ("public", "hook"):
            continue
        ex, edge, region, fn, callbb = h
        cs = [(c, cb) for c, cb in P.callers(fn.path) if "::tests::" not in c.path]
        # every dispatch arm (execute or hook) that forwards to this handler is a legitimate call site
        arms = [h2 for h2 in list(handlers.values()) + list(hook_handlers.values()) if h2[3].path == fn.path]
        bad = [(c, cb) for c, cb in cs if not any(c.path == (getattr(a[0], "clone_of", None) or a[0].path) and cb in a[2] for a in arms)]
        if bad:
            for c, cb in bad:
                r12.fail("C14.R12:extra-caller:%s<-%s" % (fn.path, c.path), c.path, common.span_of_block_term(c, cb),
                         "privileged handler %s is also called from %s" % (fn.path, c.path))
        else:
            r12.site("%s called only from %s arm %s" % (fn.path, ex.path, k[-1]))
    ctx.assumptions.append("a rejected call changes no state or balance because the chain reverts failed executions atomically (platform)")
