#!/usr/bin/env python3
"""Regenerates /verif/MANIFEST.json from the rule modules that exist (analysis/rules/cXX.py)
and the per-property texts in analysis/rules/manifest_texts.py."""
import importlib, json, os, sys
V = os.path.dirname(os.path.dirname(os.path.abspath(__file__)))
sys.path.insert(0, V)
from analysis.rules import manifest_texts as T

props = [json.loads(l) for l in open(os.path.join(V, "properties.jsonl"))]
checks, na = [], []
for p in props:
    pid = p["id"]
    modp = os.path.join(V, "analysis", "rules", pid.lower() + ".py")
    t = T.TEXTS.get(pid)
    if os.path.exists(modp) and t and not t.get("not_applicable"):
        checks.append({
            "property_id": pid,
            "quick_cmd": "./check %s --tier quick" % pid,
            "thorough_cmd": "./check %s --tier thorough" % pid,
            "evidence_file": "/verif/evidence/%s.json" % pid,
            "replay_cmd_template": "./check %s --replay {path}" % pid,
            "engine": t.get("engine", "E-STRUCT"),
            "level_claimed": {"category": "other", "text": t["level"], "design_ref": "DESIGN.md §5 %s" % pid},
            "level_note": t["note"],
            "technique": t["technique"],
        })
    else:
        na.append({"property_id": pid, "reason": (t or {}).get("not_applicable") or T.PENDING})
m = {
    "version": 1,
    "setup_cmd": "python3 tools/setup.py",
    "hooks": {
        "guard": "halotrade_zone_halotrade_contracts_verif",
        "enable": "none needed: the analysis reads the compiler's MIR of the unmodified sources (RUSTC_WORKSPACE_WRAPPER driver); the cfg name is reserved and unused",
        "baseline_off_cmd": "cd /repo && cargo test --workspace --no-fail-fast --offline",
        "source_commits": [],
        "add_only": True,
    },
    "engines": [
        {"name": "E-STRUCT", "path": "analysis/", "serves_properties": [c["property_id"] for c in checks if "E-STRUCT" in c["engine"]],
         "kind_free_text": "custom static analysis over rustc MIR facts (driver/): CFG edge-dominance, guards, reaching definitions, provenance, message/storage inventories, dispatch tables"},
        {"name": "E-ROUND", "path": "analysis/eround.py", "serves_properties": [c["property_id"] for c in checks if "E-ROUND" in c["engine"]],
         "kind_free_text": "abstract interpretation of the numeric MIR into rational terms with one noise symbol per truncation; obligations decided by vertex enumeration + coefficient-sign test (no solver, no execution)"},
    ],
    "checks": checks,
    "not_applicable": na,
    "notes": T.NOTES,
}
json.dump(m, open(os.path.join(V, "MANIFEST.json"), "w"), indent=1)
print("checks:", [c["property_id"] for c in checks]); print("not_applicable:", [n["property_id"] for n in na])
