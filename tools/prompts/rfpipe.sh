#!/bin/bash
# usage: rfpipe.sh RFnn LANE
RF=$1; LANE=$2
cd /verif
python3 tools/confirm_refactors.py $RF > /tmp/wt/$RF.confirm.log 2>&1
[ -d /tmp/wt/$LANE ] || git -C /repo worktree add --detach /tmp/wt/$LANE HEAD -q
HALO_REPO=/tmp/wt/$LANE HALO_CACHE=/verif/.cache-mut-$LANE python3 tools/harvest_refactors.py $RF > /tmp/wt/$RF.harvest.log 2>&1
