"""Fact extraction front-end: runs the rustc_private driver over the repository's
current working tree (cached by content hash) and loads the JSON fact files."""
import fcntl
import hashlib
import json
import os
import shutil
import subprocess
import sys
import time

VERIF = os.path.dirname(os.path.dirname(os.path.abspath(__file__)))
REPO = os.environ.get("HALO_REPO", "/repo")
# HALO_CACHE: a private fact / target cache for a measurement worker (tools/mutate.py runs several analyses in parallel);
# the driver binary is always the one of the main cache
CACHE = os.environ.get("HALO_CACHE") or os.path.join(VERIF, ".cache")
DRIVER_DIR = os.path.join(VERIF, "driver")
DRIVER_TARGET = os.path.join(VERIF, ".cache", "driver-target")
DRIVER_BIN = os.path.join(DRIVER_TARGET, "debug", "halo-facts-driver")
MEMBERS = ["bignumber", "haloswap", "halo_factory", "halo_pair", "halo_router"]
MEMBER_PKGS = ["bignumber", "haloswap", "halo-factory", "halo-pair", "halo-router"]


class BuildError(Exception):
    pass


def _nightly_sysroot():
    return subprocess.check_output(["rustc", "+nightly", "--print", "sysroot"], text=True).strip()


def repo_hash(repo=None):
    repo = repo or REPO
    h = hashlib.sha256()
    entries = []
    for root, dirs, files in os.walk(repo):
        dirs[:] = sorted(d for d in dirs if d not in ("target", ".git", "node_modules"))
        for f in sorted(files):
            rel = os.path.relpath(os.path.join(root, f), repo)
            if f.endswith(".rs") or f in ("Cargo.toml", "Cargo.lock") or rel.startswith(".cargo"):
                entries.append(rel)
    for rel in sorted(entries):
        h.update(rel.encode())
        h.update(b"\0")
        with open(os.path.join(repo, rel), "rb") as fh:
            h.update(fh.read())
        h.update(b"\0")
    # the driver's own source is part of the key: a changed extractor must re-extract
    with open(os.path.join(DRIVER_DIR, "src", "main.rs"), "rb") as fh:
        h.update(fh.read())
    return h.hexdigest()[:24]


def _env_base():
    env = dict(os.environ)
    env["CARGO_NET_OFFLINE"] = "true"
    env.pop("RUSTC_WRAPPER", None)
    return env


def ensure_driver(verbose=False):
    src = os.path.join(DRIVER_DIR, "src", "main.rs")
    if os.path.exists(DRIVER_BIN) and os.path.getmtime(DRIVER_BIN) >= os.path.getmtime(src):
        return
    env = _env_base()
    env["CARGO_TARGET_DIR"] = DRIVER_TARGET
    p = subprocess.run(["cargo", "build", "--offline"], cwd=DRIVER_DIR, env=env,
                       stdout=subprocess.PIPE, stderr=subprocess.STDOUT, text=True)
    if p.returncode != 0:
        raise BuildError("driver build failed:\n" + p.stdout[-4000:])


def _facts_complete(d, nonce=None):
    for m in MEMBERS:
        if not os.path.exists(os.path.join(d, m + ".json")):
            return False
    return os.path.exists(os.path.join(d, "OK"))


def build_facts(profile="dev", repo=None, verbose=False):
    """Returns the directory holding the five fact files for the current tree."""
    repo = repo or REPO
    os.makedirs(os.path.join(CACHE, "facts"), exist_ok=True)
    h = repo_hash(repo)
    d = os.path.join(CACHE, "facts", "%s-%s" % (h, profile))
    if _facts_complete(d):
        return d
    lock = open(os.path.join(CACHE, "lock"), "w")
    fcntl.flock(lock, fcntl.LOCK_EX)
    try:
        if _facts_complete(d):
            return d
        ensure_driver(verbose)
        if os.path.isdir(d):
            shutil.rmtree(d)
        os.makedirs(d)
        target = os.path.join(CACHE, "target")
        prof_dir = os.path.join(target, "release" if profile == "release" else "debug")
        fp = os.path.join(prof_dir, ".fingerprint")
        if os.path.isdir(fp):
            for e in os.listdir(fp):
                if any(e.startswith(p + "-") for p in MEMBER_PKGS):
                    shutil.rmtree(os.path.join(fp, e), ignore_errors=True)
        sysroot = _nightly_sysroot()
        nonce = "%s-%d-%d" % (h, os.getpid(), int(time.time()))
        env = _env_base()
        env.update({
            "LD_LIBRARY_PATH": os.path.join(sysroot, "lib") + ":" + env.get("LD_LIBRARY_PATH", ""),
            "HALO_REAL_RUSTC": os.path.join(sysroot, "bin", "rustc"),
            "RUSTC": os.path.join(DRIVER_DIR, "rustc-shim.sh"),
            "RUSTC_WORKSPACE_WRAPPER": DRIVER_BIN,
            "RUSTFLAGS": "-Zmir-opt-level=0 -Awarnings",
            "CARGO_TARGET_DIR": target,
            "HALO_FACTS_DIR": d,
            "HALO_FACTS_NONCE": nonce,
            "HALO_FACTS_CRATES": ",".join(MEMBERS),
        })
        cmd = ["cargo", "+nightly", "check", "--offline", "--workspace", "--lib"]
        if profile == "release":
            cmd.append("--release")
        t0 = time.time()
        p = subprocess.run(cmd, cwd=repo, env=env, stdout=subprocess.PIPE, stderr=subprocess.STDOUT, text=True)
        if p.returncode != 0:
            shutil.rmtree(d, ignore_errors=True)
            raise BuildError("cargo check of %s failed (exit %d):\n%s" % (repo, p.returncode, p.stdout[-6000:]))
        for m in MEMBERS:
            f = os.path.join(d, m + ".json")
            if not os.path.exists(f):
                raise BuildError("fact file missing after build: " + f)
            with open(f) as fh:
                head = fh.read(400)
            if nonce not in head:
                raise BuildError("fact file %s does not carry this run's nonce (stale)" % f)
        with open(os.path.join(d, "OK"), "w") as fh:
            fh.write(json.dumps({"nonce": nonce, "wall_s": time.time() - t0, "repo": repo, "profile": profile}))
        _prune(os.path.join(CACHE, "facts"), keep=6)
        return d
    finally:
        fcntl.flock(lock, fcntl.LOCK_UN)
        lock.close()


def _prune(base, keep):
    ds = [os.path.join(base, x) for x in os.listdir(base)]
    ds = [x for x in ds if os.path.isdir(x)]
    ds.sort(key=os.path.getmtime, reverse=True)
    for x in ds[keep:]:
        shutil.rmtree(x, ignore_errors=True)


def load_facts(d):
    """Load the per-crate fact files.  Type paths are canonicalised: rustc prints a type by its *visible* path, so a type
    re-exported from another module (`pub use raw::PairInfoRaw`, `pub use math::Decimal256`) is spelled
    `haloswap::asset::PairInfoRaw` in downstream crates but `haloswap::asset::raw::PairInfoRaw` where it is defined.  Every
    such alias of a workspace ADT whose name is unique in its crate is rewritten to the definition path."""
    import re
    texts = {}
    for m in MEMBERS:
        with open(os.path.join(d, m + ".json")) as fh:
            texts[m] = fh.read()
    defs = {}
    for m in MEMBERS:
        for a in json.loads(texts[m]).get("adts", []):
            pth = a["path"]
            if "::_::" in pth or "<" in pth or "!x" in a.get("span", ""):
                continue
            segs = pth.split("::")
            defs.setdefault((segs[0], segs[-1]), set()).add(pth)
    uniq = {k: list(v)[0] for k, v in defs.items() if len(v) == 1}
    if uniq:
        by_crate = {}
        for (crate, name), pth in uniq.items():
            by_crate.setdefault(crate, {})[name] = pth
        rx = re.compile(r"(?<![\w:])(%s)::((?:[a-z_][a-z0-9_]*::)*)([A-Z]\w*)\b" % "|".join(sorted(by_crate)))

        def sub(mo):
            crate, mods, name = mo.group(1), mo.group(2), mo.group(3)
            pth = by_crate.get(crate, {}).get(name)
            if pth is None or mo.group(0) == pth:
                return mo.group(0)
            return pth
        for m in MEMBERS:
            texts[m] = rx.sub(sub, texts[m])
    return {m: json.loads(texts[m]) for m in MEMBERS}


def lock_versions(repo=None):
    """name -> version for the external crates of the trusted base, read from Cargo.lock."""
    repo = repo or REPO
    want = {"bigint", "cosmwasm-std", "cw-storage-plus", "cw20", "cw-utils", "integer-sqrt", "cw2", "cw20-base"}
    res = {}
    name = None
    try:
        for line in open(os.path.join(repo, "Cargo.lock")):
            line = line.strip()
            if line.startswith("name = "):
                name = line.split('"')[1]
            elif line.startswith("version = ") and name in want:
                res.setdefault(name, []).append(line.split('"')[1])
    except OSError:
        pass
    return {k: ",".join(v) for k, v in sorted(res.items())}


if __name__ == "__main__":
    prof = sys.argv[1] if len(sys.argv) > 1 else "dev"
    t = time.time()
    print(build_facts(prof, verbose=True), "%.1fs" % (time.time() - t))
