#!/usr/bin/env python3
"""Confirm that each refactoring patch of a sub-agent applies to the clean HEAD of its scratch worktree, compiles and
passes the unedited 101-test suite.  usage: confirm_refactors.py RF7 RF8 ...  (worktrees /tmp/wt/<RFn>)"""
import json, os, re, subprocess, sys
env = dict(os.environ, CARGO_NET_OFFLINE="true", RUST_BACKTRACE="0")
for rf in sys.argv[1:]:
    wt = "/tmp/wt/%s" % rf
    DIRN = os.environ.get("CONFIRM_DIR", "REFACTOR")
    src = os.path.join(wt, DIRN)
    for f in sorted(os.listdir(src)):
        if not f.endswith(".patch"):
            continue
        def sh(cmd):
            p = subprocess.run(cmd, shell=True, cwd=wt, env=env, stdout=subprocess.PIPE, stderr=subprocess.STDOUT, text=True)
            return p.returncode, p.stdout
        sh("git checkout -q -- . && git clean -fdq -e REFACTOR -e BENIGN -e target")
        rc, out = sh("git apply %s/%s" % (DIRN, f))
        if rc != 0:
            print(rf, f, "DOES NOT APPLY", out[-200:]); continue
        rc, out = sh("cargo test --workspace --no-fail-fast --offline 2>&1")
        passed = sum(int(x) for x in re.findall(r"test result: \w+\. (\d+) passed", out))
        failed = sum(int(x) for x in re.findall(r"test result: \w+\. \d+ passed; (\d+) failed", out))
        touched = subprocess.run("git diff --stat | tail -1", shell=True, cwd=wt, stdout=subprocess.PIPE, text=True).stdout.strip()
        sh("git checkout -q -- . && git clean -fdq -e REFACTOR -e BENIGN -e target")
        ok = passed == 101 and failed == 0 and rc == 0
        print("%s %s: %d passed / %d failed (%s) -> %s" % (rf, f, passed, failed, touched, "CONFIRMED" if ok else "REJECTED"))
        if not ok:
            os.rename(os.path.join(src, f), os.path.join(src, f + ".rejected"))
