"""C10 — a swap that succeeds honours max_spread and belief_price (DESIGN §5 C10)."""
import re
from .. import common, roles, lemmas, numeric, eround
from ..eround import RF, Translator, Unsupported, D18
from ..roles import P_, param, INFO_TY, ENV_TY, AnchorMissing
from ..mir import generic_path, proj, phi as mkphi


def spread_guard(P, pr):
    from .. import names
    N = names.get(P)
    f = pr.swap_handler
    out = []
    for b, p, fr, t in P.calls(f):
        if roles.is_workspace_fn(P, p):
            g = P.fn(p) or P.fn(generic_path(p))
            ns = names.norm_sig(g.sig) if g is not None and g.sig else None
            if ns and ns[1] == names.res("()", N.ContractError) and ns[0].count("std::option::Option<cosmwasm_std::Decimal>") == 2 and (b, g) not in out:
                out.append((b, g))
    if len(out) != 1:
        raise AnchorMissing("spread guard (callee of the swap handler: fn(Option<Decimal>, Option<Decimal>, ..) -> Result<(), ContractError>): %d found" % len(out))
    return out[0]


def pick_unscaled(v):
    """Rewrite phi nodes by choosing the alternative that contains no checked_mul (the equal-decimals branch)."""
    k = v[0]
    if k == "phi":
        def top(x):
            while True:
                if x[0] == "call" and isinstance(x[3], str) and (common.transparent_arg(x[3]) == 0 or common.is_try_branch(x[3])):
                    x = x[4][0]
                elif x[0] == "proj":
                    x = x[1]
                else:
                    return x
        alts = [x for x in v[1] if not (top(x)[0] == "call" and isinstance(top(x)[3], str) and common.last_seg(top(x)[3]) == "checked_mul")]
        if not alts:
            raise Unsupported("no unscaled alternative")
        # `if E > R' { E - R' } else { 0 }`: on the rejecting path the non-zero alternative is the live one
        nz = [x for x in alts if not (x[0] == "call" and isinstance(x[3], str) and common.last_seg(x[3]) == "zero")]
        return pick_unscaled((nz or alts)[0])
    if k == "call":
        return ("call", v[1], v[2], v[3], tuple(pick_unscaled(x) for x in v[4]))
    if k == "proj":
        return proj(pick_unscaled(v[1]), v[2])
    if k == "agg":
        return ("agg", v[1], v[2], tuple((n, pick_unscaled(x)) for n, x in v[3]))
    if k == "binop":
        return ("binop", v[1], pick_unscaled(v[2]), pick_unscaled(v[3]))
    if k == "cast":
        return ("cast", v[1], pick_unscaled(v[2]), v[3])
    return v


def exponent_of(ctx, g, v, od_i, rd_i, base_exp):
    """Decimal exponent (as a linear form {od: a, rd: b}) of an amount value inside the guard."""
    # strip conversions / Try
    while True:
        if v[0] == "call" and isinstance(v[3], str) and (common.transparent_arg(v[3]) == 0 or common.is_try_branch(v[3])):
            v = v[4][0]
        elif v[0] == "proj" and v[2][0] in ("v",) or (v[0] == "proj" and v[2] == ("f", 0) and v[1][0] == "proj" and v[1][2][0] == "v"):
            v = v[1]
        else:
            break
    if v[0] == "call" and isinstance(v[3], str) and common.last_seg(v[3]) == "checked_mul":
        e0 = exponent_of(ctx, g, v[4][0], od_i, rd_i, base_exp)
        sc = scale_exponent(ctx, g, v[4][1], od_i, rd_i)
        if e0 is None or sc is None:
            return None
        return {k: e0.get(k, 0) + sc.get(k, 0) for k in ("od", "rd")}
    rs = set(ctx.roots(v))
    for root, e in base_exp.items():
        if rs == {root}:
            return dict(e)
    return None


def scale_exponent(ctx, g, v, od_i, rd_i):
    """v == Uint128::from(10u64.pow((p - q).into())) -> {p: +1, q: -1}"""
    pw = [x for x in common.walk(v) if x[0] == "call" and isinstance(x[3], str) and common.last_seg(x[3]) == "pow"]
    if len(pw) != 1 or pw[0][4][0] != ("const", "int", 10):
        return None
    ex = pw[0][4][1]
    while ex[0] == "cast" or (ex[0] == "call" and isinstance(ex[3], str) and common.transparent_arg(ex[3]) == 0):
        ex = ex[2] if ex[0] == "cast" else ex[4][0]
    if ex[0] == "proj" and ex[2] == ("f", 0):
        ex = ex[1]
    if ex[0] == "binop" and ex[1] in ("Sub", "SubWithOverflow", "SubUnchecked"):
        names = {P_(g, od_i): "od", P_(g, rd_i): "rd"}
        a, b = "|".join(sorted(ctx.roots(ex[2]))), "|".join(sorted(ctx.roots(ex[3])))
        if a in names and b in names and a != b:
            out = {"od": 0, "rd": 0}
            out[names[a]] += 1
            out[names[b]] -= 1
            return out
    return None


def _run(ctx):
    P = ctx.P
    r1 = ctx.inst("C10.R1", "swap handler: the spread guard is passed, error propagated, before the payout; arguments = (belief, max_spread, named offer, priced return, priced spread, decimals[offer index], decimals[ask index]) per selection branch", floor=7)
    u1 = ctx.inst("C10.U1", "dimension analysis of the decimals normalisation: in each of the three branches offer', return', spread' carry the same decimal exponent", floor=3)
    g1 = ctx.inst("C10.G1", "guard shape: belief mode rejects iff R' < E and floor((E-R')D/E) > s with E = floor(O'D/p); spread mode rejects iff floor(S'D/(R'+S')) > s; modes selected by the two options", floor=3)
    n1 = ctx.inst("C10.N1", "belief mode soundness: Ok => R' >= (O'/p - 1)(1 - s - 10^-18) (cases R' >= E and ratio <= s; certificates)", floor=2)
    n2 = ctx.inst("C10.N2", "belief mode completeness: R' >= (O'/p)(1 - s) => not rejected", floor=1)
    n3 = ctx.inst("C10.N3", "spread mode: Ok => S'/(R'+S') <= s + 10^-18 ; rejected => S'/(R'+S') > s", floor=2)
    r2 = ctx.inst("C10.R2", "the guard's inputs come from the reserves queried in the executing call (shared with C01.R1)", floor=5)
    try:
        pr = roles.PairRoles(P)
        gb, g = spread_guard(P, pr)
        pricing, pbb = numeric.pricing_fn(ctx, pr)
    except AnchorMissing as e:
        for r in (r1, u1, g1, n1, n2, n3, r2):
            r.fail("%s:anchor" % r.id, "-", "-", "anchor-missing: %s" % e)
        return
    swap = pr.swap_handler
    body = swap.body
    gty = lambda i: common.strip_ty(g.body.locals[i]["ty"])        # `&Asset` and `Asset` are the same parameter
    opts = [i - 1 for i in range(1, g.body.arg_count + 1) if re.match(r"^std::option::Option<cosmwasm_std::\S*Decimal>$", gty(i))]
    assets = [i - 1 for i in range(1, g.body.arg_count + 1) if gty(i) == ctx.N.Asset]
    u8s = [i - 1 for i in range(1, g.body.arg_count + 1) if gty(i) == "u8"]
    sp_i = common.param_index_of_type(g, r"^cosmwasm_std::\S*Uint128$")
    if len(opts) != 2 or len(assets) != 2 or len(u8s) != 2 or sp_i is None:
        g1.fail("C10.G1:anchor", g.path, g.span, "anchor-missing: guard parameters (2 Option<Decimal>, 2 Asset, Uint128, 2 u8)")
        return
    # roles of the same-typed parameters are fixed by their use inside the guard (below); start with positional guess, verify by use
    gbody = g.body
    # ---- which option is belief / max_spread: max_spread is the one compared (gt) against the ratios; belief divides the offer
    guards = [gg for gg in common.bool_guards(P, g) if gg.cond[0] == "cmp"]
    divs = [x for gg in guards for a in gg.cond[2] for x in common.walk(a) if x[0] == "call" and isinstance(x[3], str) and re.search(r"Uint256 as (core|std)::ops::Div<bignumber::(\w+::)*Decimal256>>::div$", x[3])]
    belief_i = spread_i = None
    for x in divs:
        for r in ctx.roots(x[4][1]):
            m = re.match(r"^P:%s#(\d+)$" % re.escape(g.path), r)
            if m and int(m.group(1)) in opts:
                belief_i = int(m.group(1))
    if belief_i is not None:
        spread_i = [o for o in opts if o != belief_i][0]
    if belief_i is None:
        g1.fail("C10.G1:belief-role", g.path, g.span, "no `offer / belief_price` found in the guard: unrecognised-idiom")
        return
    # offer asset = the one divided by belief; return asset = the other
    offer_ai = ret_ai = None
    for x in divs:
        rs = set(ctx.roots(x[4][0]))
        for y in common.walk(x[4][0]):
            if y[0] in ("param", "proj"):
                rs |= set(ctx.roots(y))        # through an unconditional `amount.checked_mul(scale)`
        for a in assets:
            if P_(g, a, ".amount") in rs:
                offer_ai = a
    if offer_ai is None:
        g1.fail("C10.G1:offer-role", g.path, g.span, "the expected return is not computed from an asset amount: unrecognised-idiom")
        return
    ret_ai = [a for a in assets if a != offer_ai][0]
    # decimals: the one paired with the offer in the Greater branch scaling. Determine by U1 below; provisional: cmp(od, rd) arguments order
    cmps = [(b, P.val_call(g, gbody, b)) for b, p, fr, t in P.calls(g) if p and common.last_seg(p) == "cmp"]
    u8roots = {P_(g, k_) for k_ in u8s}
    cmps = [(b, v_) for b, v_ in cmps if len(v_[4]) == 2 and set(ctx.roots(v_[4][0])) | set(ctx.roots(v_[4][1])) <= u8roots]      # other `cmp` calls compare amounts
    if len(cmps) > 1:
        u1.fail("C10.U1:cmp", g.path, g.span, "expected one Ordering comparison of the two decimals, found %d: unrecognised-idiom" % len(cmps))
        return
    if cmps:
        cb, cv = cmps[0]
        c0, c1 = "|".join(sorted(ctx.roots(cv[4][0]))), "|".join(sorted(ctx.roots(cv[4][1])))
        m0, m1 = re.match(r"^P:%s#(\d+)$" % re.escape(g.path), c0), re.match(r"^P:%s#(\d+)$" % re.escape(g.path), c1)
        if not m0 or not m1 or {int(m0.group(1)), int(m1.group(1))} != set(u8s):
            u1.fail("C10.U1:cmp-operands", g.path, common.span_of_block_term(g, cb), "the Ordering comparison is not between the two decimals parameters")
            return
        CMP = "C:%s@%s:bb%d" % (generic_path(cv[3]), g.path, cb)
    else:
        # `if a > b {..} else if a < b {..} else {..}`: the same three-way split written with two comparisons
        c0, c1 = P_(g, u8s[0]), P_(g, u8s[1])
        m0 = re.match(r"^P:%s#(\d+)$" % re.escape(g.path), c0)
        m1 = re.match(r"^P:%s#(\d+)$" % re.escape(g.path), c1)
        CMP = None

    def three_way(cs_):
        """Greater / Less / Equal of (c0, c1) stated by a set of condition strings, else None."""
        if "lt(%s, %s)" % (c1, c0) in cs_:
            return "Greater"
        if "lt(%s, %s)" % (c0, c1) in cs_:
            return "Less"
        if ("le(%s, %s)" % (c0, c1) in cs_ and "le(%s, %s)" % (c1, c0) in cs_) or "eq(%s) is [True]" % ", ".join(sorted([c0, c1])) in cs_:
            return "Equal"
        return None
    # ---- U1: find the three tuples and their branches --------------------------------------------------------
    tuples = {}
    for b, blk in enumerate(gbody.blocks):
        if blk["cleanup"]:
            continue
        for i, st in enumerate(blk["stmts"]):
            if st["k"] == "assign" and st["rv"]["k"] == "agg" and st["rv"]["agg"] == "tuple" and len(st["rv"]["ops"]) == 3:
                v = P.val_rvalue(g, gbody, (b, i), st["rv"])
                conds = common.control_conditions(P, g, b)
                br = None
                for c in conds:
                    if CMP and c["cond"][0] == "discr" and "|".join(sorted(ctx.roots(c["cond"][1]))) == CMP and len(c["allowed"]) == 1:
                        br = c["allowed"][0]
                if br is None and CMP is None:
                    br = three_way(lemmas.cond_strings(ctx, conds))
                if br:
                    tuples[br] = (b, v)
    if sorted(tuples) != ["Equal", "Greater", "Less"] and CMP is None:
        u1.fail("C10.U1:cmp", g.path, g.span, "expected one Ordering comparison of the two decimals (or an if / else-if chain over them), found none: unrecognised-idiom")
        return
    if sorted(tuples) != ["Equal", "Greater", "Less"]:
        # scale form: the `match cmp` only yields the scale factors; offer, return and spread are each multiplied once,
        # unconditionally, by a factor whose value depends on the branch.  Evaluate every factor per branch.
        sw_ = [b for b, blk in enumerate(gbody.blocks) if not blk["cleanup"] and blk["term"]["k"] == "switch" and
               (common.switch_cond(P, g, b) or (None,))[0] == "discr" and "|".join(sorted(ctx.roots(common.switch_cond(P, g, b)[1]))) == CMP]
        srcroots = {"offer": P_(g, offer_ai, ".amount"), "return": P_(g, ret_ai, ".amount"), "spread": P_(g, sp_i)}
        muls = {}
        for b, p, fr, t in P.calls(g):
            if p and common.last_seg(p) == "checked_mul":
                mv = P.val_call(g, gbody, b)
                for nm, rt in srcroots.items():
                    if set(ctx.roots(mv[4][0])) == {rt}:
                        muls.setdefault(nm, []).append(b)
        ok_form = len(sw_) == 1 and sorted(muls) == ["offer", "return", "spread"] and all(len(v_) == 1 for v_ in muls.values())
        if ok_form:
            t_ = gbody.blocks[sw_[0]]["term"]
            ty_ = common.discr_place_ty(g, sw_[0])
            arms_ = {common.variant_name(P, ty_, val): tb for val, tb in t_["arms"]}
            rest_ = [x for x in ("Greater", "Less", "Equal") if x not in arms_]
            if len(rest_) == 1 and gbody.blocks[t_["otherwise"]]["term"]["k"] != "unreachable":
                arms_[rest_[0]] = t_["otherwise"]
            ok_form = sorted(arms_) == ["Equal", "Greater", "Less"] and all(
                not any(c_["sw"] == sw_[0] for c_ in common.control_conditions(P, g, bs_[0])) for bs_ in muls.values())
        if not ok_form:
            u1.fail("C10.U1:branches", g.path, g.span, "normalised (offer, return, spread) tuples found for branches %s, expected Greater/Less/Equal" % sorted(tuples))
            return
        m0i, m1i = int(m0.group(1)), int(m1.group(1))
        verdicts = {}
        for od_i, rd_i in ((m0i, m1i), (m1i, m0i)):
            good = True
            why_ = []
            for br, tb in sorted(arms_.items()):
                region = common.region_of_edge(gbody, (sw_[0], tb))
                exps = {}
                for nm in ("offer", "return", "spread"):
                    mb = muls[nm][0]
                    opnd = gbody.blocks[mb]["term"]["args"][1]
                    sv_ = P.val_operand_in(g, (mb, len(gbody.blocks[mb]["stmts"])), opnd, region)
                    x_ = sv_
                    while x_[0] == "cast" or (x_[0] == "call" and isinstance(x_[3], str) and common.transparent_arg(x_[3]) == 0):
                        x_ = x_[2] if x_[0] == "cast" else x_[4][0]
                    sc = {"od": 0, "rd": 0} if x_ == ("const", "int", 1) else scale_exponent(ctx, g, sv_, od_i, rd_i)
                    if sc is None:
                        good = False
                        why_.append((br, mb, "the %s factor on this branch is neither 1 nor 10^(p - q): unrecognised-idiom" % nm))
                        continue
                    base_ = {"offer": {"od": 1, "rd": 0}, "return": {"od": 0, "rd": 1}, "spread": {"od": 0, "rd": 1}}[nm]
                    exps[nm] = {k_: base_[k_] + sc[k_] for k_ in ("od", "rd")}
                if len(exps) == 3:
                    es = [exps["offer"], exps["return"], exps["spread"]]
                    if br == "Equal":
                        es = [{"od": e_["od"] + e_["rd"], "rd": 0} for e_ in es]
                    if not (es[0] == es[1] == es[2]):
                        good = False
                        why_.append((br, muls["spread"][0], "offer', return', spread' carry exponents %s: they are compared / added / divided with different decimal scales" % (es,)))
            verdicts[(od_i, rd_i)] = (good, why_)
        goods = [k_ for k_, (g_, w_) in verdicts.items() if g_]
        if not goods:
            for br, b_, why in verdicts[(m0i, m1i)][1]:
                u1.fail("C10.U1:%s" % br, g.path, common.span_of_block_term(g, b_), "branch %s: %s" % (br, why))
            od_i, rd_i = u8s[0], u8s[1]
        else:
            od_i, rd_i = goods[0]
            for br in ("Equal", "Greater", "Less"):
                u1.site("branch %s: offer', return', spread' all carry exponent max(od, rd) (scale-factor form)" % br)
        consistent = (od_i, rd_i)
        tuples = None
    if tuples is not None:
        # try both assignments of (od, rd) to the u8 parameters: the consistent one defines the roles
        consistent = None
        reports = {}
        for od_i, rd_i in ((int(m0.group(1)), int(m1.group(1))), (int(m1.group(1)), int(m0.group(1)))):
            base = {P_(g, offer_ai, ".amount"): {"od": 1, "rd": 0}, P_(g, ret_ai, ".amount"): {"od": 0, "rd": 1}, P_(g, sp_i): {"od": 0, "rd": 1}}
            ok = True
            rep = []
            for br, (b, v) in sorted(tuples.items()):
                exps = [exponent_of(ctx, g, x, od_i, rd_i, base) for _, x in v[3]]
                # which source does each component have
                srcs = []
                for _, x in v[3]:
                    rs = set()
                    for y in common.walk(x):
                        rs |= set(ctx.roots(y)) if y[0] in ("param", "proj") else set()
                    srcs.append("offer" if P_(g, offer_ai, ".amount") in rs else "return" if P_(g, ret_ai, ".amount") in rs else "spread" if P_(g, sp_i) in rs else "?")
                if srcs != ["offer", "return", "spread"]:
                    ok = False
                    rep.append((br, b, "components are (%s), expected (offer, return, spread)" % ", ".join(srcs)))
                    continue
                if None in exps:
                    ok = False
                    rep.append((br, b, "a component's scaling is not `amount * 10^(p - q)`: unrecognised-idiom"))
                    continue
                if br == "Equal":
                    # od == rd on this branch: compare total weights
                    exps = [{"od": e["od"] + e["rd"], "rd": 0} for e in exps]
                if not (exps[0] == exps[1] == exps[2]):
                    ok = False
                    rep.append((br, b, "offer', return', spread' carry exponents %s: they are compared / added / divided with different decimal scales" % (
                        ["%dod%+drd" % (e["od"], e["rd"]) for e in exps])))
                else:
                    rep.append((br, b, None))
            reports[(od_i, rd_i)] = (ok, rep)
            if ok:
                consistent = (od_i, rd_i)
        if consistent is None:
            # report against the positional reading (first u8 = offer decimals)
            ok, rep = reports[(u8s[0], u8s[1])] if (u8s[0], u8s[1]) in reports else list(reports.values())[0]
            for br, b, why in rep:
                if why:
                    u1.fail("C10.U1:%s" % br, g.path, common.span_of_block_term(g, b), "branch %s: %s" % (br, why))
            od_i, rd_i = u8s[0], u8s[1]
        else:
            od_i, rd_i = consistent
            for br, b, why in reports[consistent][1]:
                u1.site("branch %s: offer', return', spread' all carry exponent max(od, rd)" % br)
            # the branch with od > rd must be the one scaling return/spread: sub exponent p-q with p the larger => no underflow
    # ---- R1 wiring in the swap handler ---------------------------------------------------------------------------
    sv = P.val_call(swap, body, gb)
    offer_i = common.param_index_of_type(swap, "^%s$" % ctx.N.rx("Asset"))
    sopts = common.param_accesses(P, swap, r"^std::option::Option<cosmwasm_std::\S*Decimal>$")
    PR = "C:%s@%s:bb%d" % (pricing.path, swap.path, pbb)
    # belief / max_spread: by the message field they originate from (both entry paths)
    for label, arm in (("direct", pr.swap_direct), ("hook", pr.swap_hook)):
        disp, edge, region, h, callbb = arm
        dv = P.val_call(disp, disp.body, callbb)
        names = {}
        for so in sopts:
            rs = "|".join(sorted(so.arg_roots(ctx.R, dv)))
            mm = re.search(r"~Swap\.(belief_price|max_spread)$", rs)
            names[so] = mm.group(1) if mm else rs
        gnames = {}
        for so in sopts:
            for go in opts:
                if set(ctx.roots(sv[4][go])) == {so.root()}:
                    gnames[go] = names[so]
        if gnames.get(belief_i) != "belief_price" or gnames.get(spread_i) != "max_spread":
            r1.fail("C10.R1:%s:option-roles" % label, swap.path, common.span_of_block_term(swap, gb),
                    "%s path: the guard's price/limit roles receive %s / %s, expected the message's belief_price / max_spread" % (label, gnames.get(belief_i), gnames.get(spread_i)))
        else:
            r1.site("%s path: belief_price / max_spread ⊢ message fields, in matching roles" % label)
    if set(ctx.roots(sv[4][offer_ai])) != {P_(swap, offer_i)}:
        r1.fail("C10.R1:offer", swap.path, common.span_of_block_term(swap, gb), "guard's offer asset ⊢ %s, expected the named offer asset" % sorted(ctx.roots(sv[4][offer_ai])))
    if set(ctx.roots(sv[4][ret_ai], (("f", "amount"),))) != {PR + ".0"}:
        r1.fail("C10.R1:return", swap.path, common.span_of_block_term(swap, gb), "guard's return amount ⊢ %s, expected the priced return (.0)" % sorted(ctx.roots(sv[4][ret_ai], (("f", "amount"),))))
    elif set(ctx.roots(sv[4][sp_i])) != {PR + ".1"}:
        r1.fail("C10.R1:spread", swap.path, common.span_of_block_term(swap, gb), "guard's spread ⊢ %s, expected the priced spread (.1)" % sorted(ctx.roots(sv[4][sp_i])))
    else:
        r1.site("offer ⊢ named offer asset; return ⊢ pricing.0; spread ⊢ pricing.1")
    # decimals per selection branch
    qp = [(b, P.val_call(swap, body, b)) for b, p, fr, t in P.calls(swap) if ctx.N.is_fn(p, "query_pools")]
    QP = "C:%s@%s:bb%d" % (ctx.N.cpath("query_pools"), swap.path, qp[0][0]) if len(qp) == 1 else "?"
    from .. import selection
    try:
        S = selection.PoolSelection(ctx, swap, offer_i, QP)
        cases = list(S.cases())
    except AnchorMissing:
        S, cases = None, []
    t = body.blocks[gb]["term"]
    n = len(body.blocks[gb]["stmts"])
    for which, gi in (("offer", od_i), ("ask", rd_i)):
        a = t["args"][gi]
        for k in cases:
            v = S.value((gb, n), a, k)
            want = k if which == "offer" else 1 - k
            rs = set(ctx.roots(v))
            if rs != {"load(%s).asset_decimals[%d]" % (ctx.N.PAIR_INFO, want)}:
                r1.fail("C10.R1:decimals:%s:branch%d" % (which, k), swap.path, common.span_of_block_term(swap, gb),
                        "branch `offer is pools[%d]`: %s decimals ⊢ %s, expected asset_decimals[%d]" % (k, which, sorted(rs), want))
            else:
                r1.site("offer == pools[%d]: %s decimals = asset_decimals[%d]" % (k, which, want))
        if cases != [0, 1]:
            r1.fail("C10.R1:decimals-coverage:%s" % which, swap.path, common.span_of_block_term(swap, gb), "the offer / ask selection of the swap handler was not recognised: unrecognised-idiom")
    pg = common.propagated(P, swap, gb)
    tc = lemmas.transfer_ctor(P)
    pays = pr.calls_to(swap, tc)
    if pg is None:
        r1.fail("C10.R1:not-propagated", swap.path, common.span_of_block_term(swap, gb), "the spread guard's verdict is ignored")
    else:
        s_, cont, brk = pg
        ok, why = common.fail_edge_only_errors(P, swap, brk, pays)
        if not ok:
            r1.fail("C10.R1:error-not-returned", swap.path, common.span_of_block_term(swap, gb), "a rejected swap does not abort: %s" % why)
        for b in pays + [x[0] for x in common.ok_exit_blocks(P, swap)]:
            if not body.edge_dominates(cont, b):
                r1.fail("C10.R1:not-dominating", swap.path, common.span_of_block_term(swap, b), "the payout / success exit is reachable without the spread guard having accepted")
        if r1.status == "pass":
            r1.site("guard propagated; dominates the payout and the success exit")
    # ---- G1: guard shape by term comparison ---------------------------------------------------------------------------
    T = Translator(P)
    O, R, S = T.var("O"), T.var("R"), T.var("S")
    p_, s_ = T.var("p"), T.var("s")
    env = {proj(common.param_value(g, offer_ai), ("f", "amount")): O, proj(common.param_value(g, ret_ai), ("f", "amount")): R, common.param_value(g, sp_i): S,
           proj(proj(common.param_value(g, belief_i), ("v", "Some")), ("f", 0)): p_, proj(proj(common.param_value(g, spread_i), ("v", "Some")), ("f", 0)): s_}
    E_ref = T.floors.floor(O * RF(D18) / p_, "ref E")
    ratio_b_ref = T.floors.floor((E_ref - R) * RF(D18) / E_ref, "ref belief ratio")
    ratio_s_ref = T.floors.floor(S * RF(D18) / (R + S), "ref spread ratio")
    errs = []
    for (b, i, cls, v) in common.exit_sites(P, g):
        if cls == "err" and (v[0] == "agg" or common.rejects_via_check_helper(P, v)):
            for conj in common.control_conditions_dnf(P, g, b):      # one entry per way of reaching the rejection
                # drop duplicate statements of the same switch outcome
                seen_, cj = set(), []
                for c_ in conj:
                    k_ = (c_["sw"], str(c_["cond"][:2]), str(c_["allowed"]))
                    if k_ not in seen_:
                        seen_.add(k_)
                        cj.append(c_)
                errs.append((b, cj))
    modes = {}
    for b, conds in errs:
        both = any(c["cond"][0] == "discr" and set(ctx.roots(c["cond"][1])) == {P_(g, belief_i)} and c["allowed"] == ["Some"] for c in conds)
        ms = any(c["cond"][0] == "discr" and set(ctx.roots(c["cond"][1])) == {P_(g, spread_i)} and c["allowed"] == ["Some"] for c in conds)
        cmpc = [c for c in conds if c["cond"][0] == "cmp"]
        if not ms:
            g1.fail("C10.G1:mode-select", g.path, common.span_of_block_term(g, b), "a MaxSpreadAssertion exit is not conditioned on max_spread being Some")
            continue
        mode = "belief" if both else "spread"
        if mode == "spread":
            # the pool-spread test is the fallback for `belief_price == None` only: with a belief price given, the property
            # promises that a return of at least (offer/p)(1-s) is never rejected by this guard
            def _is(c, pi, var):
                return c["cond"][0] == "discr" and set(ctx.roots(c["cond"][1])) == {P_(g, pi)} and c["allowed"] == [var]
            none_b = any(_is(c, belief_i, "None") for c in conds)
            if not none_b:
                # `if let (Some(p), Some(s)) = (..) {..} else if let Some(s) = max_spread` reaches the fallback over two
                # else-edges (belief None | max_spread None), which no single control condition states: decide it per path
                pcs = common.path_conjunctions(P, g, b)
                if pcs is not None:
                    feas = [pc for pc in pcs if not any(_is(c, pi, "None") for c in pc for pi in (belief_i, spread_i)
                                                        if any(_is(c2, pi, "Some") for c2 in pc))]
                    none_b = bool(feas) and all(any(_is(c, belief_i, "None") for c in pc) for pc in feas)
            if not none_b:
                g1.fail("C10.G1:spread-mode-unconditional", g.path, common.span_of_block_term(g, b),
                        "the pool-spread rejection is not restricted to calls without a belief price: with belief_price given, a swap whose return satisfies the belief bound can still be rejected")
                continue
        modes[mode] = (b, cmpc)
    if sorted(modes) != ["belief", "spread"]:
        g1.fail("C10.G1:modes", g.path, g.span, "rejecting exits found for modes %s, expected belief and spread" % sorted(modes))
    else:
        g1.site("modes selected by (max_spread, belief_price) = (Some, Some) / (Some, None)")

    def tr(v):
        return T.tr(pick_unscaled(v), env)
    try:
        if "belief" in modes:
            b, cmpc = modes["belief"]
            have_lt = have_gt = False
            for c in cmpc:
                cd = c["cond"]
                kind, (a, b_) = cd[1], cd[2]
                al = c["allowed"]
                if kind in ("gt", "ge"):
                    a, b_ = b_, a
                    kind = {"gt": "lt", "ge": "le"}[kind]
                if kind in ("lt", "le") and al == [False]:
                    # not (a < b) == b <= a ;  not (a <= b) == b < a
                    a, b_ = b_, a
                    kind = {"lt": "le", "le": "lt"}[kind]
                    al = [True]
                ta, tb = tr(a), tr(b_)
                if kind == "lt" and al == [True] and ta.equals(R) and tb.equals(E_ref):
                    have_lt = True
                elif kind == "lt" and al == [True] and ta.equals(s_) and tb.equals(ratio_b_ref):
                    have_gt = True
                else:
                    g1.fail("C10.G1:belief-cond", g.path, common.span_of_block_term(g, c["sw"]),
                            "belief mode rejects under %s(%s, %s) == %s; expected R' < E and ratio > s with E = floor(O'D/p), ratio = floor((E-R')D/E)" % (kind, ta.show(), tb.show(), al))
            if have_lt and have_gt:
                g1.site("belief mode: reject iff R' < floor(O'D/p) ∧ floor((E-R')D/E) > s")
            elif g1.status == "pass":
                g1.fail("C10.G1:belief-incomplete", g.path, common.span_of_block_term(g, b), "belief mode rejection lacks one of its two conditions")
        if "spread" in modes:
            b, cmpc = modes["spread"]
            okc = False
            for c in cmpc:
                cd = c["cond"]
                kind, (a, b_) = cd[1], cd[2]
                al = c["allowed"]
                if kind in ("gt", "ge"):
                    a, b_ = b_, a
                    kind = {"gt": "lt", "ge": "le"}[kind]
                if kind in ("lt", "le") and al == [False]:
                    # not (a < b) == b <= a ;  not (a <= b) == b < a
                    a, b_ = b_, a
                    kind = {"lt": "le", "le": "lt"}[kind]
                    al = [True]
                ta, tb = tr(a), tr(b_)
                if kind == "lt" and al == [True] and ta.equals(s_) and tb.equals(ratio_s_ref):
                    okc = True
                else:
                    g1.fail("C10.G1:spread-cond", g.path, common.span_of_block_term(g, c["sw"]),
                            "spread mode rejects under %s(%s, %s) == %s; expected floor(S'D/(R'+S')) > s" % (kind, ta.show(), tb.show(), al))
            if okc:
                g1.site("spread mode: reject iff floor(S'D/(R'+S')) > s")
    except Unsupported as e:
        g1.fail("C10.G1:untranslatable", g.path, g.span, "cannot interpret the guard's comparisons (%s): unrecognised-idiom" % e)
    # Ok exits: reachable with max_spread None, or with both comparisons' reject conditions false
    # ---- N obligations on the reference terms (equal to the code's terms by G1) -------------------------------------------
    D = RF(D18)
    z, w, sig, eb = RF.var("z"), RF.var("w"), RF.var("sigma"), RF.var("e8")
    # binding assumptions: O' = p(1+z)/D  (offer/p >= 1),  s = (D-1) sigma  (s <= 1 - 10^-18)
    base_cert = [("O", p_ * (RF(1) + z) / D), ("s", (D - RF(1)) * sig)]
    target = R - (O * D / p_ - RF(1)) * (RF(1) - s_ / D - RF(1) / D)
    numeric.run_obligation(n1, "C10.N1a", g, T, target, "case R' >= E (R' = E + w)", box=("sigma",), subst=[("R", E_ref + w)] + base_cert)
    numeric.run_obligation(n1, "C10.N1b", g, T, target, "case ratio <= s (R' = E(1 - (s+e)/D) + w)", box=("sigma", "e8"),
                           subst=[("R", E_ref * (RF(1) - (s_ + eb) / D) + w)] + base_cert)
    # completeness: R' = (O'D/p)(1 - s/D) + w  =>  s*E - (E - R')*D >= 0   (then ratio <= s)
    numeric.run_obligation(n2, "C10.N2", g, T, s_ * E_ref - (E_ref - R) * D, "R' >= (O'/p)(1-s) => (E-R')D <= s*E, hence floor((E-R')D/E) <= s",
                           box=("sigma",), subst=[("R", (O * D / p_) * (RF(1) - s_ / D) + w), ("s", D * sig)])
    # spread mode soundness: accepted means floor(S'D/(R'+S')) <= s, i.e. s = floor + w
    numeric.run_obligation(n3, "C10.N3", g, T, (s_ + RF(1)) / D - S / (R + S), "accepted (s = floor(S'D/(R'+S')) + w) => S'/(R'+S') <= (s+1)/D", subst=[("s", ratio_s_ref + w)])
    numeric.run_obligation(n3, "C10.N4", g, T, S * D / (R + S) - s_, "rejected (s = floor(..) - 1 - w) => S'D/(R'+S') >= s", subst=[("s", ratio_s_ref - RF(1) - w)])
    # ---- R2 -----------------------------------------------------------------------------------------------------------------
    from . import c01
    sub = type(ctx)(ctx.prop, P)
    c01.run(sub)
    for i in sub.instances:
        if i.id == "C01.R1":
            r2.sites.extend("%s: %s" % (i.id, x) for x in i.sites[:6])
            for f_ in i.failures:
                r2.fail("C10.R2:%s" % f_["key"], f_["fn"], f_["span"], "[%s] %s" % (i.id, f_["reason"]))
    ctx.extra.setdefault("terms", {})["spread_guard"] = ["%s = floor(%s)  <- %s" % (a, b.show(), o) for a, b, o in T.floors.items]
    ctx.assumptions.append("obligations N1/N2 are stated under the statement's own binding conditions (offer/p >= 1, s <= 1 - 10^-18); the 0/0 abort of spread mode when return and spread are both zero is an abort, not a verdict")


def run(ctx):
    from .. import numeric
    _run(ctx)
    numeric.arith_base(ctx, "C10.B1")
    abort_freedom(ctx)


def abort_freedom(ctx):
    """C10.A1: the guard itself never aborts on a subtraction — `a - b` (256-bit operator or the u8 decimals difference) is
    only evaluated where the path conditions state a > b or a >= b for these very operands.  An abort inside the guard
    refuses the swap just like a rejection does, so it counts against the completeness clause."""
    P = ctx.P
    a1 = ctx.inst("C10.A1", "no aborting subtraction in the spread guard: every `a - b` is dominated by a comparison stating a > b / a >= b of the same operands", floor=2)
    try:
        pr = roles.PairRoles(P)
        gb, g = spread_guard(P, pr)
    except AnchorMissing as e:
        a1.fail("C10.A1:anchor", "-", "-", "anchor-missing: %s" % e)
        return
    body = g.body

    def facts(b):
        out = []
        for c in common.control_conditions(P, g, b):
            cd = c["cond"]
            if cd[0] == "cmp" and cd[1] in ("lt", "le", "gt", "ge") and len(cd[2]) == 2 and len(c["allowed"]) == 1 and c["allowed"][0] in (True, False):
                x, y = cd[2]
                kind = cd[1]
                if kind in ("lt", "le"):
                    x, y = y, x
                    kind = {"lt": "gt", "le": "ge"}[kind]
                if not c["allowed"][0]:
                    x, y = y, x
                    kind = {"gt": "ge", "ge": "gt"}[kind]
                out.append((frozenset(ctx.roots(x)), frozenset(ctx.roots(y))))
            elif cd[0] == "discr" and cd[1][0] == "call" and isinstance(cd[1][3], str) and common.last_seg(cd[1][3]) == "cmp" and len(cd[1][4]) == 2:
                x, y = cd[1][4]
                al = set(c["allowed"])
                if al and al <= {"Greater", "Equal"}:
                    out.append((frozenset(ctx.roots(x)), frozenset(ctx.roots(y))))
                elif al and al <= {"Less", "Equal"}:
                    out.append((frozenset(ctx.roots(y)), frozenset(ctx.roots(x))))
        return out
    subs = []
    for b, p, fr, t in P.calls(g):
        if p and re.search(r"ops::(arith::)?Sub(<[^>]*>)?>::sub$", p):
            v = P.val_call(g, body, b)
            subs.append((b, v[4][0], v[4][1], common.span_of_block_term(g, b)))
    for b, blk in enumerate(body.blocks):
        if blk["cleanup"]:
            continue
        for i, st in enumerate(blk["stmts"]):
            if st["k"] == "assign" and st["rv"]["k"] == "binop" and st["rv"].get("op") in ("Sub", "SubWithOverflow", "SubUnchecked") and "!x" not in st.get("span", ""):
                x = P.val_operand(g, (b, i), st["rv"]["a"], body)
                y = P.val_operand(g, (b, i), st["rv"]["b"], body)
                subs.append((b, x, y, st["span"]))
    for b, x, y, span in subs:
        rx, ry = frozenset(ctx.roots(x)), frozenset(ctx.roots(y))
        if (rx, ry) in facts(b):
            a1.site("%s: %s - %s evaluated only under %s >= %s" % (span.replace("!x", "").split("/")[-1], sorted(rx)[0][-40:], sorted(ry)[0][-40:], sorted(rx)[0][-40:], sorted(ry)[0][-40:]))
        else:
            a1.fail("C10.A1:unguarded-sub:%s-%s" % ("|".join(sorted(rx))[-60:], "|".join(sorted(ry))[-60:]), g.path, span.replace("!x", ""),
                    "`%s - %s` can abort: no comparison of these operands (a > b, a >= b, or a `cmp` arm) is found on the way to it — a swap within the caller's bounds would fail instead of succeeding (if the operands are ordered by other means: unrecognised-idiom)" % (ctx.show(x, 3), ctx.show(y, 3)))
    # the decimals the guard normalises with are the pair's stored decimals: written at instantiation and by the factory-only
    # update, which replaces them by the factory's array exactly for the re-registered denom (a wrong slot skews every later swap)
    from .. import compose
    from . import c17
    r3 = ctx.inst("C10.R3", "stored asset_decimals stay the true decimals: the pair-side update applies the factory's array under the right condition and keeps the record otherwise (shared with C17.R5)", floor=3)
    compose.pull(ctx, r3, c17, {"C17.R5"}, "C10.R3", key_rx=r":(decimals|assignment-shape|any-predicate|loop-shape|condition|save-order|field:asset_infos|anchor|floor)")
