#!/usr/bin/env python3
"""Copy benign behaviour changes (observable behaviour differs somewhere, all 20 properties still hold — judged by the
sub-agent that wrote them and re-judged by hand for every alarm) into /verif/benign/ and run every check on each.
A firing check is either a FALSE ALARM (fix the machinery) or the change is not benign after all (recorded in
meta.json as "verdict": "not-benign" with the reason; it then counts as a detected change).
usage: harvest_benign.py [BN1 BN2 ...]   then reruns every stored change (or only ids given with --only)"""
import json, os, shutil, subprocess, sys
V = os.path.dirname(os.path.dirname(os.path.abspath(__file__)))
REPO = os.environ.get("HALO_REPO", "/repo")       # a scratch worktree (with HALO_CACHE) lets several corpus runs go in parallel
B = os.path.join(V, "benign")
os.makedirs(B, exist_ok=True)
args = [a for a in sys.argv[1:] if not a.startswith("--")]
only = [a for a in args if "-" in a]
for bn in [a for a in args if "-" not in a]:
    src = "/tmp/wt/%s/BENIGN" % bn
    if os.path.isdir(src):
        for f in sorted(os.listdir(src)):
            if f.endswith(".patch"):
                bid = "%s-%s" % (bn, f[:-6])
                d = os.path.join(B, bid)
                os.makedirs(d, exist_ok=True)
                shutil.copy(os.path.join(src, f), os.path.join(d, "patch.diff"))
                md = os.path.join(src, f[:-6] + ".md")
                if os.path.exists(md):
                    shutil.copy(md, os.path.join(d, "README.md"))
        only += [x for x in sorted(os.listdir(B)) if x.startswith(bn + "-")]
man = json.load(open(os.path.join(V, "MANIFEST.json")))
checks = [c["property_id"] for c in man["checks"]]
if os.environ.get("HALO_CHECKS"):
    checks = os.environ["HALO_CHECKS"].split(",")      # partial run while iterating on one rule (results are then partial too)
st = subprocess.run("git -C %s " % REPO + "status --porcelain", shell=True, stdout=subprocess.PIPE, text=True).stdout.strip()
if st:
    raise SystemExit("/repo has local modifications; refusing:\n" + st)
for bid in sorted(d for d in os.listdir(B) if os.path.isdir(os.path.join(B, d))):
    if only and bid not in only:
        continue
    d = os.path.join(B, bid)
    if subprocess.run("git -C %s " % REPO + "apply %s" % os.path.join(d, "patch.diff"), shell=True).returncode != 0:
        print(bid, "PATCH DOES NOT APPLY"); continue
    try:
        code = "import json,sys; sys.path.insert(0,%r); from analysis import engine; print('@@'+json.dumps(engine.evaluate_dry(%r)))" % (V, checks)
        p = subprocess.run([sys.executable, "-c", code], cwd=V, stdout=subprocess.PIPE, stderr=subprocess.STDOUT, text=True)
        line = [l for l in p.stdout.splitlines() if l.startswith("@@")]
        fired = {}
        if not line:
            fired = {"BUILD": [p.stdout[-600:]]}
        else:
            for c, vs in json.loads(line[0][2:]).items():
                if vs:
                    fired[c] = ["%s :: %s" % (v["key"] if "key" in v else v["instance"], v["reason"][:300]) for v in vs[:6]]
    finally:
        subprocess.run("git -C %s " % REPO + "checkout -- . && git -C %s clean -fdq -e target" % REPO, shell=True)
    mp = os.path.join(d, "meta.json")
    meta = json.load(open(mp)) if os.path.exists(mp) else {"id": bid, "verdict": "benign"}
    meta["alarms"] = fired
    json.dump(meta, open(mp, "w"), indent=1)
    if not fired:
        print("%-8s clean" % bid)
    elif meta.get("verdict") == "not-benign":
        exp = set(meta.get("breaks", []))
        print("%-8s NOT BENIGN (%s): fired %s%s" % (bid, ",".join(sorted(exp)), sorted(fired), "" if exp & set(fired) else "  -- EXPECTED PROPERTY SILENT"))
    elif meta.get("verdict") == "beyond-reach":
        print("%-8s alarm in %s (beyond reach of the technique: %s)" % (bid, ", ".join(sorted(fired)), meta.get("reason", "")[:90]))
    else:
        print("%-8s ALARM in %s" % (bid, ", ".join(sorted(fired))))
