"""Role discovery (DESIGN P2): entry points, dispatch arms, handlers — located by the wire
API (message enum variants, entry-point export names), never by helper names."""
import re
from . import common
from .mir import generic_path

CRATES = {"factory": "halo_factory", "pair": "halo_pair", "router": "halo_router"}
MEMBER_PREFIXES = ("bignumber::", "haloswap::", "halo_factory::", "halo_pair::", "halo_router::")


class AnchorMissing(Exception):
    pass


def entry(P, contract, name):
    """The cosmwasm entry point `name` (instantiate/execute/query/reply/migrate: wasm export names) of a contract."""
    crate = CRATES[contract]
    hits = [f for f in P.fns.values() if f.crate == crate and f.kind == "fn" and f.name == name and f.body is not None
            and "::tests::" not in f.path and re.match(r"^%s::\w+::%s$" % (crate, name), f.path)]
    # the entry point is the one whose last parameter is the contract's message type
    if len(hits) != 1:
        raise AnchorMissing("entry point %s::%s: %d candidates" % (crate, name, len(hits)))
    return hits[0]


def is_workspace_fn(P, path):
    if path is None:
        return False
    g = generic_path(path)
    if not g.startswith(MEMBER_PREFIXES) and not g.startswith("<"):
        return False
    f = P.fn(path) or P.fn(g)
    # methods of a trait the workspace itself defines (a private extension trait on `dyn Api`) are ordinary helpers
    return f is not None and f.body is not None and not f.derived and f.kind in ("fn", "assoc_fn") and \
        (f.impl_trait is None or str(f.impl_trait).startswith(MEMBER_PREFIXES))


def pools_call(ctx, fn):
    """Where `fn` reads the pair's reserves: (owner Fn, bb, call value, Roots view) of the single `query_pools` call, made
    by fn itself or by a private loop-free loader it calls (`let (pair_info, pools) = load_pair_and_pools(deps)?`), whose
    values are read with the loader's parameters bound to the call site's arguments.  None when there is not exactly one."""
    P = ctx.P
    direct = [(b, P.val_call(fn, fn.body, b)) for b, p, fr, t in P.calls(fn) if ctx.N.is_fn(p, "query_pools")]
    if len(direct) == 1:
        return fn, direct[0][0], direct[0][1], ctx.R
    if direct:
        return None
    hits = []
    for b, p, fr, t in P.calls(fn):
        if not is_workspace_fn(P, p):
            continue
        h = P.fn(p) or P.fn(generic_path(p))
        if h is None or h.path == fn.path or h.body.back_edges() or (h.j.get("vis") or "Public").startswith("Public"):
            continue
        inner = [(hb, P.val_call(h, h.body, hb)) for hb, hp, hfr, ht in P.calls(h) if ctx.N.is_fn(hp, "query_pools")]
        if not inner:
            continue
        if len(inner) != 1 or len([1 for c_, cb_ in P.callers(h.path) if c_.path == fn.path]) != 1:
            return None
        cv = P.val_call(fn, fn.body, b)
        hits.append((h, inner[0][0], inner[0][1], ctx.R.with_params(h.path, cv[4])))
    return hits[0] if len(hits) == 1 else None


def arm_handlers(P, fn, region):
    """Workspace (non-trait) functions called inside `region` of fn: [(bb, path)]."""
    out = []
    for b, p, fr, t in P.calls(fn):
        if b in region and is_workspace_fn(P, p):
            out.append((b, P.fn(p).path if P.fn(p) else generic_path(p)))
    return out


def dispatch_arms(P, contract):
    """{variant: (execute Fn, edge)} for the contract's ExecuteMsg."""
    from . import names
    ex = entry(P, contract, "execute")
    en = names.get(P).exec_enum(contract)
    d = common.dispatch(P, ex, en)
    if d is None:
        raise AnchorMissing("no match on %s in %s" % (en, ex.path))
    return ex, d


def forwarded_handler(P, fn, region):
    """The workspace function whose result is returned from the arm `region` (the handler of the arm)."""
    hs = []
    R = None
    for (b, i, cls, v) in common.exit_sites(P, fn):
        if b in region and isinstance(cls, tuple) and cls[0] == "forward" and is_workspace_fn(P, cls[1]):
            f = P.fn(cls[1]) or P.fn(generic_path(cls[1]))
            hs.append((b, f))
        elif b in region and cls == "ok":
            # `let res = handler(..)?; Ok(res.add_attribute(..))`: the handler's response returned through builder steps that
            # add no message — still the arm's handler
            R = R or common.Roots(P)
            rs = set(R.roots(v, (("v", "Ok"), ("f", 0))))
            m = re.match(r"^C:(\S+)@%s:bb(\d+)$" % re.escape(fn.path), list(rs)[0]) if len(rs) == 1 else None
            if m and is_workspace_fn(P, m.group(1)) and int(m.group(2)) in region:
                f = P.fn(m.group(1)) or P.fn(generic_path(m.group(1)))
                if f is not None and (int(m.group(2)), f) not in hs:
                    hs.append((int(m.group(2)), f))
    return hs


def descend_intermediate(P, disp, edge, region, h, callbb):
    """A dispatcher arm may forward to a thin per-variant handler (`swap_native(deps, env, info, request)`) that performs
    the arm's checks and tail-calls the real handler (`swap(deps, env, info, sender, ..)`).  The thin handler — private,
    one call site, every success exit forwarding one callee that itself takes DepsMut — then plays the dispatcher's part
    for that arm: (it, None, all its blocks, real handler, its call).  Its parameters stand for the arm's arguments
    (P._param_overrides, consulted by Roots), so provenance still reads in terms of the entry point's message."""
    depth = 0
    while depth < 2 and h is not None and h.body is not None:
        # handlers of a contract crate are conventionally `pub fn`; the workspace is the whole program, so their callers are known
        if (h.j.get("vis") or "Public").startswith("Public") and h.crate not in ("halo_pair", "halo_factory", "halo_router"):
            break
        hu = h
        if common.single_call_site(P, h) is None:
            # a forwarder shared by the direct and the hook arm (`enter_route(deps, env, sender, operations, ..)`): each arm
            # reads its own copy, whose parameters stand for that arm's arguments
            sites = [(c, b) for c, b in P.callers(h.path) if "::tests::" not in c.path and "mock_querier" not in c.path]
            if not (2 <= len(sites) <= 3) or any(f_.parent == h.path for f_ in P.fns.values() if f_.kind == "closure") or getattr(h, "clone_of", None):
                break
            hu = P.clone_fn(h, "%s:bb%d" % (getattr(disp, "clone_of", None) or disp.path, callbb), site=(disp, callbb))
        allb = set(range(len(hu.body.blocks)))
        hs2 = forwarded_handler(P, hu, allb)
        if len({f.path for _, f in hs2}) != 1 or len(hs2) != 1:
            break
        g = hs2[0][1]
        if g is None or g.body is None or not any(re.match(r"^cosmwasm_std::(\S*::)?Deps(Mut)?\b", g.body.locals[i]["ty"]) for i in range(1, g.body.arg_count + 1)):
            break
        if any(not (cls == "err" or (isinstance(cls, tuple) and cls[0] == "forward")) for (b, i, cls, v) in common.exit_sites(P, hu)):
            break
        cv = P.val_call(disp, disp.body, callbb)
        if not hasattr(P, "_param_overrides"):
            P._param_overrides = {}
        P._param_overrides[hu.path] = tuple(cv[4])
        common.OVERRIDDEN[hu.path] = (P, tuple(cv[4]))
        disp, edge, region, callbb, h = hu, None, allb, hs2[0][0], g
        depth += 1
    return disp, edge, region, h, callbb


def handler_of(P, contract, variant):
    """(dispatcher Fn, arm edge, arm region, handler Fn, call bb) of an ExecuteMsg variant."""
    ex, d = dispatch_arms(P, contract)
    if variant not in d:
        raise AnchorMissing("variant %s::%s has no dispatch arm" % (contract, variant))
    edge = d[variant]
    region = common.region_of_edge(ex.body, edge)
    hs = forwarded_handler(P, ex, region)
    if len(hs) != 1:
        raise AnchorMissing("arm %s::%s forwards to %d handlers" % (contract, variant, len(hs)))
    if variant == "Receive":
        return ex, edge, region, hs[0][1], hs[0][0]
    return descend_intermediate(P, ex, edge, region, hs[0][1], hs[0][0])


def hook_dispatch(P, contract):
    """(receive Fn, {variant: edge}) — the match on the cw20 hook enum inside the Receive handler."""
    from . import names
    _, _, _, recv, _ = handler_of(P, contract, "Receive")
    hk = names.get(P).hook_enum(contract)
    d = common.dispatch(P, recv, hk)
    if d is None:
        raise AnchorMissing("no match on %s in %s" % (hk, recv.path))
    return recv, d


def hook_handler_of(P, contract, variant):
    recv, d = hook_dispatch(P, contract)
    if variant not in d:
        raise AnchorMissing("hook variant %s::%s has no arm" % (contract, variant))
    edge = d[variant]
    region = common.region_of_edge(recv.body, edge)
    hs = forwarded_handler(P, recv, region)
    if len(hs) != 1:
        raise AnchorMissing("hook arm %s::%s forwards to %d handlers" % (contract, variant, len(hs)))
    return descend_intermediate(P, recv, edge, region, hs[0][1], hs[0][0])


def param(fn, ty_regex):
    i = common.located_param(fn, ty_regex)
    if i is None:
        raise AnchorMissing("%s has no unique parameter of type /%s/" % (fn.path, ty_regex))
    return i


def P_(fn, i, path=""):
    """Root string of parameter i of fn (plus a projection path); stated in the entry point's terms for a thin per-variant
    handler (descend_intermediate), as Roots does."""
    return common.param_root(fn, i, path)


def arm_handler(P, q, region, what):
    """(call block, function) of the handler a dispatch arm delegates to: the workspace call in the arm that receives the
    message's own fields.  Other workspace calls of the arm (a response encoder applied to the handler's result, a context
    loader feeding the handler) are plumbing around it."""
    hs = [(b, P.fn(p) or P.fn(generic_path(p))) for b, p, fr, t in P.calls(q) if b in region and is_workspace_fn(P, p)]
    hs = [(b, g) for b, g in hs if g is not None]
    if len(hs) > 1:
        R = common.Roots(P)
        msg_is = [i for i in range(q.body.arg_count) if re.search(r"(Query|Execute|Cw20Hook)Msg$", common.strip_ty(q.body.locals[i + 1]["ty"]))]
        pre = tuple("P:%s#%d" % (q.path, i) for i in msg_is)
        fed = []
        for b, g in hs:
            cv = P.val_call(q, q.body, b)
            if any(r.startswith(pre) or any(x in r for x in pre) for a in cv[4] for r in R.roots(a)):
                fed.append((b, g))
        if len(fed) == 1:
            hs = fed
    if len(hs) != 1:
        raise AnchorMissing("%s calls %d workspace functions" % (what, len(hs)))
    b, g = hs[0]
    for _ in range(2):
        g2 = _thin_query_wrapper(P, g)
        if g2 is None:
            break
        g = g2
    return b, g


_WRAP_OK = re.compile(r"(::to_binary$|::to_json_binary$|ops::Try>?::branch$|FromResidual.*::from_residual$|::clone$|::deref$|convert::(Into|From)(<.*>)?>?::(into|from)$|::as_ref$)")


def _thin_query_wrapper(P, g):
    """`fn query_simulation(deps, offered, route) -> StdResult<Binary> { let s = simulate_swap_operations(deps, offered, route)?;
    to_binary(&s) }`: a private one-call-site wrapper that hands its own parameters, position by position, to one workspace
    function and only encodes / propagates the result.  Returns that function (the arm's real handler) or None."""
    if g is None or g.body is None or g.body.back_edges() or common.single_call_site(P, g) is None or len(g.body.blocks) > 30:
        return None
    inner = []
    for b, p, fr, t in P.calls(g):
        if is_workspace_fn(P, p):
            inner.append((b, P.fn(p) or P.fn(generic_path(p))))
        elif not p or not _WRAP_OK.search(generic_path(p)):
            return None
    if len(inner) != 1 or inner[0][1] is None or inner[0][1].body is None or inner[0][1].body.arg_count != g.body.arg_count:
        return None
    cv = P.val_call(g, g.body, inner[0][0])
    R = common.Roots(P)
    for i, a in enumerate(cv[4]):
        if set(R.roots(a)) != {"P:%s#%d" % (g.path, i)}:
            return None
    return inner[0][1]


def passed_roots(ctx, cv, idx, caller, cidx):
    """(roots the call passes for the type-located handler input `idx`, the roots the caller's own value would give).
    For a handler that takes only pieces (`sender: Addr`) both sides are the sets over those pieces."""
    if isinstance(idx, common.VParam) and idx.kind == "piece":
        got, want = set(), set()
        for suf in idx.pieces:
            got |= {r + "@" + suf for r in ctx.roots(common.vparam_arg(cv, idx, suf))}
            want.add(P_(caller, cidx, suf) + "@" + suf)
        return got, want
    return set(ctx.roots(common.vparam_arg(cv, idx))), {P_(caller, cidx)}


def cw20_envelope(P, contract):
    """(Receive handler Fn, index of its Cw20ReceiveMsg parameter): the envelope a hook arm's values are stated in, also
    when the arm itself lives in a per-variant function (descend_intermediate)."""
    recv0, _d = hook_dispatch(P, contract)
    i = common.param_index_of_type(recv0, r"^cw20::\S*Cw20ReceiveMsg$")
    if i is None:
        raise AnchorMissing("%s has no Cw20ReceiveMsg parameter" % recv0.path)
    return recv0, i


INFO_TY = r"^cosmwasm_std::\S*MessageInfo$"
ENV_TY = r"^cosmwasm_std::\S*Env$"


# ---------------------------------------------------------------------------------------
# effect summaries

def effects(P, fn, _memo={}, _depth=0):
    """Set of ('store', op, item) / ('msg', adt, variant) / ('respmsg',) effects of fn, transitively through workspace callees."""
    key = (id(P), fn.path)
    if key in _memo:
        return _memo[key]
    _memo[key] = set()
    eff = set()
    for (b, op, item, v) in common.storage_sites(P, fn, writes=True):
        eff.add(("store", op, item))
    for b, i, st in common.agg_sites(fn, lambda rv: common.MSG_ADT.match(rv["adt"])):
        rv = st["rv"]
        if common.adt_short(rv["adt"]) != "ReplyOn":
            eff.add(("msg", common.adt_short(rv["adt"]), rv["variant"]))
    if _depth < 8:
        for b, p, fr, t in P.calls(fn):
            if is_workspace_fn(P, p):
                g = P.fn(p) or P.fn(generic_path(p))
                if g is not None and g.path != fn.path:
                    eff |= effects(P, g, _memo, _depth + 1)
            elif p and fr and fr.get("rkind") is None and "closure" in (fr.get("path") or ""):
                pass
    # closures defined in fn
    for f2 in P.fns.values():
        if f2.kind == "closure" and f2.parent == fn.path and f2.body is not None:
            eff |= effects(P, f2, _memo, _depth + 1)
    _memo[key] = eff
    return eff


def sink_blocks(P, fn):
    """Blocks of fn holding an effect: storage write, message aggregate, call of an effectful workspace fn."""
    out = []
    for (b, op, item, v) in common.storage_sites(P, fn, writes=True):
        out.append((b, "store %s %s" % (op, item)))
    for b, i, st in common.agg_sites(fn, lambda rv: common.MSG_ADT.match(rv["adt"])):
        rv = st["rv"]
        if common.adt_short(rv["adt"]) != "ReplyOn":
            out.append((b, "message %s::%s" % (common.adt_short(rv["adt"]), rv["variant"])))
    for b, p, fr, t in P.calls(fn):
        if is_workspace_fn(P, p):
            g = P.fn(p) or P.fn(generic_path(p))
            if g is not None and effects(P, g):
                if common.ctor_helper(P, g):
                    for e in sorted(effects(P, g)):
                        if e[0] == "msg":
                            out.append((b, "message %s::%s (built by %s)" % (e[1], e[2], g.path)))
                else:
                    out.append((b, "call of effectful %s" % g.path))
    for b, blk in enumerate(fn.body.blocks):
        if blk["cleanup"]:
            continue
        for st in blk["stmts"]:
            if st["k"] == "assign" and st["rv"]["k"] == "agg" and st["rv"].get("agg") == "closure":
                c = P.fn(st["rv"]["closure"])
                if c is not None and c.body is not None and effects(P, c):
                    out.append((b, "closure with effects %s" % c.path))
    return out


# ---------------------------------------------------------------------------------------
# pair roles

class PairRoles:
    def __init__(self, P):
        self.P = P
        self.execute, self.arms = dispatch_arms(P, "pair")
        self.swap_direct = handler_of(P, "pair", "Swap")
        self.provide = handler_of(P, "pair", "ProvideLiquidity")
        self.receive = handler_of(P, "pair", "Receive")
        self.update_decimals = handler_of(P, "pair", "UpdateNativeTokenDecimals")
        self.swap_hook = hook_handler_of(P, "pair", "Swap")
        self.withdraw_hook = hook_handler_of(P, "pair", "WithdrawLiquidity")
        self.swap_handler = self.swap_hook[3]
        if self.swap_direct[3].path != self.swap_handler.path:
            raise AnchorMissing("direct and hook swap arms forward to different handlers: %s vs %s" % (self.swap_direct[3].path, self.swap_handler.path))
        self.provide_handler = self.provide[3]
        self.withdraw_handler = self.withdraw_hook[3]
        self.recv_fn = self.receive[3]
        self.funds_check = self._funds_check()

    def _funds_check(self):
        from . import names
        return names.get(self.P).funds_check

    def calls_to(self, fn, callee):
        return [b for b, p, fr, t in self.P.calls(fn) if p and (generic_path(p) == callee.path or p == callee.path)]


class RouterRoles:
    def __init__(self, P):
        self.P = P
        self.execute, self.arms = dispatch_arms(P, "router")
        self.accept = handler_of(P, "router", "ExecuteSwapOperations")
        self.hop = handler_of(P, "router", "ExecuteSwapOperation")
        self.assertion = handler_of(P, "router", "AssertMinimumReceive")
        self.hook = hook_handler_of(P, "router", "ExecuteSwapOperations")
        self.acceptor = self.accept[3]
        if self.hook[3].path != self.acceptor.path:
            raise AnchorMissing("router direct and hook entry points reach different acceptors")
        self.hop_handler = self.hop[3]
        self.assert_handler = self.assertion[3]
        self.recv_fn = handler_of(P, "router", "Receive")[3]
        # hop builder: workspace callee of the hop handler returning StdResult<CosmosMsg>
        hb = []
        for b, p, fr, t in P.calls(self.hop_handler):
            if is_workspace_fn(P, p):
                g = P.fn(p) or P.fn(generic_path(p))
                if g.sig and re.search(r"-> std::result::Result<cosmwasm_std::CosmosMsg(<\w+>)?, cosmwasm_std::StdError>", g.sig):
                    hb.append((b, g))
        if len(hb) != 1:
            raise AnchorMissing("hop builder (callee of the hop handler returning StdResult<CosmosMsg>): %d candidates" % len(hb))
        self.hop_builder_call, self.hop_builder = hb[0]


class FactoryRoles:
    def __init__(self, P):
        self.P = P
        self.execute, self.arms = dispatch_arms(P, "factory")
        self.update_config = handler_of(P, "factory", "UpdateConfig")
        self.create_pair = handler_of(P, "factory", "CreatePair")
        self.add_decimals = handler_of(P, "factory", "AddNativeTokenDecimals")
        self.migrate_pair = handler_of(P, "factory", "MigratePair")
        self.reply = entry(P, "factory", "reply")
        self.query = entry(P, "factory", "query")
        self.instantiate = entry(P, "factory", "instantiate")
