#!/usr/bin/env python3
"""Systematic mutation sweep (a measurement of the machinery, not a check): every single-token mutant of the production
sources from a fixed operator table is (1) compiled and run against the pinned 101-test suite in scratch worktrees,
(2) if it survives the tests, analysed by all 20 checks.  Survivors that no check reports are listed for triage: each is
either an equivalent / property-preserving change or a miss.

usage:
  mutate.py gen                      -> /verif/mutants/INDEX.json (list of mutants: file, line, operator, before, after)
  mutate.py test  [workers]          -> runs the test suite on every mutant (scratch worktrees /tmp/wt/MUT<k>), writes status
  mutate.py check [workers]          -> runs the checks on test-surviving mutants (one fact cache per worker)
  mutate.py report                   -> summary table
Nothing here touches /repo's working tree."""
import json, os, re, subprocess, sys, hashlib, shutil, time
from concurrent.futures import ThreadPoolExecutor

V = os.path.dirname(os.path.dirname(os.path.abspath(__file__)))
OUT = os.path.join(V, "mutants")
INDEX = os.path.join(OUT, "INDEX.json")
REPO = "/repo"
FILES = [
    "contracts/halo-factory/src/contract.rs", "contracts/halo-factory/src/state.rs",
    "contracts/halo-pair/src/assert.rs", "contracts/halo-pair/src/contract.rs",
    "contracts/halo-router/src/assert.rs", "contracts/halo-router/src/contract.rs", "contracts/halo-router/src/operations.rs",
    "packages/bignumber/src/math.rs", "packages/haloswap/src/asset.rs", "packages/haloswap/src/formulas.rs", "packages/haloswap/src/querier.rs",
]
# (name, regex on one source line, replacement) — applied to one match at a time
OPS = [
    ("lt->le", r" < ", " <= "), ("le->lt", r" <= ", " < "), ("gt->ge", r" > ", " >= "), ("ge->gt", r" >= ", " > "),
    ("eq->ne", r" == ", " != "), ("ne->eq", r" != ", " == "),
    ("and->or", r" && ", " || "), ("or->and", r" \|\| ", " && "),
    ("add->sub", r" \+ ", " - "), ("sub->add", r" - ", " + "), ("mul->div", r" \* ", " / "), ("div->mul", r" / ", " * "),
    ("idx0->1", r"\[0\]", "[1]"), ("idx1->0", r"\[1\]", "[0]"),
    ("true->false", r"\btrue\b", "false"), ("false->true", r"\bfalse\b", "true"),
    ("drop-not", r"\bif !", "if "), ("add-not", r"\bif (?!let\b|!)", "if !"),
    ("checked_sub->add", r"\.checked_sub\(", ".checked_add("), ("checked_add->sub", r"\.checked_add\(", ".checked_sub("),
    ("min->max", r"\bmin\(", "max("), ("max->min", r"\bmax\(", "min("),
    ("is_some->is_none", r"\.is_some\(\)", ".is_none()"), ("is_none->is_some", r"\.is_none\(\)", ".is_some()"),
    ("is_zero->not", r"(\b[\w\.\[\]]+)\.is_zero\(\)", r"!\1.is_zero()"),
    ("one->zero", r"::one\(\)", "::zero()"), ("zero->one", r"::zero\(\)", "::one()"),
    ("unwrap_or_default", r"\.unwrap_or\([^()]*\)", ".unwrap_or_default()"),
    ("Some->None", r"\bSome\(([a-z_\.]+)\)(?=[,;)\s]*$)", "None"),
    ("sender->contract", r"\binfo\.sender\b", "env.contract.address"),
    ("const+1", r"(?<=^)(.*\bconst\b[^=]*=\s*)(\d+)(\w*;.*)$", None),
    ("lt->gt", r" < ", " > "), ("gt->lt", r" > ", " < "), ("le->ge", r" <= ", " >= "), ("ge->le", r" >= ", " <= "),
    ("drop+1", r" \+ 1\b", ""), ("drop-1", r" - 1\b", ""),
    (".min->.max", r"\.min\(", ".max("), (".max->.min", r"\.max\(", ".min("),
    ("swap-args", r"(\b[\w:]+\()(&?[\w\.]+(?:\[\d\])?(?:\.\w+)*), (&?[\w\.]+(?:\[\d\])?(?:\.\w+)*)\)", r"\1\3, \2)"),
    ("ok->err-unwrap", r"\)\?;", ").ok();"),
]
# symmetric identifier pairs: one occurrence of one name replaced by its twin
SWAPS = [("offer_pool", "ask_pool"), ("offer_decimal", "ask_decimal"), ("return_amount", "spread_amount"), ("commission_amount", "spread_amount"),
         ("offer_amount", "ask_amount"), ("offer_asset_info", "ask_asset_info"), ("offer_asset", "ask_asset"), ("sender", "receiver"),
         ("total_share", "share"), ("deposits", "pools"), ("start_after", "limit"), ("DEFAULT_LIMIT", "MAX_LIMIT"), ("pair_key", "start"),
         ("denom", "contract_addr"), ("whole", "fractional"), ("nominator", "denominator"), ("self", "rhs"), ("self", "other")]
for a_, b_ in SWAPS:
    OPS.append(("swap:%s->%s" % (a_, b_), r"(?<![\w.])%s\b(?!\s*:)" % a_, b_))
    OPS.append(("swap:%s->%s" % (b_, a_), r"(?<![\w.])%s\b(?!\s*:)" % b_, a_))
DELETE_STMT = re.compile(r"^\s*(?!let\b|return\b|pub\b|use\b|const\b)[\w\.:&\(\)\[\]<>, ]*\(.*\)\??;\s*$")


def production_lines(path):
    """(lineno, text) of lines outside #[cfg(test)] modules and comments."""
    # the committed HEAD content, never the working tree (which a corpus tool may have patched at this moment)
    src = subprocess.check_output(["git", "-C", REPO, "show", "HEAD:" + path], text=True).split("\n")
    out = []
    skip_depth = None
    depth = 0
    pending_test = False
    for i, l in enumerate(src):
        st = l.strip()
        if st.startswith("#[cfg(test)]") or st == "#[test]":
            pending_test = True
        opens, closes = l.count("{"), l.count("}")
        if pending_test and "{" in l and skip_depth is None:
            skip_depth = depth
            pending_test = False
        depth += opens - closes
        if skip_depth is not None:
            if depth <= skip_depth:
                skip_depth = None
            continue
        if st.startswith("//") or st.startswith("#[") or st.startswith("use ") or st.startswith("*") or st.startswith("/*") or not st:
            continue
        out.append((i, l))
    return src, out


def gen():
    os.makedirs(OUT, exist_ok=True)
    muts = []
    for path in FILES:
        src, lines = production_lines(path)
        for i, l in lines:
            code = l.split("//")[0]
            for name, rx, rep in OPS:
                for m in re.finditer(rx, code):
                    if rep is None:
                        new = m.group(1) + str(int(m.group(2)) + 1) + m.group(3) + l[len(code):]
                    else:
                        new = code[:m.start()] + m.expand(rep) + code[m.end():] + l[len(code):]
                    if new == l:
                        continue
                    # skip generics / lifetimes / strings
                    if name in ("lt->le", "gt->ge", "lt->gt", "gt->lt") and re.search(r"[A-Za-z_]<|->|=>", code[max(0, m.start() - 2):m.end() + 2]):
                        continue
                    if code.count('"') >= 2 and code.find('"') < m.start() < code.rfind('"'):
                        continue
                    muts.append({"file": path, "line": i + 1, "op": name, "before": l.strip(), "after": new.strip(), "col": m.start()})
            if DELETE_STMT.match(code):
                muts.append({"file": path, "line": i + 1, "op": "delete-check", "before": l.strip(), "after": "", "col": 0})
        prod = dict(lines)
        idxs = sorted(prod)
        # multi-line expression statements: `x.push(\n ... \n));` / `ITEM.save(\n..\n)?;`
        for i in idxs:
            l = prod[i]
            st = l.strip()
            if re.match(r"^(let|return|pub|fn|if|else|for|while|match|use|const|impl|struct|enum|loop|\}|\{|//|\.|\))", st) or st.endswith(";") or st.endswith(","):
                continue
            if not re.match(r"^[\w\.:&]+\(", st) or not (st.endswith("(") or st.endswith("{") or st.endswith("[")):
                continue
            prev = src[i - 1].strip() if i > 0 else ""
            if prev and not (prev.endswith(";") or prev.endswith("{") or prev.endswith("}") or prev.startswith("//")):
                continue
            depth, j = 0, i
            while j < len(src) and j < i + 40:
                depth += src[j].count("(") + src[j].count("{") + src[j].count("[") - src[j].count(")") - src[j].count("}") - src[j].count("]")
                if depth <= 0:
                    break
                j += 1
            if j > i and j < len(src) and depth == 0 and src[j].strip().endswith(";") and all(k in prod or not src[k].strip() or src[k].strip().startswith("//") for k in range(i, j + 1)):
                muts.append({"file": path, "line": i + 1, "line2": j + 1, "op": "delete-stmt-ml", "before": st[:80], "after": "", "col": 0})
        # adjacent fields of a struct literal / call arguments on their own lines: swap the two value expressions
        for i in idxs:
            if i + 1 not in prod:
                continue
            m1 = re.match(r"^(\s*)(\w+): (.+),\s*$", prod[i])
            m2 = re.match(r"^(\s*)(\w+): (.+),\s*$", prod[i + 1])
            if m1 and m2 and m1.group(1) == m2.group(1) and m1.group(3) != m2.group(3) and "{" not in m1.group(3) + m2.group(3) and "(" not in (m1.group(3) + m2.group(3)).replace("()", ""):
                muts.append({"file": path, "line": i + 1, "line2": i + 2, "op": "swap-fields", "before": prod[i].strip() + " " + prod[i + 1].strip(),
                             "after": "%s: %s, %s: %s," % (m1.group(2), m2.group(3), m2.group(2), m1.group(3)), "col": 0})
    # stable ids
    for m in muts:
        h = hashlib.sha1(("%s:%d:%s:%d:%s" % (m["file"], m["line"], m["op"], m["col"], m["before"])).encode()).hexdigest()[:8]
        m["id"] = "M" + h
    # keep results of an earlier run for mutants that are literally the same
    if os.path.exists(INDEX):
        old = {(o["file"], o["line"], o["op"], o["col"], o["before"]): o for o in json.load(open(INDEX))}
        for m in muts:
            o = old.get((m["file"], m["line"], m["op"], m["col"], m["before"]))
            if o and o.get("status") in ("survived", "killed", "compile-error"):
                for k in ("status", "failed", "fired", "keys", "triage"):
                    if k in o:
                        m[k] = o[k]
    json.dump(muts, open(INDEX, "w"), indent=0)
    print(len(muts), "mutants")
    from collections import Counter
    print(Counter(m["op"] for m in muts).most_common())


def apply_mutant(wt, m):
    p = os.path.join(wt, m["file"])
    src = open(p).read().split("\n")
    l = src[m["line"] - 1]
    if m["op"] == "delete-stmt-ml":
        for k in range(m["line"] - 1, m["line2"]):
            src[k] = ""
    elif m["op"] == "swap-fields":
        m1 = re.match(r"^(\s*)(\w+): (.+),\s*$", src[m["line"] - 1])
        m2 = re.match(r"^(\s*)(\w+): (.+),\s*$", src[m["line2"] - 1])
        if not (m1 and m2):
            return False
        src[m["line"] - 1] = "%s%s: %s," % (m1.group(1), m1.group(2), m2.group(3))
        src[m["line2"] - 1] = "%s%s: %s," % (m2.group(1), m2.group(2), m1.group(3))
    elif m["op"] == "delete-check":
        src[m["line"] - 1] = ""
    else:
        name, rx, rep = [o for o in OPS if o[0] == m["op"]][0]
        code = l.split("//")[0]
        mm = [x for x in re.finditer(rx, code) if x.start() == m["col"]]
        if not mm:
            return False
        x = mm[0]
        if rep is None:
            src[m["line"] - 1] = x.group(1) + str(int(x.group(2)) + 1) + x.group(3) + l[len(code):]
        else:
            src[m["line"] - 1] = code[:x.start()] + x.expand(rep) + code[x.end():] + l[len(code):]
    open(p, "w").write("\n".join(src))
    return True


def load():
    return json.load(open(INDEX))


def save(muts):
    json.dump(muts, open(INDEX, "w"), indent=0)


def worktrees(n, prefix="MUT"):
    wts = []
    for k in range(n):
        wt = "/tmp/wt/%s%d" % (prefix, k)
        if not os.path.isdir(wt):
            subprocess.run("git -C /repo worktree add -q --detach %s HEAD" % wt, shell=True, check=True)
            src = [d for d in ("/tmp/wt/RF39/target", "/tmp/wt/BN9/target", "/tmp/wt/C01/target") if os.path.isdir(d)]
            if src:
                subprocess.run("cp -a %s %s/target" % (src[0], wt), shell=True)
        wts.append(wt)
    return wts


def test(workers=8):
    muts = load()
    todo = [m for m in muts if "status" not in m]
    wts = worktrees(workers)
    env = dict(os.environ, CARGO_NET_OFFLINE="true", RUST_BACKTRACE="0")
    import queue
    q = queue.Queue()
    for wt in wts:
        q.put(wt)
    done = [0]

    def run(m):
        wt = q.get()
        try:
            subprocess.run("git checkout -q -- . && git clean -fdq -e target", shell=True, cwd=wt)
            if not apply_mutant(wt, m):
                m["status"] = "no-apply"
                return
            p = subprocess.run("cargo test --workspace --no-fail-fast --offline 2>&1", shell=True, cwd=wt, env=env, stdout=subprocess.PIPE, text=True)
            out = p.stdout
            passed = sum(int(x) for x in re.findall(r"test result: \w+\. (\d+) passed", out))
            failed = sum(int(x) for x in re.findall(r"test result: \w+\. \d+ passed; (\d+) failed", out))
            if "error[" in out or "error:" in out and passed == 0 and "could not compile" in out:
                m["status"] = "compile-error"
            elif failed == 0 and passed == 101 and p.returncode == 0:
                m["status"] = "survived"
            else:
                m["status"] = "killed"
                m["failed"] = failed
        finally:
            subprocess.run("git checkout -q -- . && git clean -fdq -e target", shell=True, cwd=wt)
            q.put(wt)
            done[0] += 1
            if done[0] % 20 == 0:
                save(muts)
                print(done[0], "/", len(todo), flush=True)
    with ThreadPoolExecutor(max_workers=workers) as ex:
        list(ex.map(run, todo))
    save(muts)
    from collections import Counter
    print(Counter(m.get("status") for m in muts))


def check(workers=3):
    muts = load()
    todo = [m for m in muts if m.get("status") == "survived" and "fired" not in m]
    wts = worktrees(workers, prefix="MUC")
    man = json.load(open(os.path.join(V, "MANIFEST.json")))
    checks = [c["property_id"] for c in man["checks"]]
    import queue
    q = queue.Queue()
    for k, wt in enumerate(wts):
        q.put((k, wt))
    done = [0]

    def run(m):
        k, wt = q.get()
        try:
            subprocess.run("git checkout -q -- . && git clean -fdq -e target", shell=True, cwd=wt)
            if not apply_mutant(wt, m):
                m["fired"] = ["no-apply"]
                return
            env = dict(os.environ, HALO_CACHE=os.path.join(V, ".cache-mut%d" % k))
            code = "import json,sys; sys.path.insert(0,%r); from analysis import engine; print('@@'+json.dumps({c:[v['key'] for v in vs] for c,vs in engine.evaluate_dry(%r, repo=%r).items() if vs}))" % (V, checks, wt)
            p = subprocess.run([sys.executable, "-c", code], cwd=V, env=env, stdout=subprocess.PIPE, stderr=subprocess.STDOUT, text=True)
            line = [l for l in p.stdout.splitlines() if l.startswith("@@")]
            if not line:
                m["fired"] = ["BUILD"]
                m["build_log"] = p.stdout[-300:]
            else:
                res = json.loads(line[0][2:])
                m["fired"] = sorted(res)
                m["keys"] = {c: ks[:2] for c, ks in res.items()}
        finally:
            subprocess.run("git checkout -q -- . && git clean -fdq -e target", shell=True, cwd=wt)
            q.put((k, wt))
            done[0] += 1
            if done[0] % 10 == 0:
                save(muts)
                print(done[0], "/", len(todo), flush=True)
    with ThreadPoolExecutor(max_workers=workers) as ex:
        list(ex.map(run, todo))
    save(muts)


def report():
    muts = load()
    from collections import Counter
    print(Counter(m.get("status") for m in muts))
    surv = [m for m in muts if m.get("status") == "survived"]
    und = [m for m in surv if m.get("fired") == []]
    tp = os.path.join(OUT, "TRIAGE.json")
    tri = json.load(open(tp)) if os.path.exists(tp) else {}
    for m in und:
        if m["id"] in tri:
            m["triage"] = tri[m["id"]]["verdict"] + ": " + tri[m["id"]]["reason"]
    print("survived the tests: %d; reported by some check: %d; reported by none: %d" % (len(surv), len([m for m in surv if m.get("fired")]), len(und)))
    for m in und:
        print("%s %s:%d %-18s %s  ==>  %s  [%s]" % (m["id"], m["file"].split("/")[-3] + "/" + m["file"].split("/")[-1], m["line"], m["op"], m["before"][:70], m["after"][:70], m.get("triage", "?")))


if __name__ == "__main__":
    cmd = sys.argv[1]
    if cmd == "gen":
        gen()
    elif cmd == "test":
        test(int(sys.argv[2]) if len(sys.argv) > 2 else 8)
    elif cmd == "check":
        check(int(sys.argv[2]) if len(sys.argv) > 2 else 3)
    elif cmd == "recheck":
        ms = load()
        for m_ in ms:
            if m_.get("status") == "survived" and m_.get("fired") == []:
                del m_["fired"]
        save(ms)
        check(int(sys.argv[2]) if len(sys.argv) > 2 else 3)
    elif cmd == "report":
        report()
