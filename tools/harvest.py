#!/usr/bin/env python3
"""Confirm a sub-agent's seeded change in its scratch worktree and store it under /verif/seeded/.
usage: harvest.py <PROP> [m1 m2 ...]   (worktree /tmp/wt/<PROP>)"""
import json, os, re, shutil, subprocess, sys

prop = sys.argv[1]
ms = sys.argv[2:] or ["m1", "m2"]
wt = "/tmp/wt/%s" % prop
env = dict(os.environ, CARGO_NET_OFFLINE="true", RUST_BACKTRACE="0")

def sh(cmd, check=False):
    p = subprocess.run(cmd, shell=True, cwd=wt, env=env, stdout=subprocess.PIPE, stderr=subprocess.STDOUT, text=True)
    if check and p.returncode != 0:
        raise SystemExit("FAILED: %s\n%s" % (cmd, p.stdout[-3000:]))
    return p.returncode, p.stdout

def clean():
    sh("git checkout -q -- . && git clean -fdq -e MUTANT -e target", check=True)

def suite():
    rc, out = sh("cargo test --workspace --no-fail-fast --offline 2>&1")
    passed = sum(int(x) for x in re.findall(r"test result: \w+\. (\d+) passed", out))
    failed = sum(int(x) for x in re.findall(r"test result: \w+\. \d+ passed; (\d+) failed", out))
    failing = re.findall(r"^test (\S+) \.\.\. FAILED", out, re.M)
    return rc, passed, failed, failing, out

for m in ms:
    mp = os.path.join(wt, "MUTANT", m + ".patch")
    dp = os.path.join(wt, "MUTANT", m + "_demo.patch")
    if not (os.path.exists(mp) and os.path.exists(dp)):
        print(prop, m, "missing patch files"); continue
    clean()
    # 1. demo on clean tree passes (and suite is 101 + demo tests)
    sh("git apply MUTANT/%s_demo.patch" % m, check=True)
    rc0, p0, f0, failing0, _ = suite()
    clean()
    # 2. mutant alone: full suite passes
    sh("git apply MUTANT/%s.patch" % m, check=True)
    rc1, p1, f1, failing1, out1 = suite()
    # 3. mutant + demo: demo fails
    sh("git apply MUTANT/%s_demo.patch" % m, check=True)
    rc2, p2, f2, failing2, out2 = suite()
    clean()
    ok = (f0 == 0 and p0 > 101 and f1 == 0 and p1 == 101 and 1 <= f2 <= p0 - 101 and p2 + f2 == p0)   # only tests added by the demo patch fail
    print("%s %s: demo-on-clean %d/%d-failed, mutant-alone %d passed/%d failed, mutant+demo failing=%s -> %s" % (
        prop, m, p0, f0, p1, f1, failing2, "CONFIRMED" if ok else "REJECTED"))
    if not ok:
        continue
    d = "/verif/seeded/%s-%s" % (prop, m)
    os.makedirs(d, exist_ok=True)
    shutil.copy(mp, os.path.join(d, "patch.diff"))
    shutil.copy(dp, os.path.join(d, "demo.patch"))
    md = os.path.join(wt, "MUTANT", m + ".md")
    desc = open(md).read() if os.path.exists(md) else ""
    if desc:
        open(os.path.join(d, "README.md"), "w").write(desc)
    head = subprocess.check_output("git rev-parse HEAD", shell=True, cwd=wt, text=True).strip()
    json.dump({
        "id": "%s-%s" % (prop, m), "property": prop, "base_commit": head,
        "needs_to_manifest": "see README.md (written by the independent sub-agent that seeded the change)",
        "confirmed": {
            "demo_on_clean_tree": "%d passed, %d failed" % (p0, f0),
            "mutant_alone_full_suite": "%d passed, %d failed" % (p1, f1),
            "mutant_plus_demo_failing_tests": failing2,
            "commands": ["git apply patch.diff", "git apply demo.patch", "cargo test --workspace --no-fail-fast --offline"],
        },
        "detected_by": None,
    }, open(os.path.join(d, "meta.json"), "w"), indent=1)
