"""C06 — swap output is the constant-product price less commission, within one unit (DESIGN §5 C06)."""
from .. import common, roles, numeric, eround
from ..eround import RF, Unsupported, D18
from ..roles import AnchorMissing


def _run(ctx):
    P = ctx.P
    n1 = ctx.inst("C06.N1", "n >= g*(1-c) - 1 with g = y*a/(x+a), all inputs, all rates in [0,1]", floor=1)
    n2 = ctx.inst("C06.N2", "n <= g*(1-c) + 1", floor=1)
    i1 = ctx.inst("C06.I1", "reported commission = floor(c*(n + commission)), subtracted from the gross output and nothing else", floor=2)
    i2 = ctx.inst("C06.I2", "n + commission + spread = floor(a*y/x) (term identity incl. the nested-floor rewrite floor(floor(z*D)/D) = floor(z))", floor=1)
    m1 = ctx.inst("C06.M1", "the output is non-decreasing in the offer amount (monotonicity typing of the term)", floor=1)
    try:
        pr = roles.PairRoles(P)
        f, bb = numeric.pricing_fn(ctx, pr)
        pz = numeric.Pricing(ctx, f)
    except (AnchorMissing, Unsupported) as e:
        for r in (n1, n2, i1, i2, m1):
            r.fail("%s:anchor" % r.id, "-", "-", "anchor-missing / unrecognised-idiom: %s" % e)
        return
    T = pz.T
    one_minus = RF(1) - pz.beta
    numeric.run_obligation(n1, "C06.N1", f, T, pz.n - (pz.ideal * one_minus - RF(1)), "n - (g(1-c) - 1) >= 0", box=("beta",), subst=pz.csub, role="swap-pricing")
    numeric.run_obligation(n2, "C06.N2", f, T, pz.ideal * one_minus + RF(1) - pz.n, "g(1-c) + 1 - n >= 0", box=("beta",), subst=pz.csub, role="swap-pricing")
    G = pz.n + pz.k
    want_k = T.floors.floor(G * pz.c / RF(D18), "ref")
    if pz.k.equals(want_k):
        i1.site("commission = floor(rate * (n + commission)) = %s" % pz.k.show())
    else:
        i1.fail("C06.I1:swap-pricing:commission", f.path, f.span, "commission is %s, expected floor(rate*(n+commission)) = %s" % (pz.k.show(), want_k.show()))
    # G must be a single rounding of ask - cp/(offer_pool+offer)
    if any(kind == "nonneg" and t.equals(pz.n) for (kind, t, org) in T.aborts):
        i1.site("n = gross - commission (aborting subtraction)")
    else:
        i1.fail("C06.I1:swap-pricing:net", f.path, f.span, "the net output is not gross - commission by aborting subtraction")
    want_sum = T.floors.floor(pz.a * pz.y / pz.x, "ref")
    if pz.s is None:
        i2.fail("C06.I2:swap-pricing:spread-untranslatable", f.path, f.span, "cannot interpret the spread component (conditional / saturating arithmetic?): the identity n + commission + spread = floor(a*y/x) is not a term identity any more")
        tot = None
    else:
        tot = pz.n + pz.k + pz.s
    if tot is None:
        pass
    elif tot.equals(want_sum):
        i2.site("n + commission + spread = %s = floor(a*y/x)" % want_sum.show())
    else:
        defs = "; ".join("%s=floor(%s)" % (a, b.show()) for a, b, c in T.floors.items)
        i2.fail("C06.I2:swap-pricing:sum", f.path, f.span, "n + commission + spread = %s, expected floor(a*y/x) = %s  [%s]" % (tot.show(), want_sum.show(), defs[:400]))
    mm = numeric.mono_minus_floor_fraction(T, pz.n, "a")
    if mm is None:
        mm = numeric.mono(T, pz.n, "a")
    if mm == 1 or mm == 0:
        m1.site("n is non-decreasing in a: n = G - floor(G*c) is monotone in G (lemma), G = floor(y - floor(x*y*D/(x+a))/D) is monotone in a")
    else:
        m1.fail("C06.M1:swap-pricing", f.path, f.span, "cannot type the output as non-decreasing in the offer amount (result %s): the term is %s" % (mm, pz.n.show()))
    ctx.extra.setdefault("terms", {})["pricing"] = {"n": pz.n.show(), "spread": pz.s.show() if pz.s is not None else "?", "commission": pz.k.show(),
                                                    "floors": ["%s = floor(%s)  <- %s" % (a, b.show(), c) for a, b, c in T.floors.items]}
    # W1: at system level the function is applied to the pair's actual reserves and to what was delivered
    w1 = ctx.inst("C06.W1", "the swap handler applies the pricing function to the pair's actual reserves, the delivered amount and the stored rate (shared with C01.R1, C02.R1-R5)", floor=10)
    from . import c01, c02
    c01.import_instances(ctx, w1, c02, {"C02.R1", "C02.R2", "C02.R3", "C02.R4", "C02.R5"}, "C06.W1")
    sub = type(ctx)(ctx.prop, P)
    c01.run(sub)
    for i in sub.instances:
        if i.id == "C01.R1":
            w1.sites.extend("%s: %s" % (i.id, s) for s in i.sites)
            for fl in i.failures:
                w1.fail("C06.W1:%s" % fl["key"], fl["fn"], fl["span"], "[%s] %s" % (i.id, fl["reason"]))
    ctx.assumptions.append("strict inequalities of the statement are proved in their non-strict closure; strictness follows from eps < 1 (DESIGN §7.3)")
    ctx.assumptions.append("lemma used by M1: v - floor(v*c) is non-decreasing in integer v for c in [0,1]")


def run(ctx):
    from .. import numeric
    _run(ctx)
    numeric.arith_base(ctx, "C06.B1")
    # "commission rate c" of the statement is the pair's one rate: the copy the swap reads is written only at instantiation,
    # from the same field as the copy the pair reports (a migration / update that rewrites one copy changes c for swaps only)
    from .. import compose
    from . import c12
    w2 = ctx.inst("C06.W2", "the commission rate the swap prices with is the rate the pair was created with: both stored copies are written only at instantiation from one message field (shared with C12.R2)", floor=2)
    compose.pull(ctx, w2, c12, {"C12.R2"}, "C06.W2")
