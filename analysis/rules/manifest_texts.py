"""Per-property MANIFEST texts (level claimed, trusted base, technique)."""
PENDING = "not yet decided by this framework (rule module not built yet); no static verdict is claimed"
NOTES = ("Static analysis only: every verdict is computed from the MIR of /repo's current working tree (no contract code is run). "
         "Each check lists its rule instances in evidence/<id>.json; DESIGN.md §5 says which clauses of each property are decided and which are not.")
BASE_NOTE = ("Trusted: rustc's MIR for the analysed build (dev profile, mir-opt-level 0), the fact extractor in driver/, the axioms on external crates "
             "(bigint, cosmwasm-std, cw-storage-plus, cw20; versions printed in the evidence) and the chain's atomic revert of failed executions.")
TEXTS = {
 "C14": {
  "level": "Decides, for all callers / message contents / histories at once, that every path to an effect (storage write, message) or success exit of each privileged "
           "handler passes the pass-edge of the caller check (owner / factory / LP token / self), that the failing edge only errs, that CONFIG owner is written only as "
           "canonicalize(new owner) or at instantiation, that every storage write site is privileged and that handlers are reachable only from their dispatch arm. "
           "Universally quantified CFG facts, not sampled executions.",
  "note": BASE_NOTE + " 'A rejected call changes no balance' relies on platform revert.",
  "technique": "MIR dispatch-table + edge-dominance of guard pass-edges over effect sites, provenance of compared operands",
  "engine": "E-STRUCT"},
 "C09": {
  "level": "Decides for all declared amounts x attached funds at once: the decision table of the native-funds check (Ok only in the regions cw20 / coin found and "
           "amounts equal / no coin and amount zero; the search runs over exactly info.funds with predicate coin.denom == asset.denom), that the provide handler applies "
           "it to every declared asset (loop without adaptors or both indices) and the swap handler to the named offer asset, with the transaction's own MessageInfo, "
           "error propagated, and that the successful check dominates every effect, query and success exit.",
  "note": BASE_NOTE + " The bank module crediting attached funds before execution is platform semantics.",
  "technique": "MIR control-region decision table + must-pass-through (edge dominance) + argument provenance",
  "engine": "E-STRUCT"},
 "C02": {
  "level": "Decides for every combination of (asset delivered) x (asset named) x (amount named) x (funds) at once: on the cw20 hook path the swap handler is reachable only "
           "through the pass-edges of amount == cw20 amount, caller-is-a-pool-token and named-asset == Token{caller}; the direct path only for a native offer; the native-funds "
           "check precedes pricing; exactly one payout is built, with asset = a pool's info, amount = component .0 of the pricing result, recipient = to or the trader, "
           "and the reported attributes flow from the same values; the trader/recipient arguments originate from info.sender / the cw20 envelope / the message's `to` only. "
           "Supporting lemmas on AssetInfo::equal, is_native_token and the transfer constructor are re-derived from their MIR on every run.",
  "note": BASE_NOTE + " That the cw20 contract really moved `amount` before calling the hook is cw20-base semantics.",
  "technique": "MIR edge-dominance of hook/direct guards over the handler call + identity-flow provenance of payout, attributes and handler arguments",
  "engine": "E-STRUCT"},
 "C07": {
  "level": "Decides over all production code: the complete inventory of message constructions (aggregates and any call producing a message-typed value) contains only the "
           "allowed kinds; every Wasm::Execute matches an allowed (target, payload, funds) template; Mint/Burn only in provide/withdraw to the LP token; the single TransferFrom "
           "has owner = transaction sender and recipient = the pair; router hops spend exactly the router's own queried balance; every payout goes through the transfer "
           "constructor (re-verified) with recipient from to/receiver/sender. This rules out third-party debits for every bystander and allowance at once.",
  "note": BASE_NOTE + " Conservation inside the bank module / cw20-base is trusted.",
  "technique": "whole-program message-site inventory over MIR + identity-flow provenance of each field",
  "engine": "E-STRUCT"},
 "C11": {
  "level": "Decides for all routes, minimums and recipients: with minimum_receive given exactly one AssertMinimumReceive self-message is pushed after the complete hop list on "
           "every success path; its fields originate from (last hop's ask asset, recipient's balance sampled in this call, the parameter, the hops' recipient); dispatch wires "
           "the two same-typed amounts into the right roles; the assertion is `balance - prev (aborting) < minimum => Err` strictly; the router attaches no reply-carrying "
           "sub-message; both entry points forward minimum/to/sender unchanged.",
  "note": BASE_NOTE + " Atomic revert of the transaction on a failing message is platform semantics.",
  "technique": "MIR push-order / must-pass-through analysis of the message list + provenance of assertion fields + guard normalisation",
  "engine": "E-STRUCT"},
 "C13": {
  "level": "Decides the structural clauses: each hop offers the router's entire queried balance; the recipient is attached exactly when a counter (0, +1 per hop before the test) "
           "equals operations.len() over the unadapted route; pairs pay `to` or else the swap sender; empty routes and routes with != 1 dangling output are rejected before any "
           "message is built (validator loop: remove(offer) then insert(ask) per operation, exit test len != 1); hook Swap and execute Swap are wire-compatible. "
           "'Exactly the quoted amount' is NOT decided (equality of two runtime computations); it follows on paper from these clauses plus C12.",
  "note": BASE_NOTE,
  "technique": "closure/upvar counter discipline and loop-shape analysis on MIR, guard dominance, enum shape comparison",
  "engine": "E-STRUCT"},
 "C16": {
  "level": "Decides: every PAIRS access is keyed by the registry key function over [to_raw(a0), to_raw(a1)] (to_raw re-verified to preserve identity) or by TMP.pair_key written from it; "
           "the key is symmetric (both assets sorted by a total order on (bytes, kind)) and injective (kind tags with a verified two-valued tag function, length-prefixed first identifier; "
           "every component taken from the sorted copy); same-asset and already-registered guards make creation fail; decimals are queried per asset (native: factory allow-list, "
           "cw20: TokenInfo) with failure => Err and flow unchanged into TMP and the pair's InstantiateMsg; the reply registers (key, assets, decimals) from TMP and "
           "(LP token, requirements, commission) from the self-description queried at the reply address; commission_rate > 1 is rejected.",
  "note": BASE_NOTE + " addr_canonicalize injective; identifiers < 2^32 bytes.",
  "technique": "component-wise encoding analysis of the key function on MIR (fixed/variable width, length-prefix rule) + provenance of registry records",
  "engine": "E-STRUCT"},
 "C17": {
  "level": "Decides for any number of pairs: the decimals handler's loop iterates a collection that originates (through helpers) from an unbounded, unfiltered PAIRS scan; "
           "the page-limited reader is reachable only from the Pairs query; inside the loop the record/message for position i are produced exactly under "
           "`asset_infos[i] is native and its denom == denom` (any extra condition is reported), carry [i: new, 1-i: stored], go to that record's contract; the allow-list entry is "
           "written under the key the denom query reads on every success path; the pair applies the array exactly when one of its native denoms matches and preserves the rest.",
  "note": BASE_NOTE + " 'Never diverge over any history' additionally rests on C16.R5/R6, C14.R6 and atomic message delivery (paper induction).",
  "technique": "iterator-chain / helper-summary analysis for loop bounds + control-region comparison of update sites on MIR",
  "engine": "E-STRUCT"},
 "C19": {
  "level": "Decides: the page is range(start, None, Ascending) -> take(n) -> map -> collect with n = min(limit.unwrap_or(10), 30) (constants evaluated by the compiler); "
           "the cursor is the registry key function applied to the cursor's assets plus a constant suffix, mapped through an exclusive (or inclusive-with-suffix) raw bound; "
           "the query forwards start_after (element-wise to_raw) and limit unchanged. Together with C16's injective, order-independent key this gives a duplicate-free, "
           "complete walk for any page size; the corner of keys extending a cursor key by 0x00/0x01 bytes is an explicit assumption.",
  "note": BASE_NOTE + " cw-storage-plus range/bound semantics.",
  "technique": "iterator-chain shape + provenance of clamp and cursor on MIR, compiler-evaluated constants",
  "engine": "E-STRUCT"},
 "C08": {
  "level": "Decides what the repository owns of this property: each of the 21 Uint256/Decimal256 operators' MIR bodies is interpreted over axiomatised aborting U256 primitives into an exact "
           "rational term with floor atoms and must EQUAL the reference (single rounding of the ideal result) on every path, including the zero-operand shortcuts (checked under "
           "the path's is_zero facts); explicit aborts must be exactly the allowed ones (zero divisor, negative difference) and must not be missing on any returning path; no "
           "wrapping/overflowing/saturating/truncating call or narrowing cast outside split_u128; comparisons are the derived ones; width conversions are guarded by both upper limbs "
           "and agree on limb order. For all 256-bit operands at once (symbolic), not sampled.",
  "note": BASE_NOTE + " Multi-limb carries and products near 2^256 inside bigint::U256 are NOT analysed (external crate, axiomatised).",
  "technique": "abstract interpretation of MIR into rational terms with hash-consed floor atoms; term equality against reference summaries; abort-site classification",
  "engine": "E-ROUND + E-STRUCT"},
}
