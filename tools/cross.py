#!/usr/bin/env python3
"""Cross test: a seeded property-breaking change applied ON TOP of a behaviour-preserving refactoring must still be
detected by its own property (the generalisations that make the refactoring silent must not hide the break).
Runs in its own scratch worktree (never touches /repo's working tree).
usage: cross.py [N pairs, default 150] [seed]"""
import json, os, random, subprocess, sys
V = os.path.dirname(os.path.dirname(os.path.abspath(__file__)))
sys.path.insert(0, V)
N = int(sys.argv[1]) if len(sys.argv) > 1 else 150
seed = int(sys.argv[2]) if len(sys.argv) > 2 else 1
WT = "/tmp/halo_cross_wt"
subprocess.run("git -C /repo worktree remove --force %s 2>/dev/null; rm -rf %s; git -C /repo worktree add -q --detach %s HEAD" % (WT, WT, WT), shell=True, check=True)


def files_of(patch):
    return {l[6:].strip() for l in open(patch) if l.startswith("+++ b/")}


refs = sorted(d for d in os.listdir(os.path.join(V, "refactors")) if os.path.isdir(os.path.join(V, "refactors", d)))
if os.environ.get("CROSS_REFS"):
    import re as _re
    refs = [d for d in refs if _re.search(os.environ["CROSS_REFS"], d)]      # restrict to some refactorings (e.g. the newest round)
muts = sorted(os.listdir(os.path.join(V, "seeded")))
pairs = []
for r in refs:
    rp = os.path.join(V, "refactors", r, "patch.diff")
    rf = files_of(rp)
    for m in muts:
        mp = os.path.join(V, "seeded", m, "patch.diff")
        if rf & files_of(mp):
            pairs.append((r, m))
random.Random(seed).shuffle(pairs)
from analysis import engine
done = missed = skipped = 0
out = []
try:
    for r, m in pairs:
        if done >= N:
            break
        rp = os.path.join(V, "refactors", r, "patch.diff")
        mp = os.path.join(V, "seeded", m, "patch.diff")
        subprocess.run("git -C %s checkout -q -- . && git -C %s clean -fdq" % (WT, WT), shell=True)
        if subprocess.run("git -C %s apply %s 2>/dev/null && git -C %s apply %s 2>/dev/null" % (WT, rp, WT, mp), shell=True).returncode != 0:
            skipped += 1
            continue
        meta = json.load(open(os.path.join(V, "seeded", m, "meta.json")))
        props = [meta["property"]] + list((meta.get("reclassified") or {}).get("properties", []))
        code = "import json,sys; sys.path.insert(0,%r); from analysis import engine; print('@@'+json.dumps(engine.evaluate_dry(%r, repo=%r)))" % (V, props, WT)
        p = subprocess.run([sys.executable, "-c", code], cwd=V, stdout=subprocess.PIPE, stderr=subprocess.STDOUT, text=True)
        line = [l for l in p.stdout.splitlines() if l.startswith("@@")]
        if not line:
            # does the combination compile at all?
            skipped += 1
            continue
        res = json.loads(line[0][2:])
        fired = [c for c, vs in res.items() if vs]
        done += 1
        ok = bool(fired)
        if not ok:
            missed += 1
        out.append({"refactoring": r, "change": m, "detected_by": fired})
        print("%-9s + %-10s %s" % (r, m, "detected by %s" % fired if ok else "MISSED"), flush=True)
finally:
    subprocess.run("git -C /repo worktree remove --force %s; rm -rf %s" % (WT, WT), shell=True)
json.dump({"pairs": out, "tested": done, "missed": missed, "skipped_conflicting": skipped}, open(os.path.join(V, "refactors", "CROSS.json"), "w"), indent=1)
print("tested %d pairs, missed %d, skipped (patches conflict / do not build) %d" % (done, missed, skipped))
