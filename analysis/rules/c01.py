"""C01 — a swap never lowers the reserve product nor empties a reserve (DESIGN §5 C01)."""
import re
from .. import common, roles, lemmas, numeric, eround
from ..eround import RF, Unsupported
from ..roles import P_, param, INFO_TY, ENV_TY, AnchorMissing
from ..mir import generic_path
from . import c02


def import_instances(ctx, inst, mod, ids, prefix):
    sub = type(ctx)(ctx.prop, ctx.P)
    mod.run(sub)
    for i in sub.instances:
        if i.id in ids:
            inst.sites.extend("%s: %s" % (i.id, s) for s in i.sites)
            inst.evaluations += i.evaluations
            for f in i.failures:
                inst.fail("%s:%s" % (prefix, f["key"]), f["fn"], f["span"], "[%s] %s" % (i.id, f["reason"]))


def pricing_obligations(ctx, n1, n2):
    """N1: payout <= y*a/(x+a) for all inputs and all rates in [0,1]; N2: payout = gross - commission by aborting subtraction."""
    P = ctx.P
    try:
        pr = roles.PairRoles(P)
        f, bb = numeric.pricing_fn(ctx, pr)
        pz = numeric.Pricing(ctx, f)
    except (AnchorMissing, Unsupported) as e:
        for r in (n1, n2):
            r.fail("%s:anchor" % r.id, "-", "-", "anchor-missing / unrecognised-idiom: %s" % e)
        return None
    T = pz.T
    numeric.run_obligation(n1, n1.id, f, T, pz.ideal - (pz.n + pz.k),
                           "gross output G = n + commission <= ask*offer/(offer_reserve+offer) for all 128-bit inputs (hence n <= it, commission being an unsigned floor)",
                           box=("beta",), subst=pz.csub, role="swap-pricing")
    # N2: n + k is the gross output and the subtraction aborts when negative
    G = pz.n + pz.k
    if any(kind == "nonneg" and t.equals(pz.n) for (kind, t, org) in T.aborts):
        n2.site("n = gross - commission is an aborting subtraction (never negative, commission never paid out twice)")
    else:
        n2.fail("%s:%s:unchecked-sub" % (n2.id, "swap-pricing"), f.path, f.span, "the net output is not computed as an aborting subtraction gross - commission")
    want_k = T.floors.floor(G * pz.c / RF(eround.D18), "ref")
    if pz.k.equals(want_k):
        n2.site("commission = floor(rate * gross): %s" % pz.k.show())
    else:
        n2.fail("%s:%s:commission" % (n2.id, "swap-pricing"), f.path, f.span, "commission is %s, expected floor(rate*gross) = %s" % (pz.k.show(), want_k.show()))
    ctx.extra.setdefault("terms", {})["pricing"] = {"n": pz.n.show(), "spread": pz.s.show() if pz.s is not None else "?", "commission": pz.k.show(),
                                                    "floors": ["%s = floor(%s)  <- %s" % (a, b.show(), c) for a, b, c in T.floors.items]}
    return pr, f, bb, pz


def handler_wiring(ctx, r1, pr, f, bb):
    """R1: the swap handler prices on (B_offer - offer, B_ask, offer, stored rate), offer/ask selected by equal() against the named asset."""
    P = ctx.P
    swap = pr.swap_handler
    body = swap.body
    offer_i = common.param_index_of_type(swap, "^%s$" % ctx.N.rx("Asset"))
    env = param(swap, ENV_TY)
    t = body.blocks[bb]["term"]
    n = len(body.blocks[bb]["stmts"])
    # pools come from query_pools(own address) of PAIR_INFO in this call
    qp = [(b, P.val_call(swap, body, b)) for b, p, fr, tt in P.calls(swap) if ctx.N.is_fn(p, "query_pools")]
    if len(qp) != 1:
        r1.fail("C01.R1:query-pools", swap.path, swap.span, "expected one query_pools call in the swap handler, found %d" % len(qp))
        return
    qb, qv = qp[0]
    QP = "C:%s@%s:bb%d" % (ctx.N.cpath("query_pools"), swap.path, qb)
    if set(ctx.roots(qv[4][0])) != {"load(%s)" % ctx.N.PAIR_INFO} or set(ctx.roots(qv[4][3])) != {P_(swap, env, ".contract.address")}:
        r1.fail("C01.R1:pools-origin", swap.path, common.span_of_block_term(swap, qb), "reserves are read for %s / %s, expected the pair's own PAIR_INFO and address" % (
            sorted(ctx.roots(qv[4][0])), sorted(ctx.roots(qv[4][3]))))
    else:
        r1.site("reserves ⊢ PAIR_INFO.query_pools(env.contract.address) in the executing call")
    # selection: branch form (two equality guards) or index form (position over the pools)
    from .. import selection
    try:
        S = selection.PoolSelection(ctx, swap, offer_i, QP)
    except AnchorMissing as e:
        r1.fail("C01.R1:selection", swap.path, swap.span, str(e))
        return
    lem = lemmas.check_equal(ctx, r1)
    # the "neither" path errs
    if not S.rejects_foreign():
        r1.fail("C01.R1:unknown-asset", swap.path, swap.span, "an offer asset that is neither pool asset is not rejected (it would be priced as one of them)")
    else:
        r1.site("offer asset matching neither pool => Err (%s form)" % S.form)
    # arguments evaluated in each selection case
    for ai, a in enumerate(t["args"][:2]):
        for k in S.cases():
            v = S.value((bb, n), a, k)
            rs = set(ctx.roots(v))
            if ai == 0:
                subs = [x for x in common.walk(v) if x[0] == "call" and isinstance(x[3], str) and generic_path(x[3]).endswith("Uint128::checked_sub")]
                ok = len(rs) == 1 and list(rs)[0].startswith("C:cosmwasm_std::Uint128::checked_sub@") and len(subs) == 1 and \
                    set(ctx.roots(subs[0][4][0])) == {"%s[%d].amount" % (QP, k)} and set(ctx.roots(subs[0][4][1])) == {P_(swap, offer_i, ".amount")}
                if ok:
                    sfn = P.fn(str(subs[0][1])) or P.fn(str(subs[0][1]).rsplit("#", 1)[0]) or swap      # the subtraction may sit in the selector helper
                    pg = common.propagated(P, sfn, subs[0][2])
                    ok = pg is not None and common.fail_edge_only_errors(P, sfn, pg[2])[0]
                    if ok and sfn.path != swap.path:
                        # .. whose own failure must end the swap
                        hb_ = [b_ for b_, p_, fr_, t_ in P.calls(swap) if p_ and (P.fn(p_) or P.fn(generic_path(p_))) is not None and (P.fn(p_) or P.fn(generic_path(p_))).path == sfn.path]
                        ok = len(hb_) == 1 and common.propagated(P, swap, hb_[0]) is not None and common.fail_edge_only_errors(P, swap, common.propagated(P, swap, hb_[0])[2])[0]
                if not ok:
                    r1.fail("C01.R1:offer-reserve:%d" % k, swap.path, common.span_of_block_term(swap, bb),
                            "case `offer is pools[%d]`: offer reserve ⊢ %s, expected pools[%d].amount - offer.amount by aborting subtraction (the offer is already in the balance)" % (k, sorted(rs), k))
                else:
                    r1.site("%s: offer reserve = pools[%d].amount - offer.amount (aborting)" % (S.describe(k), k))
            else:
                if rs != {"%s[%d].amount" % (QP, 1 - k)}:
                    r1.fail("C01.R1:ask-reserve:%d" % k, swap.path, common.span_of_block_term(swap, bb), "case `offer is pools[%d]`: ask reserve ⊢ %s, expected pools[%d].amount" % (k, sorted(rs), 1 - k))
                else:
                    r1.site("%s: ask reserve = pools[%d].amount" % (S.describe(k), 1 - k))
    cv = P.val_call(swap, body, bb)
    if set(ctx.roots(cv[4][2])) != {P_(swap, offer_i, ".amount")}:
        r1.fail("C01.R1:offer-amount", swap.path, common.span_of_block_term(swap, bb), "priced offer amount ⊢ %s, expected the named offer amount" % sorted(ctx.roots(cv[4][2])))
    else:
        r1.site("priced amount ⊢ offer_asset.amount")
    rate = set(ctx.roots(cv[4][3]))
    if rate not in ({"load(%s)" % ctx.N.COMMISSION}, {"load(%s).commission_rate" % ctx.N.PAIR_INFO}):
        r1.fail("C01.R1:rate", swap.path, common.span_of_block_term(swap, bb), "commission rate ⊢ %s, expected the pair's stored rate" % sorted(rate))
    else:
        r1.site("rate ⊢ %s" % sorted(rate)[0])
    # the payout asset is the ask pool of the same branch
    tc = lemmas.transfer_ctor(P)
    for cb in pr.calls_to(swap, tc):
        tt = body.blocks[cb]["term"]
        nn = len(body.blocks[cb]["stmts"])
        for k in S.cases():
            v = S.value((cb, nn), tt["args"][0], k)
            inf = set(ctx.roots(v, (("f", "info"),)))
            if inf != {"%s[%d].info" % (QP, 1 - k)}:
                r1.fail("C01.R1:payout-asset:%d" % k, swap.path, common.span_of_block_term(swap, cb), "case `offer is pools[%d]`: payout asset ⊢ %s, expected pools[%d].info" % (k, sorted(inf), 1 - k))
            else:
                r1.site("%s: payout asset = pools[%d].info" % (S.describe(k), 1 - k))


def _run(ctx):
    n1 = ctx.inst("C01.N1", "pricing: net output never exceeds ask*offer/(offer_reserve+offer) (all inputs, all rates) — E-ROUND", floor=1)
    n2 = ctx.inst("C01.N2", "pricing: net = gross - floor(rate*gross) by aborting subtraction", floor=2)
    n3 = ctx.inst("C01.N3", "the commission is not paid out: the only payout of the swap handler carries the net output (shared with C02.R6)", floor=3)
    r1 = ctx.inst("C01.R1", "handler prices on (balance_offer - offer, balance_ask, offer, stored rate) with offer/ask selected by equality against the named asset", floor=9)
    r2 = ctx.inst("C01.R2", "the named offer asset is bound to what was delivered (shared with C02.R1-R5)", floor=6)
    res = pricing_obligations(ctx, n1, n2)
    import_instances(ctx, n3, c02, {"C02.R6"}, "C01.N3")
    import_instances(ctx, r2, c02, {"C02.R1", "C02.R2", "C02.R3", "C02.R4", "C02.R5"}, "C01.R2")
    if res is not None:
        pr, f, bb, pz = res
        try:
            handler_wiring(ctx, r1, pr, f, bb)
        except AnchorMissing as e:
            r1.fail("C01.R1:anchor", "-", "-", "anchor-missing: %s" % e)
    ctx.assumptions.append("paper step: n <= y*a/(x+a) implies (x+a)(y-n) >= x*y and, for x >= 1, n < y; x >= 1 while LP supply > 0 follows by induction from C04/C05")
    ctx.assumptions.append("commission rate is in [0,1] (enforced at creation: C16.R7) and inputs are non-negative integers below 2^128")


def run(ctx):
    from .. import numeric
    _run(ctx)
    numeric.arith_base(ctx, "C01.B1")
