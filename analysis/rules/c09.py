"""C09 — declared native amounts must equal the attached funds exactly (DESIGN §5 C09)."""
import re
from .. import common, roles
from ..roles import P_, param, INFO_TY, AnchorMissing
from ..mir import generic_path


def cond_strings(ctx, conds):
    from .. import lemmas
    return lemmas.cond_strings(ctx, conds)


def closure_predicate(ctx, closure_val):
    """For a closure aggregate value: the canonical comparison its body returns, e.g. eq(a, b) -> (kind, [rootsA, rootsB])"""
    P = ctx.P
    if closure_val[0] != "agg" or closure_val[1] != "closure":
        return None
    cf = P.fn(closure_val[2])
    if cf is None or cf.body is None:
        return None
    exits = common.exit_sites(P, cf)
    if len(exits) != 1:
        return None
    v = exits[0][3]
    R2 = ctx.R.with_captures(closure_val)
    if v[0] == "call" and common.cmp_kind(v[3]):
        return (common.cmp_kind(v[3]), [set(R2.roots(a)) for a in v[4]], cf)
    return None


def funds_suffix(ctx):
    """'.funds' when the check takes the MessageInfo, '' when it takes the attached coins themselves."""
    return "" if getattr(ctx.N, "funds_check_takes_funds", False) else ".funds"


def check_funds_fn(ctx, inst, chk):
    """R1: decision table of the native-funds check."""
    P = ctx.P
    self_amount = P_(chk, 0, ".amount")
    FS = funds_suffix(ctx)
    info_funds = P_(chk, 1, FS)
    ok_exits = [(b, i, cls, v) for (b, i, cls, v) in common.exit_sites(P, chk) if cls != "err"]
    find_root = None
    tables = []
    for (b, i, cls, v) in ok_exits:
        if cls != "ok":
            inst.fail("C09.R1:non-literal-ok", chk.path, common.span_of_block_term(chk, b), "success exit that is not a literal Ok(()) (%s): unrecognised-idiom" % (cls,))
            continue
        # a success exit shared by several paths (`if native { if amount != sent { return Err } } Ok(())`): one row per path
        pcs = common.path_conjunctions(P, chk, b)
        if pcs and len(pcs) > 1:
            for conds in pcs:
                tables.append((b, conds, cond_strings(ctx, conds)))
            continue
        conds = common.control_conditions(P, chk, b)
        tables.append((b, conds, cond_strings(ctx, conds)))
    # locate the find call
    finds = [(bb, p) for bb, p, fr, t in P.calls(chk) if p and common.last_seg(p) in ("find", "position", "any", "find_map")]
    filters = [(bb, p) for bb, p, fr, t in P.calls(chk) if p and common.last_seg(p) == "filter" and "Iterator" in p]
    dup_probe = set()       # condition strings stating "no second coin of the denom" (filter form)
    if not finds and len(filters) == 1:
        # `let mut sent = funds.iter().filter(pred); sent.next()`  ==  funds.iter().find(pred); a later `sent.next()` probes
        # for a second coin of the same denom
        flv = P.val_call(chk, chk.body, filters[0][0])
        nexts = []
        for bb, p, fr, t in P.calls(chk):
            if p and common.last_seg(p) == "next" and "Filter" in p:
                nv = P.val_call(chk, chk.body, bb)
                base = nv[4][0]
                while base[0] in ("ref", "mutref", "deref") and len(base) > 1:
                    base = base[1]
                if base == flv or flv in list(common.walk(nv[4][0])):
                    nexts.append(bb)
        first = [b for b in nexts if all(b == o or chk.body.block_dominates(b, o) for o in nexts)]
        if len(first) != 1:
            inst.fail("C09.R1:find", chk.path, chk.span, "the filtered coin iterator is not read by one first `next()`: unrecognised-idiom")
            return
        fv0 = P.val_call(chk, chk.body, first[0])
        find_root = "C:%s@%s:bb%d" % (generic_path(fv0[3]), chk.path, fv0[2])
        for o in nexts:
            if o != first[0]:
                ov = P.val_call(chk, chk.body, o)
                oroot = "C:%s@%s:bb%d" % (generic_path(ov[3]), chk.path, ov[2])
                dup_probe |= {"is_some(%s) is [False]" % oroot, "is_none(%s) is [True]" % oroot, "discr(%s) in ['None']" % oroot}
        fv = ("call", flv[1], first[0], fv0[3], (flv[4][0], flv[4][1]))
        where_find = first[0]
    elif len(finds) != 1 or common.last_seg(finds[0][1]) != "find":
        inst.fail("C09.R1:find", chk.path, chk.span, "expected exactly one Iterator::find over the attached funds, found %s: unrecognised-idiom" % [common.last_seg(p) for _, p in finds])
        return
    else:
        fv = P.val_call(chk, chk.body, finds[0][0])
        find_root = "C:%s@%s:bb%d" % (generic_path(fv[3]), chk.path, fv[2])
        where_find = finds[0][0]
    finds = [(where_find, fv[3])]
    # `funds.iter().filter(|c| c.denom == denom).count() > 1 => Err`: a duplicated denom is refused (stricter than required)
    for cb_, cp_, cfr_, ct_ in P.calls(chk):
        if cp_ and common.last_seg(cp_) == "count" and "Iterator" in cp_:
            cnt = P.val_call(chk, chk.body, cb_)
            try:
                ads_c, kind_c, src_c = common.iter_chain(cnt[4][0])
            except Exception:
                continue
            if [a for a, _ in ads_c] == ["filter"] and kind_c == "iter" and set(ctx.roots(src_c)) == {info_funds}:
                pc = closure_predicate(ctx, ads_c[0][1][4][1])
                if pc is not None and pc[0] == "eq" and len(pc[1]) == 2 and {P_(chk, 0, ".info~NativeToken.denom")} in pc[1] and \
                        any(len(x_) == 1 and list(x_)[0].endswith(".denom") and list(x_)[0].startswith("P:%s#1" % pc[2].path) for x_ in pc[1]):
                    croot = "C:%s@%s:bb%d" % (generic_path(cnt[3]), chk.path, cnt[2])
                    dup_probe |= {"le(%s, K:1)" % croot, "lt(%s, K:2)" % croot}
    ads, kind, src = common.iter_chain(fv[4][0])
    if ads or kind != "iter" or set(ctx.roots(src)) != {info_funds}:
        inst.fail("C09.R1:find-source", chk.path, common.span_of_block_term(chk, finds[0][0]),
                  "the coin search does not run over exactly message_info.funds (adaptors %s, source %s)" % ([a for a, _ in ads], sorted(ctx.roots(src))))
    pred = closure_predicate(ctx, fv[4][1])
    denom = P_(chk, 0, ".info~NativeToken.denom")
    if pred is None or pred[0] != "eq" or len(pred[1]) != 2:
        inst.fail("C09.R1:find-predicate", chk.path, common.span_of_block_term(chk, finds[0][0]), "search predicate is not a single equality: unrecognised-idiom")
    else:
        cf = pred[2]
        want = [{P_(cf, 1, ".denom")}, {denom}]
        if not (pred[1] == want or pred[1] == want[::-1]):
            inst.fail("C09.R1:find-predicate-operands", cf.path, cf.span,
                      "search predicate compares %s, expected coin.denom with the asset's denom" % [sorted(x) for x in pred[1]])
        else:
            inst.site("find over info.funds with predicate coin.denom == self.denom at %s" % cf.span)
    info_disc = "discr(%s)" % P_(chk, 0, ".info")
    expected = [
        ("token", {"%s in ['Token']" % info_disc}),
        ("native-found-equal", {"%s in ['NativeToken']" % info_disc, "discr(%s) in ['Some']" % find_root,
                                "eq(%s) is [True]" % ", ".join(sorted([self_amount, find_root + ".amount"]))}),
        ("native-absent-zero", {"%s in ['NativeToken']" % info_disc, "discr(%s) in ['None']" % find_root,
                                "is_zero(%s) is [True]" % self_amount}),
    ]
    # equivalent single-comparison form: amount == find(..).map(|c| c.amount).unwrap_or(zero)
    zero_roots = [r for b_, conds_, cs_ in tables for c_ in cs_ for r in re.findall(r"C:cosmwasm_std::Uint128::zero@[\w:<>{}#]+:bb\d+", c_)]
    if any("or(%s.amount;K:default)" % find_root in c_ for b_, conds_, cs_ in tables for c_ in cs_):
        zero_roots.append("K:default")      # Uint128::default() is zero
    for zr in set(zero_roots):
        alt = {"%s in ['NativeToken']" % info_disc, "eq(%s) is [True]" % ", ".join(sorted([self_amount, "or(%s.amount;%s)" % (find_root, zr)]))}
        expected.append(("native-sent-equal", alt))
    seen = set()
    for b, conds, cs in tables:
        if dup_probe & cs:
            cs = cs - dup_probe
            inst.site("a second attached coin of the same denom is rejected (stricter than required) at %s" % common.span_of_block_term(chk, b))
        hit = [n for n, e in expected if e == cs]
        if not hit:
            inst.fail("C09.R1:ok-region:%s" % "&".join(sorted(cs)), chk.path, common.span_of_block_term(chk, b),
                      "Ok(()) is returned under conditions {%s}; allowed regions are: asset is a cw20 token / native ∧ coin found ∧ amount == coin.amount / native ∧ no coin ∧ amount is zero"
                      % "; ".join(sorted(cs)))
        else:
            seen.add(hit[0])
            inst.site("Ok region '%s' at %s" % (hit[0], common.span_of_block_term(chk, b)))
    if "native-sent-equal" in seen:
        seen |= {"native-found-equal", "native-absent-zero"}
    for n, e in expected:
        if n not in seen and n not in ("token", "native-sent-equal"):
            inst.fail("C09.R1:missing-region:%s" % n, chk.path, chk.span, "no success exit for the region '%s' (the check would reject legitimate calls)" % n)


def call_arg_roots(ctx, fn, bb, i):
    cv = ctx.P.val_call(fn, fn.body, bb)
    return set(ctx.roots(cv[4][i]))


def _effect_free_deep(P, g, depth, _seen=None):
    _seen = _seen if _seen is not None else set()
    if g is None or g.body is None or depth > 5:
        return False
    if g.path in _seen:
        return True
    _seen.add(g.path)
    if not common._effect_free(P, g, 0):
        return False
    for b, p, fr, t in P.calls(g):
        if roles.is_workspace_fn(P, p) and not _effect_free_deep(P, P.fn(p) or P.fn(generic_path(p)), depth + 1, _seen):
            return False
    return True


def check_before_everything(ctx, inst, fn, cont_edges, exempt_blocks, what, key):
    """All effects, success exits and all effectful workspace calls of fn are dominated by every edge in cont_edges."""
    P = ctx.P
    body = fn.body
    targets = []
    for b, d in roles.sink_blocks(P, fn):
        targets.append((b, d))
    for (b, i, cls, v) in common.ok_exit_blocks(P, fn):
        targets.append((b, "success exit"))
    for b, p, fr, t in P.calls(fn):
        if b in exempt_blocks:
            continue
        if roles.is_workspace_fn(P, p):
            # a helper that (transitively) neither writes storage nor builds a message decides nothing about funds: a pool
            # membership test or an address conversion ahead of the funds check only changes which error is reported first
            if _effect_free_deep(P, P.fn(p) or P.fn(generic_path(p)), 0):
                continue
            targets.append((b, "call of %s" % generic_path(p)))
    # storage *reads* are not targets: loading the pair record ahead of the check decides nothing about funds
    n = 0
    for b, d in targets:
        if b in exempt_blocks:
            continue
        n += 1
        for e in cont_edges:
            if not body.edge_dominates(e, b):
                inst.fail("%s:%s:not-dominated:%s" % (key, fn.path, d), fn.path, common.span_of_block_term(fn, b),
                          "%s is reachable without a successful %s" % (d, what))
                break
    return n


def _run(ctx):
    P = ctx.P
    r1 = ctx.inst("C09.R1", "decision table of the native-funds check: Ok only for {cw20} / {native, coin found, amount == coin.amount} / {native, no coin, amount == 0}", floor=3)
    r2 = ctx.inst("C09.R2", "provide handler applies the check to every declared asset with the transaction's info, error propagated, before every effect, effectful call and success exit", floor=2)
    r3 = ctx.inst("C09.R3", "swap handler applies the check to the named offer asset with the caller's info, error propagated, before pricing; both entry paths pass their own info", floor=3)
    try:
        pr = roles.PairRoles(P)
    except AnchorMissing as e:
        for r in (r1, r2, r3):
            r.fail("%s:anchor" % r.id, "-", "-", "anchor-missing: %s" % e)
        return
    chk = pr.funds_check
    check_funds_fn(ctx, r1, chk)

    # ---- R2 provide ------------------------------------------------------------------------
    fn = pr.provide_handler
    info = param(fn, INFO_TY)
    assets_i = common.param_index_of_type(fn, r"^\[%s; 2\]$" % ctx.N.rx("Asset"))
    if assets_i is None:
        r2.fail("C09.R2:anchor", fn.path, fn.span, "anchor-missing: provide handler has no [Asset; 2] parameter")
    else:
        calls = pr.calls_to(fn, chk)
        covered = set()
        cont_edges = []
        exempt = set()
        lps = common.loops(P, fn)
        for cb in calls:
            a0 = call_arg_roots(ctx, fn, cb, 0)
            a1 = call_arg_roots(ctx, fn, cb, 1)
            where = common.span_of_block_term(fn, cb)
            if a1 != {P_(fn, info, "" if funds_suffix(ctx) else ".funds")}:
                r2.fail("C09.R2:info-origin", fn.path, where, "check is applied with funds of %s, expected the transaction's MessageInfo" % sorted(a1))
                continue
            pg = common.propagated(P, fn, cb)
            if pg is None:
                r2.fail("C09.R2:not-propagated", fn.path, where, "result of the native-funds check is not inspected (error dropped)")
                continue
            s, cont, brk = pg
            ok, why = common.fail_edge_only_errors(P, fn, brk)
            if not ok:
                r2.fail("C09.R2:error-not-returned", fn.path, where, "failing check does not abort the call: %s" % why)
                continue
            lp = [l for l in lps if a0 == {l["item_root"]}]
            if lp:
                l = lp[0]
                ads, kind, src = common.iter_chain(l["iter"])
                if ads or kind != "iter" or set(ctx.roots(src)) != {P_(fn, assets_i)}:
                    r2.fail("C09.R2:loop-shape", fn.path, where, "the checking loop does not visit every declared asset: adaptors %s over %s (%s)" % (
                        [a for a, _ in ads], sorted(ctx.roots(src)), kind))
                    continue
                if not l["is_loop"] or not fn.body.edge_dominates(l["some_edge"], cb):
                    r2.fail("C09.R2:loop-body", fn.path, where, "check is not executed on each iteration")
                    continue
                # the check must run on every iteration: no conditional skip between loop head and the call
                conds = [c for c in common.control_conditions(P, fn, cb) if c["sw"] != l["switch"] and fn.body.block_dominates(l["switch"], c["sw"])
                         and c["sw"] in fn.body.reachable_from(l["some_edge"][1])]
                conds = [c for c in conds if not (c["cond"][0] == "discr" and c["cond"][1][0] == "call" and common.is_try_branch(c["cond"][1][3]))]
                if conds:
                    r2.fail("C09.R2:conditional-check", fn.path, where, "inside the loop the check is skipped under some condition (%s)" % "; ".join(sorted(cond_strings(ctx, conds))))
                    continue
                covered |= {0, 1}
                cont_edges.append(l["none_edge"])
                exempt |= fn.body.reachable_from(l["some_edge"][1], cut_edges=(l["none_edge"],)) - fn.body.reachable_from(l["none_edge"][1])
                exempt |= {b for b in range(len(fn.body.blocks)) if fn.body.block_dominates(b, l["switch"])}
                r2.site("loop over all declared assets at %s, error propagated" % where)
            else:
                idx = [r for r in a0 if r.startswith(P_(fn, assets_i) + "[")]
                if len(a0) == 1 and idx and idx[0][len(P_(fn, assets_i)) + 1:-1].isdigit() and idx[0].endswith("]"):
                    k = int(idx[0][len(P_(fn, assets_i)) + 1:-1])
                    covered.add(k)
                    cont_edges.append(cont)
                    exempt |= {b for b in range(len(fn.body.blocks)) if fn.body.block_dominates(b, s)}
                    r2.site("explicit check of assets[%d] at %s" % (k, where))
                else:
                    r2.fail("C09.R2:arg-origin", fn.path, where, "check applied to %s, not to a declared asset: unrecognised-idiom" % sorted(a0))
        # closure form: `assets.iter().try_for_each(|a| a.check(&info))?`
        if not calls:
            for cf in [g for g in P.fns.values() if g.kind == "closure" and g.parent == fn.path and g.body is not None]:
                ccalls = pr.calls_to(cf, chk)
                if len(ccalls) != 1:
                    continue
                site = P.closure_site(cf.path)
                cexits = common.exit_sites(P, cf)
                cv = P.val_call(cf, cf.body, ccalls[0])
                # the closure returns the check's result unchanged, for its element, with the handler's info
                forwards = len(cexits) == 1 and cexits[0][3] == cv and not common.control_conditions(P, cf, ccalls[0])
                a0 = set(ctx.roots(cv[4][0]))
                a1 = set(ctx.roots(cv[4][1]))
                tfe = [(b, P.val_call(fn, fn.body, b)) for b, p, fr, t in P.calls(fn) if p and common.last_seg(p) == "try_for_each" and "Iterator" in p]
                tfe = [(b, v) for b, v in tfe if v[4][1][0] == "agg" and v[4][1][2] == cf.path]
                if not forwards or a0 != {P_(cf, 1)} or a1 != {P_(fn, info)} or len(tfe) != 1:
                    r2.fail("C09.R2:closure-shape", cf.path, cf.span, "the funds check sits in a closure that is not `try_for_each(|a| a.check(&info))` over the declared assets: unrecognised-idiom")
                    continue
                tb, tv = tfe[0]
                where = common.span_of_block_term(fn, tb)
                ads, kind, src = common.iter_chain(tv[4][0])
                if ads or kind not in ("iter", "into_iter") or set(ctx.roots(src)) != {P_(fn, assets_i)}:
                    r2.fail("C09.R2:loop-shape", fn.path, where, "the checking iteration does not visit every declared asset: adaptors %s over %s (%s)" % ([a for a, _ in ads], sorted(ctx.roots(src)), kind))
                    continue
                pg = common.propagated(P, fn, tb)
                if pg is None or not common.fail_edge_only_errors(P, fn, pg[2])[0]:
                    r2.fail("C09.R2:not-propagated", fn.path, where, "result of the native-funds check is not inspected (error dropped)")
                    continue
                covered |= {0, 1}
                cont_edges.append(pg[1])
                exempt |= {b for b in range(len(fn.body.blocks)) if fn.body.block_dominates(b, pg[0])}
                r2.site("try_for_each over all declared assets at %s, error propagated" % where)
        if covered != {0, 1} and r2.status == "pass":
            r2.fail("C09.R2:coverage", fn.path, fn.span, "native-funds check covers declared assets %s, expected both" % sorted(covered))
        if cont_edges and r2.status == "pass":
            n = check_before_everything(ctx, r2, fn, cont_edges, exempt, "native-funds check of every declared asset", "C09.R2")
            r2.site("check precedes %d effect / call / read site(s)" % n)

    # ---- R3 swap ---------------------------------------------------------------------------------
    fn = pr.swap_handler
    info = param(fn, INFO_TY)
    offer_i = common.param_index_of_type(fn, "^%s$" % ctx.N.rx("Asset"))
    calls = pr.calls_to(fn, chk)
    if offer_i is None:
        r3.fail("C09.R3:anchor", fn.path, fn.span, "anchor-missing: swap handler has no unique Asset parameter")
    elif not calls:
        r3.fail("C09.R3:no-check", fn.path, fn.span, "swap handler never calls the native-funds check")
    else:
        good = []
        for cb in calls:
            where = common.span_of_block_term(fn, cb)
            a0, a1 = call_arg_roots(ctx, fn, cb, 0), call_arg_roots(ctx, fn, cb, 1)
            if a0 != {P_(fn, offer_i)} or a1 != {P_(fn, info, "" if funds_suffix(ctx) else ".funds")}:
                r3.fail("C09.R3:arg-origin", fn.path, where, "check applied to (%s, %s), expected (named offer asset, caller's info)" % (sorted(a0), sorted(a1)))
                continue
            pg = common.propagated(P, fn, cb)
            if pg is None:
                r3.fail("C09.R3:not-propagated", fn.path, where, "result of the native-funds check is not inspected (error dropped)")
                continue
            s, cont, brk = pg
            ok, why = common.fail_edge_only_errors(P, fn, brk)
            if not ok:
                r3.fail("C09.R3:error-not-returned", fn.path, where, "failing check does not abort the swap: %s" % why)
                continue
            good.append((cb, s, cont))
        if good and r3.status == "pass":
            cb, s, cont = good[0]
            exempt = {b for b in range(len(fn.body.blocks)) if fn.body.block_dominates(b, s)}
            n = check_before_everything(ctx, r3, fn, [cont], exempt, "native-funds check of the offer asset", "C09.R3")
            r3.site("swap handler: check at %s precedes %d effect / call / read site(s)" % (common.span_of_block_term(fn, cb), n))
        # wiring of both entry paths
        for label, arm in (("direct", pr.swap_direct), ("hook", pr.swap_hook)):
            disp, edge, region, h, callbb = arm
            cv = P.val_call(disp, disp.body, callbb)
            di = param(disp, INFO_TY)
            got, want_ = roles.passed_roots(ctx, cv, info, disp, di)
            if got != want_:
                r3.fail("C09.R3:wiring:%s" % label, disp.path, common.span_of_block_term(disp, callbb), "%s swap path passes info ⊢ %s, expected the transaction's own MessageInfo" % (label, sorted(got)))
            else:
                r3.site("%s path: swap handler's info ⊢ %s" % (label, P_(disp, di)))
    ctx.assumptions.append("the bank module credits attached funds before execution and a cw20 hook call carries no funds (platform)")


def run(ctx):
    from .. import lemmas
    _run(ctx)
    l1 = ctx.inst("C09.L1", "support lemmas: the funds check is skipped exactly for non-native assets and the handlers match declared assets to pools by a true equality of (kind, identifier) — so a native pool is never credited through an asset declared as a Token", floor=2)
    lemmas.check_equal(ctx, l1)
    lemmas.check_is_native(ctx, l1)
