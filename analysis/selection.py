"""How the swap handler decides which of the two pools is the offer side.

Two source forms are recognised and presented to the rules through one interface:

  branch form   if offer.info.equal(pools[0].info) {..} else if offer.info.equal(pools[1].info) {..} else { Err }
                values are evaluated restricted to each branch region
  index form    let i = pools.iter().position(|p| offer.info.equal(&p.info)).ok_or(Err)?;  let j = 1 - i;
                values are evaluated with the position result replaced by the constant k and constant indices folded

`value(loc, operand, k)` is the operand's value in the case "the offer asset is pools[k]"."""
import re
from . import common, lemmas
from .roles import P_, AnchorMissing
from .mir import generic_path, proj, phi


def replace(v, old, new):
    if v == old:
        return new
    if isinstance(v, tuple):
        return tuple(replace(x, old, new) for x in v)
    return v


def const_eval(v, depth=0):
    """Integer value of a constant expression (through Some/Ok/Continue wrappers, casts, transparent calls, +/-), else None."""
    if depth > 40 or not isinstance(v, tuple) or not v:
        return None
    k = v[0]
    if k == "const":
        return v[2] if v[1] == "int" and isinstance(v[2], int) else None
    if k == "cast":
        return const_eval(v[2], depth + 1)
    if k == "proj":
        e = v[2]
        if e[0] == "v" and e[1] in ("Some", "Ok", "Continue"):
            return const_eval(v[1], depth + 1)
        if e[0] == "f" and str(e[1]) == "0":
            return const_eval(v[1], depth + 1)
        return None
    if k == "agg" and v[1] == "adt" and re.search(r"(Option::Some|Result::Ok|ControlFlow::Continue)$", str(v[2])) and len(v[3]) == 1:
        return const_eval(v[3][0][1], depth + 1)
    if k == "call" and isinstance(v[3], str):
        if common.is_try_branch(v[3]):
            return const_eval(v[4][0], depth + 1)
        ti = common.transparent_arg(v[3])
        if ti is not None and ti < len(v[4]):
            return const_eval(v[4][ti], depth + 1)
        return None
    if k == "binop":
        a, b = const_eval(v[2], depth + 1), const_eval(v[3], depth + 1)
        if a is None or b is None:
            return None
        if v[1] in ("Add", "AddWithOverflow"):
            return a + b
        if v[1] in ("Sub", "SubWithOverflow"):
            return a - b if a >= b else None
        return None
    if k == "phi":
        vals = {const_eval(x, depth + 1) for x in v[1]}
        return vals.pop() if len(vals) == 1 and None not in vals else None
    return None


def resolve(v, depth=0):
    """Evaluate projections on aggregates and `?` on literal Ok values, bottom-up (after a substitution made them literal)."""
    if depth > 80 or not isinstance(v, tuple) or not v:
        return v
    k = v[0]
    if k == "proj":
        base = resolve(v[1], depth + 1)
        e = v[2]
        if e[0] == "v" and base[0] == "agg" and base[1] == "adt" and str(base[2]).endswith("::" + str(e[1])):
            return base                      # downcast to the aggregate's own variant
        if e[0] == "ix":
            e = ("ix", resolve(e[1], depth + 1))
        return proj(base, e)
    if k == "call" and isinstance(v[3], str):
        args = tuple(resolve(x, depth + 1) for x in v[4])
        if common.is_try_branch(v[3]) and args and args[0][0] == "agg" and str(args[0][2]).endswith("Result::Ok"):
            return ("agg", "adt", "std::ops::ControlFlow::Continue", args[0][3])
        ev = _eval_on_variants(v[3], args)
        if ev is not None:
            return resolve(ev, depth + 1)
        return ("call", v[1], v[2], v[3], args)
    if k == "phi":
        return phi([resolve(x, depth + 1) for x in v[1]])
    if k == "agg":
        return ("agg", v[1], v[2], tuple((n, resolve(x, depth + 1)) for n, x in v[3]))
    if k == "binop":
        return ("binop", v[1], resolve(v[2], depth + 1), resolve(v[3], depth + 1))
    if k == "cast":
        return ("cast", v[1], resolve(v[2], depth + 1)) + tuple(v[3:])
    if k == "mut":
        return ("mut", resolve(v[1], depth + 1)) + tuple(v[2:])
    return v


def _eval_on_variants(callee, args):
    """A small pure workspace function applied to literal payload-free enum variants (`Position::First.index()`,
    `Position::First.other()`): the value of the one exit whose conditions — all of them tests of a parameter's variant —
    hold for these arguments.  None when the callee is not such a function or the exit is not unique."""
    P = common.CURRENT_P[0]
    if P is None or not args or not all(a[0] == "agg" and a[1] == "adt" and not a[3] and isinstance(a[2], str) for a in args):
        return None
    g = P.fn(callee) or P.fn(generic_path(callee))
    if g is None or g.body is None or g.derived or g.body.back_edges() or len(g.body.blocks) > 24 or \
            g.crate not in ("halo_pair", "halo_factory", "halo_router", "haloswap") or not common._effect_free(P, g, 0):
        return None
    names = [str(a[2]).rsplit("::", 1)[-1] for a in args]
    hits = []
    for (b, i, cls, rv) in common.exit_sites(P, g):
        ok = True
        for c in common.control_conditions(P, g, b, expand_helpers=False):
            cd = c["cond"]
            if cd[0] == "discr" and cd[1][0] == "param" and cd[1][1] == g.path and cd[1][2] < len(names):
                if names[cd[1][2]] not in c["allowed"]:
                    ok = False
            else:
                return None          # a condition on something else than the parameters' variants
        if ok:
            hits.append(rv)
    return hits[0] if len(hits) == 1 else None


def fold_indices(v, depth=0):
    """Rewrite `base[<constant expression>]` into the constant projection `base[k]`."""
    if depth > 60 or not isinstance(v, tuple) or not v:
        return v
    if v[0] == "proj":
        base = fold_indices(v[1], depth + 1)
        e = v[2]
        if e[0] == "ix":
            k = const_eval(resolve(e[1]))
            if k is not None:
                return proj(base, ("i", k))
            return proj(base, ("ix", fold_indices(e[1], depth + 1)))
        return proj(base, e)
    if v[0] == "phi":
        return phi([fold_indices(x, depth + 1) for x in v[1]])
    if v[0] == "call":
        return ("call", v[1], v[2], v[3], tuple(fold_indices(x, depth + 1) for x in v[4]))
    if v[0] == "agg":
        return ("agg", v[1], v[2], tuple((n, fold_indices(x, depth + 1)) for n, x in v[3]))
    if v[0] == "binop":
        return ("binop", v[1], fold_indices(v[2], depth + 1), fold_indices(v[3], depth + 1))
    if v[0] == "cast":
        return ("cast", v[1], fold_indices(v[2], depth + 1)) + tuple(v[3:])
    if v[0] == "mut":
        return ("mut", fold_indices(v[1], depth + 1)) + tuple(v[2:])
    if v[0] == "upd":
        return ("upd", fold_indices(v[1], depth + 1), v[2], fold_indices(v[3], depth + 1))
    return v


class PoolSelection:
    def __init__(self, ctx, swap, offer_i, QP, offer_info=None, allow_helper=True):
        self.ctx, self.P, self.swap, self.offer_i, self.QP = ctx, ctx.P, swap, offer_i, QP
        self.form = None
        self.sel = {}
        self.regions = {}
        self.pos = None
        P, body = self.P, swap.body
        offer_info = offer_info or {P_(swap, offer_i, ".info")}
        for g in common.bool_guards(P, swap):
            c = g.cond
            if c[0] == "cmp" and c[1] in ("equal", "eq") and len(c[2]) == 2:
                rs = [set(ctx.roots(x)) for x in c[2]]
                for x, y in ((rs[0], rs[1]), (rs[1], rs[0])):
                    if x == offer_info and len(y) == 1:
                        m = re.match(r"^%s\[([01])\]\.info$" % re.escape(QP), list(y)[0])
                        if m:
                            self.sel[int(m.group(1))] = g
        if sorted(self.sel) == [0, 1]:
            self.form = "branch"
            self.regions = {k: common.region_of_edge(body, g.edge(True)) for k, g in self.sel.items()}
            return
        # index form
        poss = [(b, p) for b, p, fr, t in P.calls(swap) if p and common.last_seg(p) == "position" and "Iterator" in p]
        if len(poss) == 1:
            pv = P.val_call(swap, body, poss[0][0])
            ads, kind, src = common.iter_chain(pv[4][0])
            clo = pv[4][1]
            okp = False
            if not ads and kind == "iter" and set(ctx.roots(src)) == {QP} and clo[0] == "agg" and clo[1] == "closure":
                cf = P.fn(clo[2])
                exits = [x for x in common.exit_sites(P, cf)] if cf is not None and cf.body is not None else []
                if len(exits) == 1 and exits[0][3][0] == "call" and common.cmp_kind(exits[0][3][3]) in ("equal", "eq"):
                    R2 = ctx.R.with_captures(clo)
                    args = [set(R2.roots(a)) for a in exits[0][3][4]]
                    elem = {P_(cf, 1, ".info")}
                    if args in ([offer_info, elem], [elem, offer_info]):
                        okp = True
                        self.pred_kind = common.cmp_kind(exits[0][3][3])
            if okp:
                self.form = "index"
                self.pos = pv
                self.pos_bb = poss[0][0]
                return
        # helper form: a private selector `h(.., offer.info, .., pools, ..)` containing the equality branches
        if allow_helper:
            from . import roles
            cands = []
            for b, p, fr, t in P.calls(swap):
                if not roles.is_workspace_fn(P, p):
                    continue
                h = P.fn(p) or P.fn(generic_path(p))
                if h is None or h.path == swap.path or h.body is None or h.body.back_edges() or not common._effect_free(P, h, 0):
                    continue
                cv = P.val_call(swap, body, b)
                offer_asset = {x[:-5] for x in offer_info if x.endswith(".info")}
                ai = [(i, "") for i, a in enumerate(cv[4]) if set(ctx.roots(a)) == offer_info]
                if not ai and offer_asset:
                    ai = [(i, ".info") for i, a in enumerate(cv[4]) if set(ctx.roots(a)) == offer_asset]      # the whole offer asset is handed over
                pi = [i for i, a in enumerate(cv[4]) if set(ctx.roots(a)) == {QP}]
                if len(ai) != 1 or len(pi) != 1:
                    continue
                try:
                    inner = PoolSelection(ctx, h, None, P_(h, pi[0]), offer_info={P_(h, ai[0][0], ai[0][1])}, allow_helper=False)
                except AnchorMissing:
                    continue
                if inner.form == "index":
                    # the helper returns the position itself: `pools.iter().position(|p| info.equal(&p.info)).ok_or(Err)`
                    exs_ = [(eb, v_) for (eb, i_, cls, v_) in common.exit_sites(P, h)]
                    if len(exs_) == 1:
                        hv_ = exs_[0][1]
                        okk = True
                        for k_ in (0, 1):
                            some_k = ("agg", "adt", "std::option::Option::Some", ((0, ("const", "int", k_)),))
                            if const_eval(resolve(replace(hv_, inner.pos, some_k))) != k_:
                                okk = False
                        oks_ = [x for x in common.walk(hv_) if x[0] == "call" and isinstance(x[3], str) and common.last_seg(x[3]) in ("ok_or", "ok_or_else") and "option::Option" in x[3]]
                        if okk and len(oks_) == 1 and inner.pos in list(common.walk(oks_[0][4][0])):
                            cands.append((b, h, cv, inner, "index"))
                    continue
                if inner.form != "branch":
                    continue
                rets = {}
                all_oks = [(eb, i_, v) for (eb, i_, cls, v) in common.exit_sites(P, h) if cls != "err"]
                # a mode parameter passed as a literal payload-free variant (`select_pools(&pools, &info, SwapSide::Ask)`):
                # blocks behind a test of that parameter's variant are taken / dropped according to the literal
                lit = {i: str(a[2]).rsplit("::", 1)[-1] for i, a in enumerate(cv[4]) if a[0] == "agg" and a[1] == "adt" and not a[3] and isinstance(a[2], str)}
                sat, viol = set(), set()
                if lit:
                    for hb in range(len(h.body.blocks)):
                        if h.body.blocks[hb]["cleanup"]:
                            continue
                        for c_ in common.control_conditions(P, h, hb, expand_helpers=False):
                            cd = c_["cond"]
                            if cd[0] == "discr" and cd[1][0] == "param" and cd[1][1] == h.path and cd[1][2] in lit:
                                (sat if lit[cd[1][2]] in c_["allowed"] else viol).add(hb)
                    sat -= viol
                if lit:
                    r0_, r1_ = set(inner.regions[0]), set(inner.regions[1])
                    inner.regions[0] = (r0_ - viol) | (sat - r1_)
                    inner.regions[1] = (r1_ - viol) | (sat - r0_)
                for k in (0, 1):
                    oks = [(eb, v) for (eb, i_, v) in all_oks if eb in inner.regions[k]]
                    if len(oks) == 1:
                        rets[k] = oks[0][1]
                    elif not oks and len(all_oks) == 1:
                        # one success exit after the branches merged: its value along the paths through branch k
                        eb, i_, v_ = all_oks[0]
                        if i_ < len(h.body.blocks[eb]["stmts"]) and h.body.blocks[eb]["stmts"][i_]["k"] == "assign":
                            rets[k] = P.val_rvalue_in(h, (eb, i_), h.body.blocks[eb]["stmts"][i_]["rv"], inner.regions[k])
                if sorted(rets) == [0, 1]:
                    cands.append((b, h, cv, inner, rets))
            if len(cands) == 1 and cands[0][4] == "index":
                self.form = "helper-index"
                self.h_bb, self.h, self.h_call, self.h_inner, _ = cands[0]
                return
            if len(cands) == 1:
                self.form = "helper"
                self.h_bb, self.h, self.h_call, self.h_inner, self.h_rets = cands[0]
                return
        raise AnchorMissing("offer/ask are not selected by comparing the named offer asset with pools[0].info and pools[1].info "
                            "(equality branches found for indices %s; no `position` over the pools with that predicate)" % sorted(self.sel))

    def cases(self):
        return (0, 1)

    def value(self, loc, operand, k):
        P = self.P
        if self.form == "branch":
            # an index chosen in the branches and used after they merged (`pools[offer_idx]`, `1 - offer_idx`) folds to a constant
            return fold_indices(resolve(P.val_operand_in(self.swap, loc, operand, self.regions[k])))
        v = P.val_operand(self.swap, loc, operand, self.swap.body)
        if self.form == "helper-index":
            ok_k = ("agg", "adt", "std::result::Result::Ok", ((0, ("const", "int", k)),))
            return fold_indices(resolve(replace(v, self.h_call, ok_k)))
        if self.form == "helper":
            mapping = {("param", self.h.path, i): a for i, a in enumerate(self.h_call[4])}
            rk = common.subst_params(self.h_rets[k], mapping)
            return fold_indices(resolve(replace(v, self.h_call, rk)))
        some_k = ("agg", "adt", "std::option::Option::Some", ((0, ("const", "int", k)),))
        return fold_indices(resolve(replace(v, self.pos, some_k)))

    def describe(self, k):
        if self.form in ("helper", "helper-index"):
            return "%s: offer == pools[%d]" % (self.h.name, k)
        return "offer == pools[%d]" % k if self.form == "branch" else "position(offer) == %d" % k

    def rejects_foreign(self):
        """An offer asset that equals neither pool ends in an error (and reaches no effect)."""
        P, swap = self.P, self.swap
        if self.form == "branch":
            g0, g1 = self.sel[0], self.sel[1]
            for ga, gb in ((g0, g1), (g1, g0)):
                if swap.body.edge_dominates(ga.edge(False), gb.b):
                    ok, _ = common.fail_edge_only_errors(P, swap, gb.edge(False))
                    return ok
            return False
        if self.form == "helper-index":
            # None => Err by ok_or in the helper; the caller propagates it
            pg = common.propagated(P, swap, self.h_bb)
            return pg is not None and common.fail_edge_only_errors(P, swap, pg[2])[0]
        if self.form == "helper":
            if not self.h_inner.rejects_foreign():
                return False
            pg = common.propagated(P, swap, self.h_bb)
            return pg is not None and common.fail_edge_only_errors(P, swap, pg[2])[0]
        cands = [self.pos_bb]
        for b, p, fr, t in P.calls(swap):
            if p and b != self.pos_bb:
                if common.last_seg(p) not in ("ok_or", "ok_or_else"):
                    continue
                cv = P.val_call(swap, swap.body, b)
                if cv[0] == "call" and len(cv) > 4 and cv[4] and self.pos in list(common.walk(cv[4][0])):
                    cands.append(b)
        for b in cands:
            pg = common.propagated(P, swap, b)
            if pg is not None and common.fail_edge_only_errors(P, swap, pg[2])[0]:
                return True
        return False
