"""C17 — native-decimals updates reach every affected pair (DESIGN §5 C17)."""
import re
from .. import common, roles, lemmas
from ..roles import P_, param, INFO_TY, ENV_TY, AnchorMissing
from ..mir import generic_path

BOUNDING = {"take", "skip", "step_by", "take_while", "skip_while", "filter", "filter_map", "map_while", "scan", "flat_map", "zip", "chain"}


def collection_chain(ctx, v, depth=0):
    """Follow a collection value back to the storage scan it was collected from.
    Returns (adaptor names outermost-first, description of the source, list of helper fns crossed)."""
    P = ctx.P
    helpers = []
    ads_all = []
    while depth < 12:
        depth += 1
        # strip Try / Ok wrappers
        while v[0] == "proj":
            v = v[1]
        if v[0] == "call" and isinstance(v[3], str) and common.is_try_branch(v[3]):
            v = v[4][0]
            continue
        if v[0] == "call" and isinstance(v[3], str) and common.last_seg(v[3]) == "collect":
            ads, kind, src = common.iter_chain(v[4][0])
            ads_all += [(a, av) for a, av in ads]
            if kind == "range" or (src[0] == "call" and isinstance(src[3], str) and re.search(r"Map::(range|range_raw|keys|keys_raw|prefix)$", generic_path(src[3]))):
                return ads_all, ("scan", src), helpers
            v = src
            continue
        # a vector filled by one unconditional push per iteration of a loop == collect() of that loop's iterator
        vb = common.vec_build(P, None, v) if v[0] in ("phi", "mut") else None
        if vb is not None and common.is_empty_vec_base(vb[0]) and len(vb[1]) == 1 and vb[1][0][0] == "push" and vb[1][0][2]:
            pcv = vb[1][0][1]
            pf = P.fn(pcv[1])
            lps_ = [l for l in common.loops(P, pf) if l["is_loop"] and pf.body.edge_dominates(l["some_edge"], pcv[2])]
            if len(lps_) == 1:
                l_ = lps_[0]
                lb_ = pf.body.reachable_from(l_["some_edge"][1], cut_edges=(l_["none_edge"],))
                conds_ = [c for c in common.control_conditions(P, pf, pcv[2]) if c["sw"] in lb_ and c["sw"] != l_["switch"]]
                conds_ = [c for c in conds_ if not (c["cond"][0] == "discr" and c["allowed"] in (["Continue"], ["Ok"]))]
                ads, kind, src = common.iter_chain(l_["iter"])
                ads_all += [(a, av) for a, av in ads]
                if conds_:
                    ads_all.append(("filter", None))     # a conditional push drops elements
                if kind == "range" or (src[0] == "call" and isinstance(src[3], str) and re.search(r"Map::(range|range_raw|keys|keys_raw|prefix)$", generic_path(src[3]))):
                    return ads_all, ("scan", src), helpers
                v = src
                continue
        if v[0] == "call" and isinstance(v[3], str) and roles.is_workspace_fn(P, v[3]):
            f = P.fn(v[3]) or P.fn(generic_path(v[3]))
            helpers.append((f, v))
            oks = [x for x in common.exit_sites(P, f) if x[2] != "err"]
            if len(oks) != 1:
                return ads_all, ("unknown", v), helpers
            rv = oks[0][3]
            # unwrap Ok(..)
            if rv[0] == "agg" and str(rv[2]).endswith("Result::Ok"):
                rv = rv[3][0][1]
            v = rv
            continue
        if v[0] == "param" and any(f.path == v[1] for f, _ in helpers):
            # the helper iterates one of its own parameters (`fn humanize(api, records: impl Iterator<..>)`): continue in the caller
            cvs = [cv_ for f, cv_ in helpers if f.path == v[1]]
            if v[2] < len(cvs[-1][4]):
                v = cvs[-1][4][v[2]]
                continue
        if v[0] == "call" and isinstance(v[3], str) and re.search(r"Map::(range|range_raw|keys|keys_raw|prefix)$", generic_path(v[3])):
            return ads_all, ("scan", v), helpers
        if v[0] == "call" and isinstance(v[3], str) and "Iterator" in v[3] and common.last_seg(v[3]) in BOUNDING | {"map", "rev", "enumerate", "into_iter", "iter"}:
            ads, kind, src = common.iter_chain(v)
            ads_all += [(a, av) for a, av in ads]
            if kind == "range" or (src[0] == "call" and isinstance(src[3], str) and re.search(r"Map::(range|range_raw|keys|keys_raw|prefix)$", generic_path(src[3]))):
                return ads_all, ("scan", src), helpers
            if src != v:
                v = src
                continue
        return ads_all, ("unknown", v), helpers
    return ads_all, ("unknown", v), helpers


def affected_filter(ctx, fav, helpers, DENOM):
    """The scan is narrowed by `.filter(|item| match item { Ok((_, rec)) => rec.asset_infos.iter().any(|a| a is the native
    coin `denom`), Err(_) => true })`: exactly the records with a position to update are kept (errors are kept and surface
    at the collect).  `fav` is the filter call value; the predicate's denom must be the handler's denom (through the helper's
    parameter).  Returns a description or None."""
    P = ctx.P
    try:
        clo = fav[4][1]
        if clo[0] != "agg" or clo[1] != "closure":
            return None
        cf = P.fn(clo[2])
        IP = P_(cf, 1)
        any_v = None
        seen = set()
        for b, v, cs in lemmas.fn_table(ctx, cf):
            cs = set(cs)
            if cs == {"discr(%s) in ['Err']" % IP}:
                if v != ("const", "int", 1):
                    return None
                seen.add("Err")
            elif cs == {"discr(%s) in ['Ok']" % IP}:
                any_v = v
                seen.add("Ok")
            else:
                return None
        if seen != {"Err", "Ok"} or any_v is None or any_v[0] != "call" or not isinstance(any_v[3], str) or common.last_seg(any_v[3]) != "any":
            return None
        ads, kind, src = common.iter_chain(any_v[4][0])
        sr = "|".join(sorted(ctx.roots(src)))
        if ads or kind != "iter" or not re.match(r"^%s(~Ok)?(\.0)?\.1\.asset_infos$" % re.escape(IP), sr):
            return None
        c2 = any_v[4][1]
        cf2 = P.fn(c2[2]) if c2[0] == "agg" and c2[1] == "closure" else None
        ex2 = common.exit_sites(P, cf2) if cf2 is not None else []
        if len(ex2) != 1 or ex2[0][3][0] != "call" or not isinstance(ex2[0][3][3], str):
            return None
        pv = ex2[0][3]
        g = P.fn(pv[3]) or P.fn(generic_path(pv[3]))
        if g is None or g.body is None or len(pv[4]) != 2 or set(ctx.roots(pv[4][0])) != {P_(cf2, 1)}:
            return None
        # the denom compared is the handler's denom
        dr = set(ctx.R.with_captures(c2).roots(pv[4][1]))
        for f_, cv_ in reversed(helpers):
            dr2 = set()
            for r_ in dr:
                m_ = re.match(r"^P:%s#(\d+)$" % re.escape(f_.path), r_)
                dr2 |= set(ctx.roots(cv_[4][int(m_.group(1))])) if m_ and int(m_.group(1)) < len(cv_[4]) else {r_}
            dr = dr2
        if dr != {DENOM}:
            return None
        # the predicate: true exactly for NativeToken { denom: d } with d == its argument
        tc = common.truth_conditions(P, g, None, 0, True)
        want = {"discr(%s) in ['NativeToken']" % P_(g, 0), "eq(%s) is [True]" % ", ".join(sorted([P_(g, 0, "~NativeToken.denom"), P_(g, 1)]))}
        if tc is None or set(lemmas.cond_strings(ctx, tc)) != want:
            return None
        return "filter keeps exactly the records with a native asset equal to the denom (%s)" % g.path
    except (AnchorMissing, KeyError, IndexError, TypeError):
        return None


def raw_scan_items(ctx, fn, DENOM=None, any_filter=False):
    """Item roots of loops in fn that iterate the *stored* registry entries `(key, PairInfoRaw)` themselves: a PAIRS scan
    collected without map / filter / bound (directly or through helpers).  {item_root: loop}"""
    P = ctx.P
    out = {}
    for l in common.loops(P, fn):
        if not l["is_loop"]:
            continue
        try:
            ads, kind, src = common.iter_chain(l["iter"])
            if ads:
                continue
            ads2, source, helpers = collection_chain(ctx, src)
        except Exception:
            continue
        if source[0] != "scan":
            continue
        if ads2 and any_filter and all(a == "filter" for a, _ in ads2):
            pass        # a filter drops entries but never alters one: key and record of a yielded element are still the stored ones
        elif ads2 and not (DENOM is not None and [a for a, _ in ads2] == ["filter"] and ads2[0][1] is not None and affected_filter(ctx, ads2[0][1], helpers, DENOM)):
            continue
        # the elements really are the stored entries: the iterator yields `(Vec<u8>, PairInfoRaw)` (a push-built vector of
        # humanised records has no adaptor either, but a different element type)
        ety = fn.body.blocks[l["next_bb"]]["term"].get("dest", {}).get("ty", "")
        if not re.match(r"^std::option::Option<\(std::vec::Vec<u8>, %s\)>$" % ctx.N.rx("PairInfoRaw"), ety):
            continue
        sc = source[1]
        if "|".join(sorted(ctx.roots(sc[4][0]))) != ctx.N.PAIRS or not re.search(r"Map::range$", generic_path(sc[3])):
            continue
        lo = "|".join(sorted(ctx.roots(sc[4][2]))) if len(sc[4]) > 2 else "?"
        hi = "|".join(sorted(ctx.roots(sc[4][3]))) if len(sc[4]) > 3 else "?"
        if "None" in lo and "None" in hi:
            out[l["item_root"]] = l
    return out


def _run(ctx):
    P = ctx.P
    r1 = ctx.inst("C17.R1", "the decimals handler walks the WHOLE registry: its loop iterates a collection collected from an unbounded PAIRS scan (no take/skip/filter), through helpers", floor=2)
    r2 = ctx.inst("C17.R2", "the page-limited reader is used only by the Pairs query", floor=1)
    r3 = ctx.inst("C17.R3", "position logic: for i in {0,1}, exactly when asset_infos[i] is the native denom, record and message carry [.. i: new decimals, 1-i: stored ..], to that pair, every iteration", floor=4)
    r4 = ctx.inst("C17.R4", "the allow-list is written under the same key derivation the denom query reads, on every success path; the denom query answers exactly the stored entry", floor=3)
    r5 = ctx.inst("C17.R5", "pair side: stored decimals are replaced by the message's array exactly when one of the pair's native denoms equals the message denom; the rest of the record is preserved", floor=3)
    try:
        PAIRS, ALLOW = ctx.N.PAIRS, ctx.N.ALLOW
        fr = roles.FactoryRoles(P)
        pr = roles.PairRoles(P)
    except AnchorMissing as e:
        for r in (r1, r2, r3, r4, r5):
            r.fail("%s:anchor" % r.id, "-", "-", "anchor-missing: %s" % e)
        return
    h = fr.add_decimals[3]
    body = h.body
    denom_i = common.param_index_of_type(h, r"^std::string::String$")
    dec_i = common.param_index_of_type(h, r"^u8$")
    if denom_i is None or dec_i is None:
        r1.fail("C17.R1:anchor", h.path, h.span, "anchor-missing: handler parameters (String denom, u8 decimals)")
        return
    DENOM, DEC = P_(h, denom_i), P_(h, dec_i)

    # ---- R1 ---------------------------------------------------------------------------------------
    saves = [(b, v) for (b, op, item, v) in common.storage_sites(P, h, writes=True) if item == PAIRS]
    lps = [l for l in common.loops(P, h) if l["is_loop"]]
    walk = None
    cands = [l for l in lps if saves and all(body.edge_dominates(l["some_edge"], b) for b, _ in saves)]
    # the walk is the outermost such loop (an inner `for i in 0..2` over the two positions is handled by R3)
    outer = [l for l in cands if not any(o is not l and body.edge_dominates(o["some_edge"], l["next_bb"]) for o in cands)]
    if len(outer) == 1:
        walk = outer[0]
    if walk is None or not saves:
        r1.fail("C17.R1:no-walk", h.path, h.span, "the registry records are not rewritten inside a loop over the registered pairs: unrecognised-idiom")
        return
    ads, kind, src = common.iter_chain(walk["iter"])
    names = [a for a, _ in ads]
    if any(a in BOUNDING for a in names):
        r1.fail("C17.R1:bounded-loop", h.path, common.span_of_block_term(h, walk["next_bb"]), "the walk over the pairs applies %s: pairs beyond the bound keep stale decimals" % names)
    ads2, source, helpers = collection_chain(ctx, src)
    names2 = [a for a, _ in ads2]
    bounding = [a for a in names2 if a in BOUNDING]
    where = common.span_of_block_term(h, walk["next_bb"])
    if bounding == ["filter"] and [x for x in ads2 if x[0] == "filter"][0][1] is not None:
        why_f = affected_filter(ctx, [x for x in ads2 if x[0] == "filter"][0][1], helpers, DENOM)
        if why_f:
            bounding = []
            r1.site(why_f)
    if source[0] != "scan":
        r1.fail("C17.R1:source", h.path, where, "the walked collection does not originate from a scan of the pair registry (%s): unrecognised-idiom" % ctx.show(source[1], 3))
    else:
        sc = source[1]
        item = "|".join(sorted(ctx.roots(sc[4][0])))
        lo = "|".join(sorted(ctx.roots(sc[4][2]))) if len(sc[4]) > 2 else "?"
        hi = "|".join(sorted(ctx.roots(sc[4][3]))) if len(sc[4]) > 3 else "?"
        via = " via " + " -> ".join(f.path for f, _ in helpers) if helpers else ""
        if item != PAIRS:
            r1.fail("C17.R1:wrong-map", h.path, where, "the walk scans %s, not the pair registry" % item)
        elif bounding:
            bad = [(a, av) for a, av in ads2 if a in BOUNDING][0]
            lim = ""
            if bad[0] == "take" and len(bad[1][4]) > 1:
                lim = " (limit ⊢ %s)" % ctx.show(bad[1][4][1], 4)
            r1.fail("C17.R1:bounded-scan:%s" % bounding[0], h.path, where,
                    "the registry scan feeding the decimals walk is cut by `%s`%s%s: pairs beyond it keep stale decimals in the factory and in the pair" % (bounding[0], lim, via))
        elif "None" not in lo or "None" not in hi:
            r1.fail("C17.R1:scan-bounds", h.path, where, "the registry scan is bounded (min ⊢ %s, max ⊢ %s)" % (lo[:80], hi[:80]))
        else:
            r1.site("loop at %s iterates collect(%s over PAIRS.range(None, None))%s" % (where, names2, via))
            r1.site("no take / skip / filter between the scan and the loop (%d helper(s) crossed)" % len(helpers))

    # the walk may be skipped only when the denom was not registered before: every condition outside the loop whose other
    # edge reaches a success exit without the walk must be exactly `ALLOW[denom]` existed (a rejecting guard is no skip)
    lb_ = body.reachable_from(walk["some_edge"][1], cut_edges=(walk["none_edge"],))
    ok_bs = [x[0] for x in common.ok_exit_blocks(P, h)]
    want_gate = "mload(%s)[%s]" % (ALLOW, DENOM)
    gates = 0
    for c in common.control_conditions(P, h, walk["next_bb"]):
        sw = c["sw"]
        if sw in lb_:
            continue
        skip = False
        for t in set(body.succs[sw]):
            if body.blocks[t]["cleanup"]:
                continue
            reach = body.reachable_from(t)
            if walk["next_bb"] not in reach and any(b in reach for b in ok_bs):
                skip = True
        if not skip:
            continue
        strs = sorted(lemmas.cond_strings(ctx, [c]))
        okc = strs in (["is_some(%s) is [True]" % want_gate], ["is_none(%s) is [False]" % want_gate], ["discr(%s) in ['Some']" % want_gate])
        if okc:
            gates += 1
            r1.site("the walk is skipped only when the denom had no allow-list entry before this call (%s)" % strs[0])
        else:
            r1.fail("C17.R1:skip-gate:%s" % "|".join(strs)[:160], h.path, common.span_of_block_term(h, sw),
                    "the walk over the registered pairs is skipped when not {%s}: a denom registered before (with any decimals, 0 included) must have every pair rewritten" % "; ".join(strs)[:300])

    # ---- R2 --------------------------------------------------------------------------------------------
    # page reader = function applying `take` to a PAIRS scan
    readers = []
    for f in P.prod_fns():
        if f.kind == "closure":
            continue
        for b, p, fr_, t in P.calls(f):
            if p and common.last_seg(p) == "take" and "Iterator" in p:
                tv = P.val_call(f, f.body, b)
                ads_, kind_, src_ = common.iter_chain(tv)
                if src_[0] == "call" and isinstance(src_[3], str) and re.search(r"Map::range", generic_path(src_[3])) and "|".join(sorted(ctx.roots(src_[4][0]))) == PAIRS:
                    readers.append(f)
    if len(readers) != 1:
        r2.fail("C17.R2:anchor", "-", "-", "anchor-missing: page reader (take over a PAIRS scan): %d found" % len(readers))
    else:
        rd = readers[0]
        q = fr.query
        ok = True
        for c, cb in P.callers(rd.path):
            if "::tests::" in c.path:
                continue
            # allowed: a function that is only reachable from the query entry point's Pairs arm
            chain_ok = False
            cs = [c]
            for _ in range(4):
                nxt = []
                for x in cs:
                    if x.path == q.path:
                        chain_ok = True
                    nxt += [y for y, _ in P.callers(x.path) if "::tests::" not in y.path]
                if not nxt:
                    break
                cs = nxt
            roots_ = set()
            cs = [c]
            seen = set()
            while cs:
                x = cs.pop()
                if x.path in seen:
                    continue
                seen.add(x.path)
                ups = [y for y, _ in P.callers(x.path) if "::tests::" not in y.path]
                if not ups:
                    roots_.add(x.path)
                cs += ups
            if roots_ != {q.path}:
                ok = False
                r2.fail("C17.R2:extra-user:%s" % c.path, c.path, common.span_of_block_term(c, cb), "the page-limited reader %s is reachable from %s, not only from the Pairs query" % (rd.path, sorted(roots_)))
        if ok:
            r2.site("%s is reachable only from %s" % (rd.path, q.path))

    # ---- R3 ----------------------------------------------------------------------------------------------
    item = walk["item_root"]
    # raw mode: the walk iterates the stored entries (key, PairInfoRaw) themselves instead of humanised records that are
    # looked up again by key: the record is the scanned value, its key the scanned key
    raw_mode = item in raw_scan_items(ctx, h, DENOM)
    item_key = None
    if raw_mode:
        item_key = item + ".0"
        item = item + ".1"
    loop_blocks = body.reachable_from(walk["some_edge"][1], cut_edges=(walk["none_edge"],))
    try:
        qden = ctx.N.native_denom
    except AnchorMissing:
        qden = None
    if qden is not None:
        ok = False
        for b, v, cs in lemmas.fn_table(ctx, qden):
            if common.classify_ret_value(v) == "ok" and "discr(%s) in ['NativeToken']" % P_(qden, 0) in cs and \
                    set(ctx.roots(v, (("v", "Ok"), ("f", 0)))) == {P_(qden, 0, "~NativeToken.denom")}:
                ok = True
        if not ok:
            r3.fail("C17.R3:denom-lemma", qden.path, qden.span, "query_denom_of_native_token does not return the native asset's own denom")
    msgs = [(fn, b, i, v, span) for (fn, b, i, adt, var, v, span) in common.message_sites(P)
            if fn.path == h.path and adt == ctx.N.exec_enum("pair") and var == "UpdateNativeTokenDecimals"]
    execs = [(fn, b, sp, tgt, pay, funds, v) for (fn, b, sp, tgt, pay, funds, v) in __import__("analysis.rules.c07", fromlist=["x"]).exec_sites(ctx) if fn.path == h.path]
    covered = set()

    def both_positions(l):
        """True when the loop's iterator is exactly 0..2 / 0..=1 with no adaptor."""
        ads_, kind_, src_ = common.iter_chain(l["iter"])
        if ads_:
            return False
        if src_[0] == "agg" and str(src_[2]).endswith("ops::Range"):
            fs = dict(src_[3])
            return fs.get("start") == ("const", "int", 0) and fs.get("end") == ("const", "int", 2)
        if src_[0] == "call" and isinstance(src_[3], str) and generic_path(src_[3]).endswith("RangeInclusive::new"):
            return src_[4][0] == ("const", "int", 0) and src_[4][1] == ("const", "int", 1)
        return False

    def enumerated(l):
        """True when the loop is `for (i, a) in <pair>.asset_infos.iter().enumerate()` (a 2-element array: both positions)."""
        ads_, kind_, src_ = common.iter_chain(l["iter"])
        return [a for a, _ in ads_] == ["enumerate"] and kind_ in ("iter", "into_iter") and "|".join(sorted(ctx.roots(src_))) == "%s.asset_infos" % item

    def idx_root(l):
        return l["item_root"] + ".0" if l.get("enumerated") else l["item_root"]

    def sym_index(v, l):
        """v reads item.asset_infos[i] with i the element of loop l (or is the enumerated element itself)."""
        if l.get("enumerated"):
            return set(ctx.roots(v)) == {l["item_root"] + ".1"}
        for x in common.walk(v):
            if x[0] == "proj" and x[2][0] == "ix":
                if "|".join(sorted(ctx.roots(x[1]))) == "%s.asset_infos" % item and set(ctx.roots(x[2][1])) == {l["item_root"]}:
                    return True
        return False

    for sb, sv in saves:
        where = common.span_of_block_term(h, sb)
        inner = [l for l in lps if l is not walk and l["next_bb"] in loop_blocks and body.edge_dominates(l["some_edge"], sb)]
        sym = None
        if len(inner) == 1 and both_positions(inner[0]):
            sym = inner[0]
        elif len(inner) == 1 and enumerated(inner[0]):
            sym = inner[0]
            sym["enumerated"] = True
        if inner and sym is None:
            r3.fail("C17.R3:inner-loop", h.path, where, "the registry update sits in an inner loop that is neither `0..2` nor `asset_infos.iter().enumerate()` over the two positions: unrecognised-idiom")
            continue
        conds = [c for c in common.control_conditions(P, h, sb) if c["sw"] in loop_blocks and c["sw"] != walk["switch"] and (sym is None or c["sw"] != sym["switch"])]
        idx = None
        extra = []
        skips = []
        have_native = have_eq = False
        for c in conds:
            cd = c["cond"]
            if cd[0] == "discr" and c["allowed"] == ["Ok"] and qden is not None and cd[1][0] == "call" and isinstance(cd[1][3], str) and generic_path(cd[1][3]) == qden.path:
                # `query_denom_of_native_token(a).map_or(false, |d| d == denom)`: the query is Ok exactly for a native asset (lemma above)
                m = re.match(r"^%s\.asset_infos\[(\d)\]$" % re.escape(item), "|".join(sorted(ctx.roots(cd[1][4][0]))))
                if m:
                    if idx is not None and idx != int(m.group(1)):
                        extra.append("mixed indices")
                    idx = int(m.group(1))
                    have_native = True
                    continue
            if cd[0] == "discr" and c["allowed"] in (["Continue"], ["Ok"]):
                continue   # `?` propagation
            if cd[0] == "cmp" and cd[1] == "is_native_token" and c["allowed"] == [True]:
                m = re.match(r"^%s\.asset_infos\[(\d)\]$" % re.escape(item), "|".join(sorted(ctx.roots(cd[2][0]))))
                if m:
                    if idx is not None and idx != int(m.group(1)):
                        extra.append("mixed indices")
                    idx = int(m.group(1))
                    have_native = True
                    continue
                if sym is not None and sym_index(cd[2][0], sym):
                    if idx not in (None, "i"):
                        extra.append("mixed indices")
                    idx = "i"
                    have_native = True
                    continue
            if cd[0] == "cmp" and cd[1] in ("eq", "ne") and len(cd[2]) == 2 and c["allowed"] == [cd[1] == "eq"]:
                sides = [x for x in cd[2]]
                rs = ["|".join(sorted(ctx.roots(x))) for x in sides]
                if DENOM in rs:
                    other = sides[1 - rs.index(DENOM)]
                    qc = [x for x in common.walk(other) if x[0] == "call" and isinstance(x[3], str) and qden is not None and generic_path(x[3]) == qden.path]
                    m = None
                    if qc:
                        m = re.match(r"^%s\.asset_infos\[(\d)\]$" % re.escape(item), "|".join(sorted(ctx.roots(qc[0][4][0]))))
                    else:
                        m = re.match(r"^%s\.asset_infos\[(\d)\]~NativeToken\.denom$" % re.escape(item), rs[1 - rs.index(DENOM)])
                    if m:
                        if idx is not None and idx != int(m.group(1)):
                            extra.append("mixed indices")
                        idx = int(m.group(1))
                        have_eq = True
                        continue
                    if sym is not None and ((qc and sym_index(qc[0][4][0], sym)) or
                                            (not qc and other[0] == "proj" and other[2] == ("f", "denom") and sym_index(other, sym))):
                        if idx not in (None, "i"):
                            extra.append("mixed indices")
                        idx = "i"
                        have_eq = True
                        continue
            # pattern forms: `matches!(a, NativeToken { denom: d } if *d == denom)` / `if let NativeToken { denom: d } = a`
            if sym is not None and sym.get("enumerated"):
                elem = sym["item_root"] + ".1"
                if cd[0] == "discr" and set(ctx.roots(cd[1])) == {elem} and c["allowed"] == ["NativeToken"]:
                    if idx not in (None, "i"):
                        extra.append("mixed indices")
                    idx = "i"
                    have_native = True
                    continue
                if cd[0] == "cmp" and cd[1] in ("eq", "ne") and len(cd[2]) == 2 and c["allowed"] == [cd[1] == "eq"]:
                    rs_ = sorted("|".join(sorted(ctx.roots(x))) for x in cd[2])
                    if rs_ == sorted([DENOM, elem + "~NativeToken.denom"]):
                        idx = "i"
                        have_eq = True
                        continue
            # the same pattern forms on `asset_infos[i]` with the range index of a `for i in 0..2` loop
            if sym is not None and not sym.get("enumerated"):
                if cd[0] == "discr" and c["allowed"] == ["NativeToken"] and sym_index(cd[1], sym):
                    if idx not in (None, "i"):
                        extra.append("mixed indices")
                    idx = "i"
                    have_native = True
                    continue
                if cd[0] == "cmp" and cd[1] in ("eq", "ne") and len(cd[2]) == 2 and c["allowed"] == [cd[1] == "eq"]:
                    rs_ = ["|".join(sorted(ctx.roots(x))) for x in cd[2]]
                    if DENOM in rs_:
                        other_ = cd[2][1 - rs_.index(DENOM)]
                        if rs_[1 - rs_.index(DENOM)] == "%s.asset_infos[*]~NativeToken.denom" % item and sym_index(other_, sym):
                            idx = "i"
                            have_eq = True
                            continue
            m_d = re.match(r"^%s\.asset_infos\[(\d)\]$" % re.escape(item), "|".join(sorted(ctx.roots(cd[1])))) if cd[0] == "discr" else None
            if m_d and c["allowed"] == ["NativeToken"]:
                if idx is not None and idx != int(m_d.group(1)):
                    extra.append("mixed indices")
                idx = int(m_d.group(1))
                have_native = True
                continue
            if cd[0] == "cmp" and cd[1] in ("eq", "ne") and len(cd[2]) == 2 and c["allowed"] == [cd[1] == "eq"]:
                rs_ = ["|".join(sorted(ctx.roots(x))) for x in cd[2]]
                if DENOM in rs_:
                    m_e = re.match(r"^%s\.asset_infos\[(\d)\]~NativeToken\.denom$" % re.escape(item), rs_[1 - rs_.index(DENOM)])
                    if m_e:
                        if idx is not None and idx != int(m_e.group(1)):
                            extra.append("mixed indices")
                        idx = int(m_e.group(1))
                        have_eq = True
                        continue
            txt_ = "; ".join(sorted(lemmas.cond_strings(ctx, [c])))
            if re.match(r"^eq\(.*\) is \[False\]$", txt_) and ".asset_decimals[" in txt_ and DEC in txt_:
                skips.append(txt_)      # candidate no-op skip `stored decimals[i] != new`: validated once the record is known
                continue
            extra.append(txt_)
        if extra:
            r3.fail("C17.R3:extra-condition:%s" % ("|".join(extra))[:150], h.path, where,
                    "the registry update is additionally conditioned on {%s}: an affected pair can be skipped" % "; ".join(extra)[:300])
            continue
        if not (have_native and have_eq) or idx is None:
            r3.fail("C17.R3:region", h.path, where, "the registry update is not guarded by `asset_infos[i] is native and its denom == denom`: unrecognised-idiom")
            continue
        # key of the save == key of the loaded record == key(item assets)
        rec = sv[4][3]
        recs = "|".join(sorted(ctx.roots(rec)))
        mload = re.search(r"mload\(%s\)\[([^\]]*)\]" % re.escape(PAIRS), recs)
        key = "|".join(sorted(ctx.roots(sv[4][2])))
        if raw_mode:
            if key != item_key:
                r3.fail("C17.R3:record-key:%s" % idx, h.path, where, "the record is saved under %s, expected the scanned entry's own key" % key[:80])
                continue
            stored = item
        else:
            if not mload or mload.group(1) != key:
                r3.fail("C17.R3:record-key:%s" % idx, h.path, where, "the record is saved under %s but was read under %s" % (key[:80], mload.group(1)[:80] if mload else "?"))
                continue
            stored = "mload(%s)[%s]" % (PAIRS, key)
        # a position may be skipped when the record already holds the new value there: rewriting it is a no-op, and the pair
        # holds the same value by the invariant this property states (record == self-description: R5, R6, C16.R6)
        bad_skip = False
        for sk in skips:
            if idx == "i":
                ok_sk = False
            else:
                ok_sk = sk == "eq(%s) is [False]" % ", ".join(sorted(["%s.asset_decimals[%d]" % (stored, idx), DEC]))
            if not ok_sk:
                bad_skip = True
                r3.fail("C17.R3:extra-condition:%s" % sk[:150], h.path, where, "the registry update is additionally conditioned on {%s}: an affected pair can be skipped" % sk[:300])
        if bad_skip:
            continue
        if skips:
            r3.site("position %s is skipped only when the record already holds the new value there (no-op)" % idx)
        if idx == "i":
            # `decimals[i] = new` on the stored array, i ranging over both positions
            want_arr = "X:upd(%s.asset_decimals;[@%s];%s)" % (stored, idx_root(sym), DEC)
        else:
            want_arr = "A:array[%s]" % ";".join(DEC if k == idx else "%s.asset_decimals[%d]" % (stored, k) for k in (0, 1))
        got_arr = "|".join(sorted(ctx.roots(rec, (("f", "asset_decimals"),))))
        if got_arr != want_arr:
            r3.fail("C17.R3:record-decimals:%s" % idx, h.path, where, "saved asset_decimals ⊢ %s, expected %s" % (got_arr[:200], want_arr[:200]))
            continue
        for fld in ("asset_infos", "contract_addr", "liquidity_token", "requirements", "commission_rate"):
            g = "|".join(sorted(ctx.roots(rec, (("f", fld),))))
            if g != "%s.%s" % (stored, fld):
                r3.fail("C17.R3:record-field:%s:%s" % (fld, idx), h.path, where, "saved %s ⊢ %s, expected the stored record's %s" % (fld, g[:120], fld))
        # the matching message: in the same region, to that record's contract, same array and denom
        mm = [(fn, b, sp, tgt, pay, funds, v) for (fn, b, sp, tgt, pay, funds, v) in execs
              if any(body.block_dominates(sb, b) and body.edge_dominates(e_, b) for e_ in [(c["sw"], None) for c in []] or [None]) or True]
        mine = []
        for (fn, b, sp, tgt, pay, funds, v) in execs:
            cs2 = [c for c in common.control_conditions(P, h, b) if c["sw"] in loop_blocks]
            s2 = lemmas.cond_strings(ctx, [c for c in cs2 if c["cond"][0] == "cmp"])
            s1 = lemmas.cond_strings(ctx, [c for c in conds if c["cond"][0] == "cmp"])
            if s1 == s2:
                mine.append((b, sp, tgt, pay))
        if len(mine) != 1:
            r3.fail("C17.R3:message-count:%s" % idx, h.path, where, "%d update messages are built in the region of position %s, expected exactly one" % (len(mine), idx))
            continue
        b, sp, tgt, pay = mine[0]
        want_pay = "bin(A:%s::UpdateNativeTokenDecimals{denom=%s,asset_decimals=%s})" % (ctx.N.exec_enum("pair"), DENOM, want_arr)
        if tgt != {"human(%s.contract_addr)" % stored}:
            r3.fail("C17.R3:message-target:%s" % idx, h.path, sp, "update message goes to %s, expected the updated record's contract" % sorted(tgt))
        elif "|".join(sorted(pay)) != want_pay:
            r3.fail("C17.R3:message-payload:%s" % idx, h.path, sp, "update message carries %s, expected %s" % ("|".join(sorted(pay))[:250], want_pay[:250]))
        else:
            for k in ((0, 1) if idx == "i" else (idx,)):
                covered.add(k)
                r3.site("position %s: record and message carry %s at %s" % (k, want_arr.replace(stored, "stored")[:90], where))
                r3.site("position %s: guarded exactly by is_native(asset_infos[%s]) ∧ denom(asset_infos[%s]) == denom%s" % (k, k, k, " (index loop 0..2)" if idx == "i" else ""))
    if covered != {0, 1} and r3.status == "pass":
        r3.fail("C17.R3:coverage", h.path, h.span, "positions handled: %s, expected both 0 and 1" % sorted(covered))
    # the key used inside the walk is the key of the iterated pair itself
    # (C16.R1 checks key([to_raw(item.asset_infos[0]), to_raw(item.asset_infos[1])]))
    # all the messages reach the response on every success path
    adds = [(b, P.val_call(h, body, b)) for b, p, fr_, t in P.calls(h) if p and generic_path(p).endswith("Response::add_messages")]
    if len(adds) != 1:
        r3.fail("C17.R3:response", h.path, h.span, "expected one add_messages attaching the update messages, found %d" % len(adds))
    else:
        ab, av = adds[0]
        # after the walk: reachable from the walk's exit and not from inside an iteration (a path that skips the walk
        # altogether — nothing to update — is judged by the skip-gate rule C17.R1)
        inside_ = body.reachable_from(walk["some_edge"][1], cut_edges=(walk["none_edge"],))
        if not (body.edge_dominates(walk["none_edge"], ab) or (ab in body.reachable_from(walk["none_edge"][1]) and ab not in inside_)):
            r3.fail("C17.R3:response-early", h.path, common.span_of_block_term(h, ab), "the messages are attached before the walk completes")
        pushes = [b for b, p, fr_, t in P.calls(h) if p and generic_path(p).endswith("Vec::push") and b in loop_blocks]
        if len(pushes) != len(execs):
            r3.fail("C17.R3:push-count", h.path, h.span, "%d update messages are built but %d are pushed" % (len(execs), len(pushes)))

    # ---- R4 --------------------------------------------------------------------------------------------------
    writers = []
    for f in P.prod_fns():
        for (b, op, it, v) in common.storage_sites(P, f, writes=True):
            if it == ALLOW:
                writers.append((f, b, op, v))
    readers_ = []
    for f in P.prod_fns():
        for (b, op, it, v) in common.storage_sites(P, f, writes=False):
            if it == ALLOW:
                readers_.append((f, b, op, v))
    removes = [w for w in writers if w[2] == "remove"]
    writers = [w for w in writers if w[2] != "remove"]
    for (rf, rb, rop, rvv) in removes:
        # taking a denom off the list is safe only while no registered pair uses it (else a later re-registration would be taken
        # for a first registration and skip the walk): the removal must sit behind a complete scan of the registry
        okr, why = removal_behind_scan(ctx, rf, rb, rvv)
        if okr:
            r4.site("allow-list removal in %s only after a complete registry scan found no pair using the denom" % rf.path)
        else:
            r4.fail("C17.R4:removal:%s" % rf.path, rf.path, common.span_of_block_term(rf, rb),
                    "an allow-list entry is removed although a registered pair may still use the denom (%s): a later re-registration would skip the walk over its pairs" % why)
    if len(writers) != 1:
        r4.fail("C17.R4:writers", "-", "-", "allow-list is written at %d sites, expected one" % len(writers))
    else:
        wf, wb, wop, wv = writers[0]
        # reach the handler's values
        call_in_h = [b for b, p, fr_, t in P.calls(h) if p and generic_path(p) == wf.path] if wf.path != h.path else [wb]
        key = set(ctx.roots(wv[4][2]))
        val = set(ctx.roots(wv[4][3]))
        if wf.path != h.path:
            if len(call_in_h) != 1:
                r4.fail("C17.R4:writer-call", h.path, h.span, "the allow-list writer is called %d times from the handler" % len(call_in_h))
            else:
                cv = P.val_call(h, body, call_in_h[0])
                sub = {P_(wf, i): "|".join(sorted(ctx.roots(cv[4][i]))) for i in range(len(cv[4]))}
                key = {sub.get(k, k) for k in key}
                val = {sub.get(k, k) for k in val}
        if key != {DENOM} or val != {DEC}:
            r4.fail("C17.R4:write-origin", wf.path, common.span_of_block_term(wf, wb), "allow-list entry written as (%s -> %s), expected (denom bytes -> decimals)" % (sorted(key), sorted(val)))
        else:
            r4.site("ALLOW_NATIVE_TOKENS[denom.as_bytes()] = decimals")
        cb_ = call_in_h[0] if call_in_h else None
        if cb_ is not None:
            pg = common.propagated(P, h, cb_)
            for (b, i, cls, v) in common.ok_exit_blocks(P, h):
                if pg is None or not body.edge_dominates(pg[1], b):
                    r4.fail("C17.R4:not-on-every-path", h.path, common.span_of_block_term(h, b), "a success exit is reachable without the allow-list write")
        # the denom query reads the same key
        qn = [(f, b, v) for (f, b, op, v) in readers_ if f.path != h.path]
        okq = False
        for f, b, v in qn:
            k = set(ctx.roots(v[4][2]))
            m_ = re.search(r"Result<([\w:]+),", f.body.locals[0]["ty"])
            adt_ = P.adts.get(m_.group(1)) if m_ else None
            if adt_ is None or adt_.get("kind") != "struct" or "decimals" not in {x_["name"] for x_ in adt_["variants"][0]["fields"]}:
                continue        # not the query (e.g. the removal handler testing `has(..)`)
            if len(k) == 1 and re.match(r"^P:%s#\d+$" % re.escape(f.path), list(k)[0]):
                okq = True
                r4.site("%s reads ALLOW_NATIVE_TOKENS[denom.as_bytes()]" % f.path)
                # C17 needs: for a registered denom the answer is the stored entry (defaults for unknown denoms are C16's concern)
                for (b2, i2, cls2, v2) in common.ok_exit_blocks(P, f):
                    got_d = set(ctx.roots(v2, (("v", "Ok"), ("f", 0), ("f", "decimals"))))
                    want_d = "mload(%s)[%s]" % (ALLOW, list(k)[0])
                    loads = [x for x in common.walk(v2) if x[0] == "call" and isinstance(x[3], str) and re.search(r"cw_storage_plus::(map::)?Map::(load|may_load)$", generic_path(x[3]))]
                    derived = loads and all("|".join(sorted(ctx.roots(x[4][0]))) == ALLOW and set(ctx.roots(x[4][2])) == k for x in loads) and \
                        all(r == want_d or r.startswith(("or(%s;" % want_d, "C:std::option::Option::unwrap_or")) for r in got_d)
                    if got_d == {want_d} or derived:
                        r4.site("%s answers the stored entry of the denom" % f.path)
                    else:
                        r4.fail("C17.R4:reader-value", f.path, common.span_of_block_term(f, b2), "the native-decimals query answers %s, not the stored entry %s" % (sorted(got_d), want_d))
        if not okq:
            r4.fail("C17.R4:reader-key", "-", "-", "the native-decimals query does not read the allow-list under the plain denom bytes")

    # ---- R5 pair side ---------------------------------------------------------------------------------------------
    ph = pr.update_decimals[3]
    pbody = ph.body
    pden = common.param_index_of_type(ph, r"^std::string::String$")
    parr = common.param_index_of_type(ph, r"^\[u8; 2\]$")
    psaves = [(b, v) for (b, op, it, v) in common.storage_sites(P, ph, writes=True) if it == ctx.N.PAIR_INFO]
    if pden is None or parr is None or len(psaves) != 1:
        r5.fail("C17.R5:anchor", ph.path, ph.span, "anchor-missing: pair decimals handler shape (String, [u8;2], one PAIR_INFO write)")
    else:
        sb, sv = psaves[0]
        rec = sv[4][2]
        stored = "load(%s)" % ctx.N.PAIR_INFO
        where = common.span_of_block_term(ph, sb)
        for fld in ("contract_addr", "liquidity_token", "requirements", "commission_rate"):
            g = "|".join(sorted(ctx.roots(rec, (("f", fld),))))
            if g != "%s.%s" % (stored, fld):
                r5.fail("C17.R5:field:%s" % fld, ph.path, where, "saved %s ⊢ %s, expected the stored value" % (fld, g[:160]))
        ai = set(ctx.roots(rec, (("f", "asset_infos"),)))
        if not {x for x in ai if not x.startswith("M:")} == {"%s.asset_infos" % stored}:
            r5.fail("C17.R5:field:asset_infos", ph.path, where, "saved asset_infos ⊢ %s, expected the stored assets" % sorted(ai))
        dec = set(ctx.roots(rec, (("f", "asset_decimals"),)))
        if dec != {"%s.asset_decimals" % stored, P_(ph, parr)}:
            r5.fail("C17.R5:decimals-origin", ph.path, where, "saved asset_decimals ⊢ %s, expected the stored value or the message's array" % sorted(dec))
        else:
            r5.site("saved record = stored record with asset_decimals ⊢ {stored, message array}")
        # a success exit that skips the write may depend on the stored assets and the message only (no asset matched): one
        # gated by anything the handler *queries* (LP supply, balances) acknowledges the factory's update without applying it,
        # and the factory's record then differs from the pair's description (seeded/C16-m24)
        from .. import lemmas as _lem
        for (b_, i_, cls_, v_) in common.ok_exit_blocks(P, ph):
            if b_ == sb or pbody.block_dominates(sb, b_):
                continue
            cs_ = _lem.cond_strings(ctx, common.control_conditions(P, ph, b_))
            ext_ = sorted(c_ for c_ in cs_ if re.search(r"C:[^@]*(query|Querier|querier)[^@]*@", c_))
            if ext_:
                r5.fail("C17.R5:skip-gated-by-query", ph.path, common.span_of_block_term(ph, b_),
                        "a success exit skips the PAIR_INFO write under a condition on queried state (%s): the update is acknowledged but not applied" % ext_[0][:160])
        # the function whose body decides the assignment: the handler, or the closure of `PAIR_INFO.update(storage, |old| ..)`
        sf, sbody, sstored = ph, pbody, stored
        t_sb = pbody.blocks[sb]["term"]
        cal_ = common.callee_of(t_sb)[0] if t_sb["k"] == "call" else None
        if cal_ and re.search(r"Item::update$", generic_path(cal_)):
            raw_ = P.val_call(ph, pbody, sb)
            if len(raw_[4]) == 3 and raw_[4][2][0] == "agg" and raw_[4][2][1] == "closure" and P.fn(raw_[4][2][2]) is not None:
                sf = P.fn(raw_[4][2][2])
                sbody = sf.body
                sstored = P_(sf, 1)
        if sf is ph and not any(st["k"] == "assign" and st["place"]["p"] and st["place"]["p"][-1].get("name") == "asset_decimals"
                                for blk in pbody.blocks if not blk["cleanup"] for st in blk["stmts"]):
            # the decision may live in a record transform called once by the handler
            # (`&with_native_token_decimals(pair_info_raw, &denom, asset_decimals)`): its parameters are the handler's values
            for b_, p_, fr_, t_ in P.calls(ph):
                h_ = (P.fn(p_) or P.fn(generic_path(p_))) if roles.is_workspace_fn(P, p_) else None
                if h_ is None or h_.path == ph.path or common.single_call_site(P, h_) is None or common.single_call_site(P, h_)[0].path != ph.path:
                    continue
                if any(st["k"] == "assign" and st["place"]["p"] and st["place"]["p"][-1].get("name") == "asset_decimals"
                       for blk in h_.body.blocks if not blk["cleanup"] for st in blk["stmts"]):
                    cv_ = P.val_call(ph, pbody, b_)
                    if not hasattr(P, "_param_overrides"):
                        P._param_overrides = {}
                    P._param_overrides[h_.path] = tuple(cv_[4])
                    common.OVERRIDDEN[h_.path] = (P, tuple(cv_[4]))
                    sf, sbody = h_, h_.body
                    break
        # where is the assignment of the new array, and under which conditions
        assigns = []
        for b, blk in enumerate(sbody.blocks):
            if blk["cleanup"]:
                continue
            for i, st in enumerate(blk["stmts"]):
                if st["k"] == "assign" and st["place"]["p"] and st["place"]["p"][-1].get("name") == "asset_decimals":
                    v = P.val_rvalue(sf, sbody, (b, i), st["rv"])
                    if set(ctx.roots(v)) == {P_(ph, parr)}:
                        assigns.append(b)
        lps2 = [l for l in common.loops(P, sf) if l["is_loop"]]
        anys = []
        if len(assigns) == 1 and not lps2:
            # `if asset_infos.iter().any(|a| matches!(a, Native{denom: d} if d == &denom)) { decimals = msg }`
            for c in common.control_conditions(P, sf, assigns[0]):
                cd = c["cond"]
                if cd[0] == "cmp" and cd[1] == "any" and c["allowed"] == [True]:
                    anys.append(cd)
        if len(assigns) == 1 and len(anys) == 1:
            cd = anys[0]
            ads, kind, src = common.iter_chain(cd[2][0])
            srcr = {x for x in ctx.roots(src) if not x.startswith("M:")}
            clo = cd[2][1]
            okp = False
            if clo[0] == "agg" and clo[1] == "closure" and not ads and kind in ("iter", "iter_mut") and srcr == {"%s.asset_infos" % sstored}:
                cf = P.fn(clo[2])
                R2 = ctx.R.with_captures(clo)
                trues = []
                bad = False
                for (b_, i_, cls_, v_) in common.exit_sites(P, cf):
                    conds_ = common.control_conditions(P, cf, b_)
                    class _C:       # cond_strings with the closure's captures resolved
                        pass
                    fake = type(ctx)(ctx.prop, P)
                    fake.R = R2
                    cs_ = lemmas.cond_strings(fake, conds_)
                    if v_ == ("const", "int", 1):
                        trues.append(cs_)
                    elif v_ == ("const", "int", 0):
                        pass
                    elif v_[0] == "call" and common.cmp_kind(v_[3]) == "eq":
                        # `d == &denom` returned directly under the NativeToken arm
                        ops_ = sorted("|".join(sorted(R2.roots(a))) for a in v_[4])
                        trues.append(cs_ | {"eq(%s) is [True]" % ", ".join(ops_)})
                    else:
                        bad = True
                it = P_(cf, 1)
                want = {"discr(%s) in ['NativeToken']" % it, "eq(%s) is [True]" % ", ".join(sorted([it + "~NativeToken.denom", P_(ph, pden)]))}
                okp = not bad and trues == [want]
            if not okp:
                r5.fail("C17.R5:any-predicate", ph.path, common.span_of_block_term(sf, assigns[0]), "the decimals are applied under an `any(..)` test whose predicate is not exactly {asset is native; its denom == message denom} over the stored assets")
            else:
                r5.site("applied exactly when a stored native asset's denom equals the message denom")
                r5.site("record saved after the test over both assets")
        elif len(assigns) != 1 or len(lps2) != 1:
            r5.fail("C17.R5:assignment-shape", ph.path, ph.span, "expected one assignment of the message array inside one loop over the pair's assets: unrecognised-idiom")
        else:
            l = lps2[0]
            ads, kind, src = common.iter_chain(l["iter"])
            srcr = {x for x in ctx.roots(src) if not x.startswith("M:")}
            if ads or kind not in ("iter", "iter_mut") or srcr != {"%s.asset_infos" % sstored}:
                r5.fail("C17.R5:loop-shape", ph.path, common.span_of_block_term(sf, l["next_bb"]), "the loop does not visit both stored assets (adaptors %s over %s)" % ([a for a, _ in ads], sorted(srcr)))
            lb = sbody.reachable_from(l["some_edge"][1], cut_edges=(l["none_edge"],))
            conds = [c for c in common.control_conditions(P, sf, assigns[0]) if c["sw"] in lb and c["sw"] != l["switch"]]
            cs = lemmas.cond_strings(ctx, conds)
            it = l["item_root"]
            want = {"discr(%s) in ['NativeToken']" % it, "eq(%s) is [True]" % ", ".join(sorted([it + "~NativeToken.denom", P_(ph, pden)]))}
            if cs != want:
                r5.fail("C17.R5:condition", ph.path, common.span_of_block_term(sf, assigns[0]),
                        "the new decimals are applied under {%s}; expected exactly {asset is native; its denom == message denom}" % "; ".join(sorted(cs))[:300])
            else:
                r5.site("applied exactly when a stored native asset's denom equals the message denom")
            if sf is ph and not sbody.edge_dominates(l["none_edge"], sb):
                r5.fail("C17.R5:save-order", ph.path, where, "the record is saved before both assets were examined")
            else:
                r5.site("record saved after the loop over both assets")
    ctx.assumptions.append("'never diverge over any history' additionally uses: records are created consistent (C16.R5/R6), messages are delivered atomically (platform), and only the factory can update a pair (C14.R6)")


def removal_behind_scan(ctx, rf, rb, rvv):
    """The `ALLOW.remove(storage, denom)` at block rb of rf is reached only when `scan(storage, denom)?` answered false, where
    scan returns Ok(true) as soon as some registered pair has a native asset with that denom — for ALL pairs (unbounded
    range, no adaptor) and BOTH positions (plain iteration of asset_infos)."""
    P = ctx.P
    key = set(ctx.roots(rvv[4][2]))
    if len(key) != 1 or not re.match(r"^P:%s#\d+$" % re.escape(rf.path), list(key)[0]):
        return False, "removed key is not a parameter of the handler"
    DEN = list(key)[0]
    scans = []
    for c in common.control_conditions(P, rf, rb, False):
        cd = c["cond"]
        if cd[0] in ("val", "flag") and c["allowed"] == [False]:
            for x in common.walk(cd[1]):
                if x[0] == "call" and isinstance(x[3], str) and roles.is_workspace_fn(P, x[3]) and any(set(ctx.roots(a)) == {DEN} for a in x[4]):
                    scans.append(x)
    if len(scans) != 1:
        return False, "no `scan(storage, denom)? == false` condition guards it"
    sv = scans[0]
    S = P.fn(sv[3]) or P.fn(generic_path(sv[3]))
    di = [i for i, a in enumerate(sv[4]) if set(ctx.roots(a)) == {DEN}][0]
    if S is None or S.body is None or not re.search(r"-> std::result::Result<bool, ", S.sig or ""):
        return False, "the scan is not a Result<bool> function"
    lps = [l for l in common.loops(P, S) if l["is_loop"]]
    outer = inner = None
    for l in lps:
        ads, kind, src = common.iter_chain(l["iter"])
        ety = S.body.blocks[l["next_bb"]]["term"].get("dest", {}).get("ty", "")
        if not ads and src[0] == "call" and isinstance(src[3], str) and re.search(r"Map::range$", generic_path(src[3])) and \
                "|".join(sorted(ctx.roots(src[4][0]))) == ctx.N.PAIRS and "None" in "|".join(sorted(ctx.roots(src[4][2]))) and "None" in "|".join(sorted(ctx.roots(src[4][3]))) and \
                re.search(r"\(std::vec::Vec<u8>, %s\)" % ctx.N.rx("PairInfoRaw"), ety):
            outer = l
    if outer is None:
        return False, "the scan does not iterate the whole registry (unbounded PAIRS.range, no adaptor)"
    for l in lps:
        if l is outer:
            continue
        ads, kind, src = common.iter_chain(l["iter"])
        sr = "|".join(sorted(ctx.roots(src)))
        if not ads and kind in ("iter", "into_iter") and sr.startswith(outer["item_root"]) and sr.endswith(".asset_infos"):
            inner = l
    if inner is None:
        return False, "the scan does not look at both assets of each pair (plain iteration of asset_infos)"
    el = inner["item_root"]
    want_true = {"is_native_token(%s) is [True]" % el, "eq(%s) is [True]" % ", ".join(sorted([el, P_(S, di)]))}
    seen_true = seen_false = False
    for (b, i, cls, v) in common.exit_sites(P, S):
        if cls == "err":
            continue
        cs = {c_ for c_ in lemmas.cond_strings(ctx, common.control_conditions(P, S, b)) if not c_.startswith("discr(")}
        dcs = {c_ for c_ in lemmas.cond_strings(ctx, common.control_conditions(P, S, b)) if c_.startswith("discr(")}
        val = v[3][0][1] if v[0] == "agg" and str(v[2]).endswith("Result::Ok") and len(v[3]) == 1 else None
        if val == ("const", "int", 1) and cs == want_true:
            seen_true = True
        elif val == ("const", "int", 0) and not cs and dcs == {"discr(%s) in ['None']" % outer["item_root"]}:
            seen_false = True
        else:
            return False, "the scan answers %s under {%s}" % (ctx.show(v, 3), "; ".join(sorted(cs | dcs))[:200])
    if not (seen_true and seen_false):
        return False, "the scan lacks the `found => true` or the `exhausted => false` exit"
    return True, ""


def allow_list_reader_strict(ctx, inst):
    """For C16: the factory's native-decimals query answers exactly the stored entry and is an error for an unregistered denom."""
    P = ctx.P
    ALLOW = ctx.N.ALLOW
    fr = roles.FactoryRoles(P)
    h = fr.add_decimals[3]
    n = 0
    for f in P.prod_fns():
        if f.path == h.path:
            continue
        for (b, op, it, v) in common.storage_sites(P, f, writes=False):
            if it != ALLOW:
                continue
            k = set(ctx.roots(v[4][2]))
            if not (len(k) == 1 and re.match(r"^P:%s#\d+$" % re.escape(f.path), list(k)[0])):
                continue
            # a *query*: it answers a response struct with a `decimals` field (other readers — an owner-only removal that
            # first tests `has(..)` — are not the function pair creation learns decimals from)
            m_ = re.search(r"Result<([\w:]+),", f.body.locals[0]["ty"])
            adt_ = P.adts.get(m_.group(1)) if m_ else None
            if adt_ is None or adt_.get("kind") != "struct" or "decimals" not in {x_["name"] for x_ in adt_["variants"][0]["fields"]}:
                continue
            n += 1
            want_d = {"mload(%s)[%s]" % (ALLOW, list(k)[0])}
            for (b2, i2, cls2, v2) in common.ok_exit_blocks(P, f):
                got_d = set(ctx.roots(v2, (("v", "Ok"), ("f", 0), ("f", "decimals"))))
                if got_d != want_d:
                    inst.fail("%s:reader-default" % inst.id, f.path, common.span_of_block_term(f, b2),
                              "the native-decimals query answers %s, expected exactly the stored entry %s: an unregistered denom must be an error, pair creation relies on it to enforce the allow-list" % (sorted(got_d), sorted(want_d)))
                else:
                    inst.site("%s answers exactly the stored entry; absent entry => Err (%s)" % (f.path, op))
    if n == 0:
        inst.fail("%s:reader-anchor" % inst.id, "-", "-", "anchor-missing: native-decimals query reading the allow-list under the plain denom bytes")


def run(ctx):
    from .. import compose
    from . import c14
    _run(ctx)
    r6 = ctx.inst("C17.R6", "the pair's stored decimals change only on the factory's message: the pair-side handler is factory-only (shared with C14.R6) — otherwise anyone can make the pair's self-description diverge from the factory record", floor=1)
    compose.pull(ctx, r6, c14, {"C14.R6"}, "C17.R6")
